//go:build verif

// Driver for C05 (persisted state reloads to the same state; identifiers are never reused).
// In-package so that every persisted field of State/Task/Change/Notice/Warning can be projected, including the
// unexported ones. Runs random operation sequences through the real API with reloads (checkpoint payload captured by
// the driver's own Backend -> ReadState) and real State.Prune calls anywhere, and prints each history as a Coq term of
// type V.models.StatePersist.case.
package state

import (
	"bytes"
	"encoding/json"
	"fmt"
	"sort"
	"strconv"
	"strings"
	"testing"
	"time"

	"github.com/snapcore/snapd/zzverif/vh"
)

type c05Op struct {
	K    string            `json:"k"`
	A    int               `json:"a,omitempty"`
	B    int               `json:"b,omitempty"`
	S    string            `json:"s,omitempty"`
	S2   string            `json:"s2,omitempty"`
	V    string            `json:"v,omitempty"`
	N    int64             `json:"n,omitempty"`
	N2   int64             `json:"n2,omitempty"`
	St   int               `json:"st,omitempty"`
	T    *int64            `json:"t,omitempty"`
	Uid  *uint32           `json:"uid,omitempty"`
	Data map[string]string `json:"data,omitempty"`
}

type c05In struct {
	Ops []c05Op `json:"ops"`
}

type c05Backend struct{ last []byte }

func (b *c05Backend) Checkpoint(d []byte) error  { b.last = append([]byte(nil), d...); return nil }
func (b *c05Backend) EnsureBefore(time.Duration) {}

// ---------------------------------------------------------------- projection of a State (every persisted field)

type c05Task struct {
	ID       int         `json:"id"`
	Kind     string      `json:"kind"`
	Summary  string      `json:"summary"`
	Status   int         `json:"status"`
	Waited   int         `json:"waited"`
	Clean    bool        `json:"clean"`
	Progress *progress   `json:"progress"`
	Data     [][2]string `json:"data"`
	Waits    []int       `json:"waits"`
	Halts    []int       `json:"halts"`
	Lanes    []int       `json:"lanes"`
	Log      []string    `json:"log"`
	Change   int         `json:"change"`
	Spawn    *int64      `json:"spawn"`
	Ready    *int64      `json:"ready"`
	Doing    int64       `json:"doing"`
	Undoing  int64       `json:"undoing"`
	At       *int64      `json:"at"`
}
type c05Change struct {
	ID      int         `json:"id"`
	Kind    string      `json:"kind"`
	Summary string      `json:"summary"`
	Status  int         `json:"status"`
	Clean   bool        `json:"clean"`
	Data    [][2]string `json:"data"`
	Tasks   []int       `json:"tasks"`
	Spawn   *int64      `json:"spawn"`
	Ready   *int64      `json:"ready"`
	Lrns    int         `json:"lrns"`
}
type c05Notice struct {
	ID       int         `json:"id"`
	Uid      *uint32     `json:"uid"`
	Type     string      `json:"type"`
	Key      string      `json:"key"`
	First    int64       `json:"first"`
	LastOcc  int64       `json:"lastocc"`
	LastRep  int64       `json:"lastrep"`
	Occ      int         `json:"occ"`
	Data     [][2]string `json:"data"`
	Repeat   int64       `json:"repeat"`
	Expire   int64       `json:"expire"`
}
type c05Warning struct {
	Msg       string `json:"msg"`
	First     int64  `json:"first"`
	LastAdded int64  `json:"lastadded"`
	LastShown *int64 `json:"lastshown"`
	Expire    int64  `json:"expire"`
	Repeat    int64  `json:"repeat"`
}
type c05State struct {
	Data       [][2]string  `json:"data"`
	Changes    []c05Change  `json:"changes"`
	Tasks      []c05Task    `json:"tasks"`
	Warnings   []c05Warning `json:"warnings"`
	Notices    []c05Notice  `json:"notices"`
	LastChange int          `json:"last-change"`
	LastTask   int          `json:"last-task"`
	LastLane   int          `json:"last-lane"`
	LastNotice int          `json:"last-notice"`
	Lnts       *int64       `json:"lnts"`
}

func c05ID(s string) int {
	if s == "" {
		return 0
	}
	n, err := strconv.Atoi(s)
	if err != nil {
		panic("non-numeric id " + s)
	}
	return n
}
func c05IDs(l []string) []int {
	out := make([]int, len(l))
	for i, s := range l {
		out[i] = c05ID(s)
	}
	return out
}

type c05Proj struct{ base time.Time }

func (p c05Proj) off(t time.Time) int64 { return int64(t.Sub(p.base)) }
func (p c05Proj) opt(t time.Time) *int64 {
	if t.IsZero() {
		return nil
	}
	o := p.off(t)
	return &o
}

// entries visible through Has/Get (non-nil raw message), sorted by key
func c05Data(d customData) [][2]string {
	out := [][2]string{}
	for k, v := range d {
		if v != nil {
			out = append(out, [2]string{k, string(*v)})
		}
	}
	sort.Slice(out, func(i, j int) bool { return out[i][0] < out[j][0] })
	return out
}
func c05StrMap(d map[string]string) [][2]string {
	out := [][2]string{}
	for k, v := range d {
		out = append(out, [2]string{k, v})
	}
	sort.Slice(out, func(i, j int) bool { return out[i][0] < out[j][0] })
	return out
}

// log entries without the RFC3339 time stamp prefix
func c05Log(l []string) []string {
	out := make([]string, len(l))
	for i, m := range l {
		if j := strings.Index(m, " "); j >= 0 {
			m = m[j+1:]
		}
		out[i] = m
	}
	return out
}

func (p c05Proj) state(s *State) c05State {
	out := c05State{Data: c05Data(s.data), LastChange: s.lastChangeId, LastTask: s.lastTaskId, LastLane: s.lastLaneId,
		LastNotice: s.lastNoticeId, Lnts: p.opt(s.lastNoticeTimestamp)}
	for _, c := range s.changes {
		out.Changes = append(out.Changes, c05Change{ID: c05ID(c.id), Kind: c.kind, Summary: c.summary, Status: int(c.status),
			Clean: c.clean, Data: c05Data(c.data), Tasks: c05IDs(c.taskIDs), Spawn: p.opt(c.spawnTime), Ready: p.opt(c.readyTime),
			Lrns: int(c.lastRecordedNoticeStatus)})
	}
	sort.Slice(out.Changes, func(i, j int) bool { return out.Changes[i].ID < out.Changes[j].ID })
	for _, t := range s.tasks {
		var pr *progress
		if t.progress != nil {
			c := *t.progress
			pr = &c
		}
		out.Tasks = append(out.Tasks, c05Task{ID: c05ID(t.id), Kind: t.kind, Summary: t.summary, Status: int(t.status),
			Waited: int(t.waitedStatus), Clean: t.clean, Progress: pr, Data: c05Data(t.data), Waits: c05IDs(t.waitTasks),
			Halts: c05IDs(t.haltTasks), Lanes: append([]int{}, t.lanes...), Log: c05Log(t.log), Change: c05ID(t.change),
			Spawn: p.opt(t.spawnTime), Ready: p.opt(t.readyTime), Doing: int64(t.doingTime), Undoing: int64(t.undoingTime),
			At: p.opt(t.atTime)})
	}
	sort.Slice(out.Tasks, func(i, j int) bool { return out.Tasks[i].ID < out.Tasks[j].ID })
	for _, w := range s.warnings {
		out.Warnings = append(out.Warnings, c05Warning{Msg: w.message, First: p.off(w.firstAdded), LastAdded: p.off(w.lastAdded),
			LastShown: p.opt(w.lastShown), Expire: int64(w.expireAfter), Repeat: int64(w.repeatAfter)})
	}
	sort.Slice(out.Warnings, func(i, j int) bool { return out.Warnings[i].Msg < out.Warnings[j].Msg })
	for _, n := range s.notices {
		var uid *uint32
		if n.userID != nil {
			u := *n.userID
			uid = &u
		}
		out.Notices = append(out.Notices, c05Notice{ID: c05ID(n.id), Uid: uid, Type: string(n.noticeType), Key: n.key,
			First: p.off(n.firstOccurred), LastOcc: p.off(n.lastOccurred), LastRep: p.off(n.lastRepeated), Occ: n.occurrences,
			Data: c05StrMap(n.lastData), Repeat: int64(n.repeatAfter), Expire: int64(n.expireAfter)})
	}
	sort.Slice(out.Notices, func(i, j int) bool {
		if out.Notices[i].ID != out.Notices[j].ID {
			return out.Notices[i].ID < out.Notices[j].ID
		}
		return out.Notices[i].Key < out.Notices[j].Key
	})
	return out
}

// ---------------------------------------------------------------- Coq printing
func c05N(n int) string { return vh.CoqN(uint64(n)) }
func c05Ns(l []int) string {
	it := make([]string, len(l))
	for i, x := range l {
		it[i] = c05N(x)
	}
	return vh.CoqList(it)
}
func c05Zs(l []int) string {
	it := make([]string, len(l))
	for i, x := range l {
		it[i] = c05Z(int64(x))
	}
	return vh.CoqList(it)
}
func c05Time(t *int64) string {
	if t == nil {
		return "None"
	}
	return "(Some " + c05Z(*t) + ")"
}
// strings that occur in almost every case are printed as constants of the model (string literals are slow to elaborate)
var c05Table = []string{"i", "r", "a", "b c", "<&", "rm", "k", "s-s", "z", "y", "INFO", "ERROR", "1", "2", "3", "-", "key", "x y", "true"}

// times and durations as minutes + nanoseconds (small numerals elaborate much faster than 15-digit ones)
func c05Z(v int64) string {
	if v > -1000000 && v < 1000000 {
		return vh.CoqZ(v)
	}
	const unit = int64(time.Minute)
	m := v / unit
	ns := v - m*unit
	if ns < 0 {
		m--
		ns += unit
	}
	return "(tm " + vh.CoqZ(m) + " " + vh.CoqZ(ns) + ")"
}

func c05B(s string) string {
	if s == "kind" {
		return "kind_b"
	}
	for i, t := range c05Table {
		if s == t {
			return "(sx " + c05N(i) + ")"
		}
	}
	for i, t := range c05NoticeTypes[:6] {
		if s == t {
			return "(nt " + c05N(i) + ")"
		}
	}
	return vh.CoqBytes(s)
}
func c05KV(d [][2]string) string {
	it := make([]string, len(d))
	for i, e := range d {
		it[i] = "(" + c05B(e[0]) + ", " + c05B(e[1]) + ")"
	}
	return vh.CoqList(it)
}
func c05Strs(l []string) string {
	it := make([]string, len(l))
	for i, s := range l {
		it[i] = c05B(s)
	}
	return vh.CoqList(it)
}
func c05Uid(u *uint32) string {
	if u == nil {
		return "None"
	}
	return "(Some " + vh.CoqN(uint64(*u)) + ")"
}
func (t c05Task) coq() string {
	pr := "None"
	if t.Progress != nil {
		pr = "(Some (" + c05B(t.Progress.Label) + ", " + c05Z(int64(t.Progress.Done)) + ", " + c05Z(int64(t.Progress.Total)) + "))"
	}
	return "(mkTask " + strings.Join([]string{c05N(t.ID), c05B(t.Kind), c05B(t.Summary), c05N(t.Status), c05N(t.Waited),
		vh.CoqBool(t.Clean), pr, c05KV(t.Data), c05Ns(t.Waits), c05Ns(t.Halts), c05Zs(t.Lanes), c05Strs(t.Log), c05N(t.Change),
		c05Time(t.Spawn), c05Time(t.Ready), c05Z(t.Doing), c05Z(t.Undoing), c05Time(t.At)}, " ") + ")"
}
func (c c05Change) coq() string {
	return "(mkChange " + strings.Join([]string{c05N(c.ID), c05B(c.Kind), c05B(c.Summary), c05N(c.Status),
		vh.CoqBool(c.Clean), c05KV(c.Data), c05Ns(c.Tasks), c05Time(c.Spawn), c05Time(c.Ready), c05N(c.Lrns)}, " ") + ")"
}
func (n c05Notice) coq() string {
	return "(mkNotice " + strings.Join([]string{c05N(n.ID), c05Uid(n.Uid), c05B(n.Type), c05B(n.Key), c05Z(n.First),
		c05Z(n.LastOcc), c05Z(n.LastRep), c05N(n.Occ), c05KV(n.Data), c05Z(n.Repeat), c05Z(n.Expire)}, " ") + ")"
}
func (w c05Warning) coq() string {
	return "(mkWarning " + strings.Join([]string{c05B(w.Msg), c05Z(w.First), c05Z(w.LastAdded), c05Time(w.LastShown),
		c05Z(w.Expire), c05Z(w.Repeat)}, " ") + ")"
}
func (s c05State) coq() string {
	cs := make([]string, len(s.Changes))
	for i, c := range s.Changes {
		cs[i] = c.coq()
	}
	ts := make([]string, len(s.Tasks))
	for i, t := range s.Tasks {
		ts[i] = t.coq()
	}
	ws := make([]string, len(s.Warnings))
	for i, w := range s.Warnings {
		ws[i] = w.coq()
	}
	ns := make([]string, len(s.Notices))
	for i, n := range s.Notices {
		ns[i] = n.coq()
	}
	return "(mkState " + strings.Join([]string{c05KV(s.Data), vh.CoqList(cs), vh.CoqList(ts), vh.CoqList(ws), vh.CoqList(ns),
		c05N(s.LastChange), c05N(s.LastTask), c05N(s.LastLane), c05N(s.LastNotice), c05Time(s.Lnts)}, " ") + ")"
}

// ---------------------------------------------------------------- diff of a reload, used only to classify a failing case
const c05Day = int64(24 * time.Hour)

func c05Norm(s c05State, dropExpired bool) (c05State, []string) {
	var nulls []string
	strip := func(owner string, d [][2]string) [][2]string {
		out := [][2]string{}
		for _, e := range d {
			if dropExpired && e[1] == "null" {
				nulls = append(nulls, owner+":"+e[0])
				continue
			}
			out = append(out, e)
		}
		return out
	}
	o := s
	o.Data = strip("state", s.Data)
	o.Changes = nil
	for _, c := range s.Changes {
		c.Data = strip("change"+strconv.Itoa(c.ID), c.Data)
		o.Changes = append(o.Changes, c)
	}
	o.Tasks = nil
	for _, t := range s.Tasks {
		t.Data = strip("task"+strconv.Itoa(t.ID), t.Data)
		if t.Waited == 0 {
			t.Waited = 4
		}
		o.Tasks = append(o.Tasks, t)
	}
	if dropExpired {
		o.Warnings = nil
		for _, w := range s.Warnings {
			if w.LastAdded+w.Expire >= 0 {
				o.Warnings = append(o.Warnings, w)
			}
		}
		o.Notices = nil
		for _, n := range s.Notices {
			if n.LastOcc+n.Expire >= 0 {
				o.Notices = append(o.Notices, n)
			}
		}
	}
	return o, nulls
}

// returns the list of differences between the saved and the reloaded state: "null:<owner>:<key>" for a data entry whose
// JSON value is null and that is gone after the reload, "other" for anything else
func c05Diff(before, after c05State) []string {
	b, nulls := c05Norm(before, true)
	a, _ := c05Norm(after, false)
	jb, _ := json.Marshal(b)
	ja, _ := json.Marshal(a)
	var out []string
	if !bytes.Equal(jb, ja) {
		// maybe the null entries did survive: compare with them kept
		out = append(out, "other")
	}
	for _, n := range nulls {
		out = append(out, "null:"+n)
	}
	return out
}

// ---------------------------------------------------------------- execution
type c05Run struct {
	p       c05Proj
	be      *c05Backend
	st      *State
	chgs    []string // ids of the changes created so far (possibly pruned since)
	tasks   []string
	lanes   []int
	ops     []string // Coq terms
	ids     [][2]int
	reloads [][2]c05State
	cacheGone []bool
	tags    map[string]bool
	idsAfterReload bool
	sawReload      bool
}

func (r *c05Run) at(off int64) time.Time { return r.p.base.Add(time.Duration(off)) }
func (r *c05Run) chg(i int) *Change {
	if len(r.chgs) == 0 {
		return nil
	}
	return r.st.changes[r.chgs[((i%len(r.chgs))+len(r.chgs))%len(r.chgs)]]
}
func (r *c05Run) task(i int) *Task {
	if len(r.tasks) == 0 {
		return nil
	}
	return r.st.tasks[r.tasks[((i%len(r.tasks))+len(r.tasks))%len(r.tasks)]]
}
func (r *c05Run) issue(kind, id int) {
	r.ids = append(r.ids, [2]int{kind, id})
	if r.sawReload {
		r.idsAfterReload = true
	}
}
func (r *c05Run) noticeKeys() map[noticeKey]bool {
	m := map[noticeKey]bool{}
	for k := range r.st.notices {
		m[k] = true
	}
	return m
}
func (r *c05Run) issueNewNotices(before map[noticeKey]bool) {
	var fresh []int
	for k, n := range r.st.notices {
		if !before[k] {
			fresh = append(fresh, c05ID(n.id))
		}
	}
	sort.Ints(fresh)
	for _, id := range fresh {
		r.issue(3, id)
	}
}

// the condition under which Task.changeStatus -> Change.taskStatusChanged -> detectChangeReady panics
// ("unexpectedly became unready"), evaluated without changing anything
func c05WouldPanic(t *Task, c *Change, newSt Status) bool {
	old := t.status
	if old == newSt || (newSt == DoneStatus && old == AbortStatus) || (newSt == WaitStatus && old == AbortStatus) {
		return false
	}
	if old.Ready() == newSt.Ready() || !c.IsReady() {
		return false
	}
	for _, tid := range c.taskIDs {
		if o := c.state.tasks[tid]; o != t && !o.status.Ready() {
			return false
		}
	}
	t.status = newSt
	cs := c.Status()
	t.status = old
	return !cs.Ready()
}

type c05Eff struct {
	readyZero bool
	occ       int
	chg       *Change
}

func (r *c05Run) effBefore(c *Change) c05Eff {
	e := c05Eff{chg: c}
	if c != nil {
		e.readyZero = c.readyTime.IsZero()
		if n := r.st.notices[noticeKey{false, 0, ChangeUpdateNotice, c.id}]; n != nil {
			e.occ = n.occurrences
		}
	}
	return e
}
func (r *c05Run) effAfter(e c05Eff) string {
	if e.chg == nil {
		return "(mkEff false 0 0)"
	}
	occ := 0
	if n := r.st.notices[noticeKey{false, 0, ChangeUpdateNotice, e.chg.id}]; n != nil {
		occ = n.occurrences
	}
	return "(mkEff " + vh.CoqBool(e.readyZero && !e.chg.readyTime.IsZero()) + " " + c05N(occ-e.occ) + " " + c05N(int(e.chg.lastRecordedNoticeStatus)) + ")"
}

func (r *c05Run) apply(o c05Op) {
	st := r.st
	restore := MockTime(r.at(o.N))
	defer restore()
	st.Lock()
	defer st.Unlock()
	emit := func(f string, a ...interface{}) { r.ops = append(r.ops, "("+fmt.Sprintf(f, a...)+")"); r.tags["op:"+o.K] = true }
	switch o.K {
	case "newchange":
		before := r.noticeKeys()
		c := st.NewChange(o.S, o.S2)
		r.chgs = append(r.chgs, c.ID())
		r.issue(0, c05ID(c.ID()))
		r.issueNewNotices(before)
		emit("ONewChange %s %s %s", c05B(o.S), c05B(o.S2), c05Z(o.N))
	case "newtask":
		t := st.NewTask(o.S, o.S2)
		r.tasks = append(r.tasks, t.ID())
		r.issue(1, c05ID(t.ID()))
		emit("ONewTask %s %s %s", c05B(o.S), c05B(o.S2), c05Z(o.N))
	case "newlane":
		l := st.NewLane()
		r.lanes = append(r.lanes, l)
		r.issue(2, l)
		emit("ONewLane")
	case "addtask":
		c, t := r.chg(o.A), r.task(o.B)
		if c == nil || t == nil || t.change != "" {
			return
		}
		c.AddTask(t)
		emit("OAddTask %s %s", c05N(c05ID(c.id)), c05N(c05ID(t.id)))
	case "waitfor":
		t, a := r.task(o.A), r.task(o.B)
		// both linked to the same change and an acyclic direction only (see notes/C05.md)
		if t == nil || a == nil || t.change == "" || t.change != a.change || c05ID(a.id) >= c05ID(t.id) {
			return
		}
		t.WaitFor(a)
		emit("OWaitFor %s %s", c05N(c05ID(t.id)), c05N(c05ID(a.id)))
	case "joinlane":
		t := r.task(o.A)
		if t == nil {
			return
		}
		lane := int(o.N2)
		if len(r.lanes) > 0 && o.B >= 0 {
			lane = r.lanes[o.B%len(r.lanes)]
		}
		t.JoinLane(lane)
		emit("OJoinLane %s %s", c05N(c05ID(t.id)), c05Z(int64(lane)))
	case "setdata", "deldata":
		var id int
		var set func(string, interface{})
		switch o.St {
		case 0:
			set = st.Set
		case 1:
			c := r.chg(o.A)
			if c == nil {
				return
			}
			id, set = c05ID(c.id), c.Set
		default:
			t := r.task(o.A)
			if t == nil {
				return
			}
			id, set = c05ID(t.id), t.Set
		}
		if o.K == "deldata" {
			set(o.S, nil)
			emit("ODelData %s %s %s", c05N(o.St), c05N(id), c05B(o.S))
			return
		}
		raw, err := json.Marshal(json.RawMessage(o.V))
		if err != nil {
			return
		}
		set(o.S, json.RawMessage(o.V))
		if string(raw) == "null" {
			r.tags["null-data"] = true
		}
		emit("OSetData %s %s %s %s", c05N(o.St), c05N(id), c05B(o.S), c05B(string(raw)))
	case "at":
		t := r.task(o.A)
		if t == nil {
			return
		}
		var when time.Time
		if o.T != nil {
			when = r.at(*o.T)
		}
		t.At(when)
		emit("OAt %s %s", c05N(c05ID(t.id)), c05Time(o.T))
	case "log":
		t := r.task(o.A)
		if t == nil {
			return
		}
		kind := LogInfo
		if o.St == 1 {
			kind = LogError
			t.Errorf("%s", o.S)
		} else {
			t.Logf("%s", o.S)
		}
		emit("OLog %s %s", c05N(c05ID(t.id)), c05B(kind+" "+o.S))
	case "progress":
		t := r.task(o.A)
		if t == nil {
			return
		}
		t.SetProgress(o.S, int(o.N2), o.St)
		emit("OProgress %s %s %s %s", c05N(c05ID(t.id)), c05B(o.S), c05Z(o.N2), c05Z(int64(o.St)))
	case "acctime":
		t := r.task(o.A)
		if t == nil {
			return
		}
		t.accumulateDoingTime(time.Duration(o.N2))
		t.accumulateUndoingTime(time.Duration(o.St))
		emit("OAccTime %s %s %s", c05N(c05ID(t.id)), c05Z(o.N2), c05Z(int64(o.St)))
	case "setstatus", "settowait":
		t := r.task(o.A)
		if t == nil {
			return
		}
		newSt := Status(o.St)
		if o.K == "settowait" {
			newSt = WaitStatus
		}
		c := t.Change()
		// a change whose ready channel is closed must not come out of this write with an unready status
		// (detectChangeReady panics: that is C03's subject, not C05's): skip exactly the writes that would panic
		if c != nil && c05WouldPanic(t, c, newSt) {
			return
		}
		before := r.noticeKeys()
		e := r.effBefore(c)
		if o.K == "settowait" {
			t.SetToWait(Status(o.St))
			r.issueNewNotices(before)
			emit("OSetToWait %s %s %s %s", c05N(c05ID(t.id)), c05N(o.St), c05Z(o.N), r.effAfter(e))
		} else {
			t.SetStatus(newSt)
			r.issueNewNotices(before)
			emit("OSetStatus %s %s %s %s", c05N(c05ID(t.id)), c05N(o.St), c05Z(o.N), r.effAfter(e))
		}
	case "chgsetstatus":
		c := r.chg(o.A)
		if c == nil {
			return
		}
		before := r.noticeKeys()
		e := r.effBefore(c)
		c.SetStatus(Status(o.St))
		r.issueNewNotices(before)
		emit("OChgSetStatus %s %s %s %s", c05N(c05ID(c.id)), c05N(o.St), c05Z(o.N), r.effAfter(e))
	case "addnotice":
		opts := &AddNoticeOptions{Data: o.Data, RepeatAfter: time.Duration(o.N2)}
		if o.T != nil {
			opts.Time = r.at(*o.T)
		}
		uidFlat, has := flattenUserID(o.Uid)
		_, existed := st.notices[noticeKey{has, uidFlat, NoticeType(o.S), o.S2}]
		id, err := st.AddNotice(o.Uid, NoticeType(o.S), o.S2, opts)
		if err == nil && !existed {
			r.issue(3, c05ID(id))
		}
		if err != nil {
			r.tags["notice-rejected"] = true
		}
		emit("OAddNotice %s %s %s %s %s %s %s", c05Uid(o.Uid), c05B(o.S), c05B(o.S2), c05KV(c05StrMap(o.Data)),
			c05Z(o.N2), c05Time(o.T), c05Z(o.N))
	case "addwarning":
		opts := &AddWarningOptions{RepeatAfter: time.Duration(o.N2)}
		if o.T != nil {
			opts.Time = r.at(*o.T)
		}
		st.AddWarning(o.S, opts)
		emit("OAddWarning %s %s %s %s", c05B(o.S), c05Z(o.N2), c05Time(o.T), c05Z(o.N))
	case "okaywarnings":
		st.OkayWarnings(r.at(o.N2))
		emit("OOkayWarnings %s", c05Z(o.N2))
	case "prune":
		before := r.p.state(st)
		// abortWait so large that nothing is ever aborted here (aborting is C09/C03's subject)
		st.Prune(time.Time{}, time.Duration(o.N2), 100*365*24*time.Hour, o.St)
		after := r.p.state(st)
		var rc, rt, rn []int
		var rw []string
		ac, at2, an, aw := map[int]bool{}, map[int]bool{}, map[int]bool{}, map[string]bool{}
		for _, c := range after.Changes {
			ac[c.ID] = true
		}
		for _, t := range after.Tasks {
			at2[t.ID] = true
		}
		for _, n := range after.Notices {
			an[n.ID] = true
		}
		for _, w := range after.Warnings {
			aw[w.Msg] = true
		}
		for _, c := range before.Changes {
			if !ac[c.ID] {
				rc = append(rc, c.ID)
			}
		}
		for _, t := range before.Tasks {
			if !at2[t.ID] {
				rt = append(rt, t.ID)
			}
		}
		for _, n := range before.Notices {
			if !an[n.ID] {
				rn = append(rn, n.ID)
			}
		}
		for _, w := range before.Warnings {
			if !aw[w.Msg] {
				rw = append(rw, w.Msg)
			}
		}
		if len(rc)+len(rt)+len(rn)+len(rw) > 0 {
			r.tags["prune-removed"] = true
		}
		emit("OPrune %s %s %s %s", c05Ns(rc), c05Ns(rt), c05Ns(rn), c05Strs(rw))
	}
}

func (r *c05Run) reload() {
	st := r.st
	st.Lock()
	before := r.p.state(st)
	st.Cache("verif-c05-cache-key", "verif-c05-cache-value") // runtime-only by design: must not be saved
	st.modified = true // make the Unlock below checkpoint through the real path even if the last operations were read-only
	st.Unlock()
	st2, err := ReadState(r.be, bytes.NewReader(r.be.last))
	if err != nil {
		panic(fmt.Sprintf("ReadState failed: %v\n%s", err, r.be.last))
	}
	after := r.p.state(st2)
	st2.Lock()
	cached := st2.Cached("verif-c05-cache-key")
	st2.unlock()
	r.cacheGone = append(r.cacheGone, cached == nil && !bytes.Contains(r.be.last, []byte("verif-c05-cache")))
	r.reloads = append(r.reloads, [2]c05State{before, after})
	r.st = st2
	r.sawReload = true
	r.ops = append(r.ops, "(OReload 0 0)")
	for _, n := range before.Notices {
		if n.LastOcc+n.Expire < 0 {
			r.tags["expired-notice-dropped"] = true
		}
	}
	for _, w := range before.Warnings {
		if w.LastAdded+w.Expire < 0 {
			r.tags["expired-warning-dropped"] = true
		}
	}
	for _, t := range before.Tasks {
		if t.Waited == 0 {
			r.tags["waited-default"] = true
		}
	}
}

func c05Exec(in c05In) vh.Out {
	r := &c05Run{p: c05Proj{base: time.Now().Round(0)}, be: &c05Backend{}, tags: map[string]bool{}}
	r.st = New(r.be)
	for _, o := range in.Ops {
		if o.K == "reload" {
			r.reload()
		} else {
			r.apply(o)
		}
	}
	final := r.p.state(r.st)
	idItems := make([]string, len(r.ids))
	for i, p := range r.ids {
		idItems[i] = "(" + c05N(p[0]) + ", " + c05N(p[1]) + ")"
	}
	rlItems := make([]string, len(r.reloads))
	var diffs [][]string
	for i, p := range r.reloads {
		rlItems[i] = "(" + p[0].coq() + ", " + p[1].coq() + ")"
		diffs = append(diffs, c05Diff(p[0], p[1]))
	}
	cg := make([]string, len(r.cacheGone))
	for i, b := range r.cacheGone {
		cg[i] = vh.CoqBool(b)
	}
	coq := "(Case " + vh.CoqList(r.ops) + " " + vh.CoqList(idItems) + " " + vh.CoqList(rlItems) + " " + final.coq() + " " + vh.CoqList(cg) + ")"
	var tags []string
	for t := range r.tags {
		tags = append(tags, t)
	}
	if len(r.reloads) > 0 {
		tags = append(tags, "reload")
	}
	if r.idsAfterReload {
		tags = append(tags, "ids-after-reload")
	}
	sort.Strings(tags)
	// the other clauses of the monitor, evaluated here too so that classify can insist that the null-data entry is the ONLY
	// thing wrong with a case it maps to the recorded finding
	otherWrong := false
	lastID := map[int]int{}
	for _, p := range r.ids {
		if p[1] <= lastID[p[0]] {
			otherWrong = true
		}
		lastID[p[0]] = p[1]
	}
	uniq := func(s c05State) bool {
		seen := map[string]bool{}
		for _, n := range s.Notices {
			k := fmt.Sprint(n.Uid != nil, n.Uid != nil && *n.Uid > 0, n.Type, "\x00", n.Key)
			if n.Uid != nil {
				k += fmt.Sprint("\x00", *n.Uid)
			}
			if seen[k] {
				return false
			}
			seen[k] = true
		}
		return true
	}
	if !uniq(final) {
		otherWrong = true
	}
	for _, p := range r.reloads {
		if !uniq(p[0]) || !uniq(p[1]) {
			otherWrong = true
		}
	}
	for _, b := range r.cacheGone {
		if !b {
			otherWrong = true
		}
	}
	obs := map[string]interface{}{"ids": r.ids, "reload_diffs": diffs, "other_clause_fails": otherWrong, "cache_gone": r.cacheGone, "final": final, "reloads": len(r.reloads)}
	return vh.Out{Observed: obs, Coq: coq, NonTrivial: r.idsAfterReload && len(final.Tasks)+len(final.Changes) > 0, Tags: tags}
}

// ---------------------------------------------------------------- generation
const c05Hour = int64(time.Hour)

func c05Off(r *vh.Rand, prev int64) int64 {
	switch r.Intn(12) {
	case 0:
		return prev // same clock reading again (AddNotice must still produce a later time stamp)
	case 1:
		return prev - int64(r.Intn(1000)) // clock going backwards a little
	case 2, 3:
		return -int64(r.Range(8*24, 20*24))*c05Hour + int64(r.Intn(1000)) // notices expired, warnings not
	case 4:
		return -int64(r.Range(29*24, 60*24))*c05Hour + int64(r.Intn(1000)) // everything expired
	}
	return int64(r.Range(-20, 20))*c05Hour + int64(r.Intn(1000))
}

var c05Strings = []string{"i", "r", "a", "b c", "<&", "é", "q\\", "rm", "k", "kind", "s-s"}
var c05Values = []string{`1`, `"v"`, `{"a":[1,{"b":null}]}`, `[ 1, 2 ]`, `true`, `"<&"`, `-3.5e2`, `{}`, `""`}
var c05NoticeTypes = []string{"change-update", "warning", "refresh-inhibit", "snap-run-inhibit", "interfaces-requests-prompt",
	"interfaces-requests-rule-update", "bogus"}

func c05GenCase(r *vh.Rand, nulls bool) c05In {
	var ops []c05Op
	prev := int64(0)
	off := func() int64 { prev = c05Off(r, prev); return prev }
	optOff := func() *int64 {
		if r.Chance(2, 3) {
			return nil
		}
		o := c05Off(r, prev)
		return &o
	}
	n := r.Range(8, 32)
	var notices []c05Op
	// a start that creates something to work on
	ops = append(ops, c05Op{K: "newchange", S: r.Pick(c05Strings), S2: r.Pick(c05Strings), N: off()})
	for i := 0; i < r.Range(1, 4); i++ {
		ops = append(ops, c05Op{K: "newtask", S: r.Pick(c05Strings), S2: r.Pick(c05Strings), N: off()})
		ops = append(ops, c05Op{K: "addtask", A: 0, B: i})
	}
	for len(ops) < n {
		a, b := r.Intn(16), r.Intn(16)
		switch r.Intn(30) {
		case 0, 1:
			ops = append(ops, c05Op{K: "newchange", S: r.Pick(c05Strings), S2: r.Pick(c05Strings), N: off()})
		case 2, 3, 4:
			ops = append(ops, c05Op{K: "newtask", S: r.Pick(c05Strings), S2: r.Pick(c05Strings), N: off()})
			if r.Chance(3, 4) {
				ops = append(ops, c05Op{K: "addtask", A: a, B: -1})
			}
		case 5:
			ops = append(ops, c05Op{K: "newlane"})
		case 6:
			ops = append(ops, c05Op{K: "addtask", A: a, B: b})
		case 7, 8:
			ops = append(ops, c05Op{K: "waitfor", A: a, B: b})
		case 9:
			o := c05Op{K: "joinlane", A: a, B: b, N2: int64(r.Range(-1, 5))}
			if r.Chance(1, 4) {
				o.B = -1
			}
			ops = append(ops, o)
		case 10, 11:
			v := r.Pick(c05Values)
			if nulls && r.Chance(1, 3) {
				v = "null"
			}
			ops = append(ops, c05Op{K: "setdata", St: r.Intn(3), A: a, S: r.Pick(c05Strings), V: v})
		case 12:
			ops = append(ops, c05Op{K: "deldata", St: r.Intn(3), A: a, S: r.Pick(c05Strings)})
		case 13:
			ops = append(ops, c05Op{K: "at", A: a, T: optOff(), N: off()})
		case 14:
			ops = append(ops, c05Op{K: "log", A: a, S: r.Pick(c05Strings) + r.Str("ab ", 0, 2), St: r.Intn(2), N: off()})
			if r.Chance(1, 6) { // overflow the 10-entry cap
				for j := 0; j < 11; j++ {
					ops = append(ops, c05Op{K: "log", A: a, S: "m" + strconv.Itoa(j), N: prev})
				}
			}
		case 15:
			ops = append(ops, c05Op{K: "progress", A: a, S: r.Pick(c05Strings), N2: int64(r.Range(-1, 5)), St: r.Range(-1, 4)})
		case 16:
			ops = append(ops, c05Op{K: "acctime", A: a, N2: int64(r.Intn(5000)), St: r.Intn(3000)})
		case 17, 18, 19, 20:
			st := []int{1, 2, 3, 4, 5, 6, 7, 8, 9, 0}[r.Intn(10)]
			ops = append(ops, c05Op{K: "setstatus", A: a, St: st, N: off()})
		case 21:
			ops = append(ops, c05Op{K: "settowait", A: a, St: []int{4, 8, 3, 2, 9}[r.Intn(5)], N: off()})
		case 22:
			ops = append(ops, c05Op{K: "chgsetstatus", A: a, St: r.Intn(10), N: off()})
		case 23, 24, 29:
			o := c05Op{K: "addnotice", S: r.Pick(c05NoticeTypes), S2: r.Pick([]string{"1", "2", "3", "-", "key", "x y", ""}),
				N2: []int64{0, 0, c05Hour / 2, 2 * c05Hour, 48 * c05Hour}[r.Intn(5)], T: optOff(), N: off()}
			if o.S == "refresh-inhibit" && r.Chance(3, 4) {
				o.S2 = "-"
			}
			if r.Chance(1, 2) {
				u := uint32(r.Intn(3) * 1000)
				o.Uid = &u
			}
			// most notices come from a small pool of (user, type, key) so that the same notice recurs - also across reloads -
			// and so that the public and the uid-0 (and uid-1000) notice of one (type, key) exist side by side
			if r.Chance(3, 4) {
				o.S = []string{"warning", "change-update", "snap-run-inhibit"}[r.Intn(3)]
				o.S2 = []string{"1", "2"}[r.Intn(2)]
				o.Uid = nil
				if k := r.Intn(3); k > 0 {
					u := uint32((k - 1) * 1000)
					o.Uid = &u
				}
				o.N = int64(r.Range(-5, 5))*c05Hour + int64(r.Intn(1000)) // recent: still there after a reload
				prev = o.N
				if r.Chance(3, 4) {
					o.T = nil
				}
			}
			notices = append(notices, o)
			if r.Chance(1, 2) {
				o.Data = map[string]string{r.Pick(c05Strings): r.Pick(c05Strings)}
				if r.Chance(1, 3) {
					o.Data = map[string]string{}
				}
			}
			ops = append(ops, o)
		case 25:
			ops = append(ops, c05Op{K: "addwarning", S: r.Pick(c05Strings), N2: []int64{0, c05Hour, 24 * c05Hour}[r.Intn(3)], T: optOff(), N: off()})
		case 26:
			ops = append(ops, c05Op{K: "okaywarnings", N2: c05Off(r, prev)})
		case 27:
			ops = append(ops, c05Op{K: "prune", N2: int64(r.Intn(40*24))*c05Hour + c05Hour/2, St: r.Intn(4)})
		case 28:
			ops = append(ops, c05Op{K: "reload"})
		default:
			ops = append(ops, c05Op{K: "setstatus", A: a, St: []int{4, 4, 8, 9, 1, 3}[r.Intn(6)], N: off()})
		}
	}
	if r.Chance(2, 3) {
		ops = append(ops, c05Op{K: "reload"}, c05Op{K: "newchange", S: "z", S2: "y", N: off()},
			c05Op{K: "newtask", S: "z", S2: "y", N: off()}, c05Op{K: "newlane"},
			c05Op{K: "addnotice", S: "warning", S2: "f" + strconv.Itoa(r.Intn(100)), N: off()})
		// the notices recorded before the reload occur again after it (same user, type and key): they must bump the existing
		// notice, not create a second one; and the same (type, key) for the other kinds of user
		for i := 0; i < len(notices) && i < 3; i++ {
			o := notices[r.Intn(len(notices))]
			o.N, o.T, o.N2 = int64(r.Range(6, 9))*c05Hour+int64(r.Intn(1000)), nil, 0
			ops = append(ops, o)
			if r.Chance(1, 2) {
				o2 := o
				o2.Uid = nil
				if o.Uid == nil {
					u := uint32(0)
					o2.Uid = &u
				}
				o2.N = o.N + 5
				ops = append(ops, o2)
			}
		}
	}
	return c05In{Ops: ops}
}

func c05Gen(r *vh.Rand, tier string, n int) []c05In {
	if n == 0 {
		n = 200
	}
	var ins []c05In
	// the recorded finding (KNOWN_FINDINGS data-json-null): a data value whose JSON is null is visible before and gone after
	ins = append(ins, c05In{Ops: []c05Op{{K: "setdata", St: 0, S: "k", V: "null"}, {K: "reload"}}})
	for i := 0; i < n; i++ {
		ins = append(ins, c05GenCase(r.Fork(), i%25 == 7))
	}
	return ins
}

func TestVerifC05Persist(t *testing.T) { vh.Run(c05Gen, c05Exec) }
