//go:build verif

// Driver for C09 (State.Prune removes only finished changes, with all their tasks; aborts only old unready ones).
// In-package: builds a State through the real API with the clock mocked per object, projects what Prune reads, runs the
// real State.Prune and projects what is left. Prints V.models.Prune.case terms.
package state

import (
	"fmt"
	"sort"
	"strconv"
	"strings"
	"testing"
	"time"

	"github.com/snapcore/snapd/zzverif/vh"
)

type c09Task struct {
	Status int   `json:"st"`
	Spawn  int64 `json:"spawn"`
}
type c09Chg struct {
	Spawn   int64     `json:"spawn"`
	ReadyAt int64     `json:"ready_at"`
	Tasks   []c09Task `json:"tasks"`
	Attrs   []int     `json:"attrs,omitempty"`
}
type c09In struct {
	Changes   []c09Chg      `json:"changes"`
	Unlinked  []c09Task     `json:"unlinked,omitempty"`
	Warnings  []int64       `json:"warnings,omitempty"` // last-added offsets
	Notices   []int64       `json:"notices,omitempty"`  // last-occurred offsets
	PruneWait int64         `json:"prune_wait"`
	AbortWait int64         `json:"abort_wait"`
	MaxReady  int           `json:"max_ready"`
	Start     *int64        `json:"start,omitempty"`
	Pending   map[int][]int `json:"pending,omitempty"` // attr -> indexes (1-based change ids) for which the predicate says "pending"
	Mock      int64         `json:"mock"`
}

func c09N(n int) string { return vh.CoqN(uint64(n)) }
func c09Z(v int64) string {
	if v > -1000000 && v < 1000000 {
		return vh.CoqZ(v)
	}
	const unit = int64(time.Minute)
	m := v / unit
	ns := v - m*unit
	if ns < 0 {
		m--
		ns += unit
	}
	return "(tm " + vh.CoqZ(m) + " " + vh.CoqZ(ns) + ")"
}
func c09Ns(l []int) string {
	it := make([]string, len(l))
	for i, x := range l {
		it[i] = c09N(x)
	}
	return vh.CoqList(it)
}

// the walk of abortTasks over the tasks of a default-lane change with ready detection after every write, as the code was
// before d3068df: would it have panicked? (only used to tag the cases that exercise the repaired shape)
func c09AbortPanics(sts []int) bool {
	ready := func(s int) bool { return s == 4 || s == 8 || s == 1 || s == 9 }
	cur := append([]int{}, sts...)
	marked := false
	for i, s := range cur {
		n := s
		switch s {
		case 2:
			n = 1
		case 3:
			n = 5
		case 4:
			n = 6
		}
		if n == s || ready(s) == ready(n) {
			cur[i] = n
			continue
		}
		cur[i] = n
		all := true
		for j, o := range cur {
			if j != i && !ready(o) {
				all = false
			}
		}
		if all {
			if marked && !ready(n) {
				return true
			}
			marked = true
		}
	}
	return false
}

func c09Exec(in c09In) vh.Out {
	base := time.Now().Round(0)
	at := func(off int64) time.Time { return base.Add(time.Duration(off)) }
	off := func(t time.Time) int64 { return int64(t.Sub(base)) }
	st := New(nil)
	st.Lock()
	var chgs []*Change
	for _, ci := range in.Changes {
		r := MockTime(at(ci.Spawn))
		c := st.NewChange("k", "s")
		r()
		for _, a := range ci.Attrs {
			c.Set("attr"+strconv.Itoa(a), true)
		}
		var ts []*Task
		for _, ti := range ci.Tasks {
			r := MockTime(at(ti.Spawn))
			t := st.NewTask("k", "s")
			r()
			c.AddTask(t)
			ts = append(ts, t)
		}
		r = MockTime(at(ci.ReadyAt))
		for i, ti := range ci.Tasks {
			if ti.Status != 2 {
				ts[i].SetStatus(Status(ti.Status))
			}
		}
		r()
		chgs = append(chgs, c)
	}
	for _, ti := range in.Unlinked {
		r := MockTime(at(ti.Spawn))
		st.NewTask("k", "s")
		r()
	}
	for i, w := range in.Warnings {
		st.AddWarning("w"+strconv.Itoa(i+1), &AddWarningOptions{Time: at(w)})
	}
	for i, n := range in.Notices {
		st.AddNotice(nil, WarningNotice, "n"+strconv.Itoa(i+1), &AddNoticeOptions{Time: at(n)})
	}
	attrs := map[int]bool{}
	for a, ids := range in.Pending {
		a, set := a, map[string]bool{}
		for _, id := range ids {
			set[strconv.Itoa(id)] = true
		}
		attrs[a] = true
		st.RegisterPendingChangeByAttr("attr"+strconv.Itoa(a), func(c *Change) bool { return set[c.ID()] })
	}

	// ---- projection of what Prune reads
	id := func(s string) int { n, _ := strconv.Atoi(s); return n }
	var chItems, tkItems, wItems, nItems []string
	tags := map[string]bool{}
	panicShape := false
	var cids []int
	for cid := range st.changes {
		cids = append(cids, id(cid))
	}
	sort.Ints(cids)
	for _, cid := range cids {
		c := st.changes[strconv.Itoa(cid)]
		ready := "None"
		if !c.readyTime.IsZero() {
			ready = "(Some " + c09Z(off(c.readyTime)) + ")"
		}
		var tids, as, sts []int
		for _, tid := range c.taskIDs {
			tids = append(tids, id(tid))
			sts = append(sts, int(st.tasks[tid].Status()))
		}
		for a := 0; a < 4; a++ {
			if c.Has("attr" + strconv.Itoa(a)) {
				as = append(as, a)
			}
		}
		if c.readyTime.IsZero() && c09AbortPanics(sts) {
			panicShape = true
		}
		chItems = append(chItems, fmt.Sprintf("(mkPC %s %s %s %s %s)", c09N(cid), c09Z(off(c.spawnTime)), ready, c09Ns(tids), c09Ns(as)))
	}
	var tids []int
	for tid := range st.tasks {
		tids = append(tids, id(tid))
	}
	sort.Ints(tids)
	for _, tid := range tids {
		t := st.tasks[strconv.Itoa(tid)]
		tkItems = append(tkItems, fmt.Sprintf("(mkPT %s %s %s %s)", c09N(tid), c09N(int(t.Status())), c09Z(off(t.spawnTime)), c09N(id(t.change))))
	}
	var wids []int
	for m := range st.warnings {
		wids = append(wids, id(strings.TrimPrefix(m, "w")))
	}
	sort.Ints(wids)
	for _, w := range wids {
		x := st.warnings["w"+strconv.Itoa(w)]
		wItems = append(wItems, fmt.Sprintf("(mkExp %s %s %s)", c09N(w), c09Z(off(x.lastAdded)), c09Z(int64(x.expireAfter))))
	}
	var nids []int
	nbyid := map[int]*Notice{}
	for _, n := range st.notices {
		nids = append(nids, id(n.id))
		nbyid[id(n.id)] = n
	}
	sort.Ints(nids)
	for _, n := range nids {
		x := nbyid[n]
		nItems = append(nItems, fmt.Sprintf("(mkExp %s %s %s)", c09N(n), c09Z(off(x.lastOccurred)), c09Z(int64(x.expireAfter))))
	}
	var pend []string
	var pas []int
	for a := range in.Pending {
		pas = append(pas, a)
	}
	sort.Ints(pas)
	for _, a := range pas {
		pend = append(pend, "("+c09N(a)+", "+c09Ns(in.Pending[a])+")")
	}
	start := "None"
	var startT time.Time
	if in.Start != nil {
		start = "(Some " + c09Z(*in.Start) + ")"
		startT = at(*in.Start)
	}
	params := fmt.Sprintf("(mkParams 0 %s %s %s %s %s %s)", c09Z(in.Mock), start, c09Z(in.PruneWait), c09Z(in.AbortWait),
		c09Z(int64(in.MaxReady)), vh.CoqList(pend))
	before := "(mkPS " + vh.CoqList(chItems) + " " + vh.CoqList(tkItems) + " " + vh.CoqList(wItems) + " " + vh.CoqList(nItems) + ")"
	nChBefore, nTkBefore, nWBefore, nNBefore := len(st.changes), len(st.tasks), len(st.warnings), len(st.notices)
	statusBefore := map[string]Status{}
	for tid, t := range st.tasks {
		statusBefore[tid] = t.Status()
	}

	// ---- the real Prune
	panicked := false
	func() {
		restore := MockTime(at(in.Mock))
		defer restore()
		defer func() {
			if r := recover(); r != nil {
				panicked = true
			}
		}()
		st.Prune(startT, time.Duration(in.PruneWait), time.Duration(in.AbortWait), in.MaxReady)
	}()

	// ---- projection of what is left
	var ochs, otks []string
	var ows, ons []int
	cids = nil
	for cid := range st.changes {
		cids = append(cids, id(cid))
	}
	sort.Ints(cids)
	for _, cid := range cids {
		c := st.changes[strconv.Itoa(cid)]
		ochs = append(ochs, "("+c09N(cid)+", "+vh.CoqBool(!c.readyTime.IsZero())+")")
	}
	tids = nil
	for tid := range st.tasks {
		tids = append(tids, id(tid))
	}
	sort.Ints(tids)
	aborted := false
	for _, tid := range tids {
		t := st.tasks[strconv.Itoa(tid)]
		otks = append(otks, "("+c09N(tid)+", "+c09N(int(t.Status()))+")")
		if statusBefore[strconv.Itoa(tid)] != t.Status() {
			aborted = true
		}
	}
	for m := range st.warnings {
		ows = append(ows, id(strings.TrimPrefix(m, "w")))
	}
	sort.Ints(ows)
	for _, n := range st.notices {
		// a change-update notice recorded by the abort itself is new (fresh id): not what Prune had to keep or drop
		if _, was := nbyid[id(n.id)]; was {
			ons = append(ons, id(n.id))
		}
	}
	sort.Ints(ons)
	st.unlock()

	if len(st.changes) < nChBefore {
		tags["change-removed"] = true
	}
	if len(st.tasks) < nTkBefore {
		tags["task-removed"] = true
	}
	if len(st.warnings) < nWBefore || len(st.notices) < nNBefore {
		tags["expired-removed"] = true
	}
	if aborted {
		tags["aborted"] = true
	}
	if panicked {
		tags["panicked"] = true
	}
	if panicShape && aborted {
		tags["aborted-transient-ready-shape"] = true
	}
	if len(in.Pending) > 0 {
		tags["pending-predicates"] = true
	}
	if in.Start != nil {
		tags["start-of-operation"] = true
	}
	readyLeft := 0
	for _, c := range st.changes {
		if !c.readyTime.IsZero() {
			readyLeft++
		}
	}
	if readyLeft == in.MaxReady && len(st.changes) < nChBefore {
		tags["count-limit-hit"] = true
	}
	coq := "(Case " + params + " " + before + " " + vh.CoqList(ochs) + " " + vh.CoqList(otks) + " " + c09Ns(ows) + " " + c09Ns(ons) + " " + vh.CoqBool(panicked) + ")"
	var tl []string
	for t := range tags {
		tl = append(tl, t)
	}
	sort.Strings(tl)
	obs := map[string]interface{}{"changes_left": cids, "tasks_left": tids, "warnings_left": ows, "notices_left": ons,
		"panicked": panicked, "aborted": aborted}
	return vh.Out{Observed: obs, Coq: coq, NonTrivial: len(st.changes) < nChBefore || aborted, Tags: tl}
}

// ---------------------------------------------------------------- generation
const c09Hour = int64(time.Hour)

// an hour offset in the past, never on an expiry boundary (7 and 28 days), plus a unique small nanosecond part
func c09Past(r *vh.Rand, lo, hi int, uniq *int64) int64 {
	h := r.Range(lo, hi)
	if h == 168 || h == 672 {
		h++
	}
	*uniq += 7
	return -int64(h)*c09Hour + *uniq
}

func c09GenCase(r *vh.Rand) c09In {
	var uniq int64
	in := c09In{MaxReady: r.Intn(5), Mock: int64(r.Intn(1000))}
	in.PruneWait = int64(r.Range(1, 300))*c09Hour + c09Hour/2
	in.AbortWait = int64(r.Range(1, 400))*c09Hour + c09Hour/2
	if r.Chance(1, 3) {
		s := -int64(r.Range(1, 300)) * c09Hour
		in.Start = &s
	}
	n := r.Range(1, 7)
	for i := 0; i < n; i++ {
		c := c09Chg{Spawn: c09Past(r, 1, 500, &uniq)}
		c.ReadyAt = c.Spawn + int64(r.Range(0, 50))*c09Hour
		if c.ReadyAt > -c09Hour {
			c.ReadyAt = -c09Hour + uniq
		}
		// never on an expiry boundary (the change-update notices are recorded at this instant)
		if h := (-c.ReadyAt + c09Hour/2) / c09Hour; h == 168 || h == 672 {
			c.ReadyAt += c09Hour
		}
		nt := r.Intn(5)
		ready := r.Chance(3, 5)
		for j := 0; j < nt; j++ {
			stt := []int{4, 4, 8, 9, 1}[r.Intn(5)]
			if !ready {
				stt = []int{2, 2, 3, 4, 4, 6, 7, 5, 9, 1}[r.Intn(10)]
			}
			c.Tasks = append(c.Tasks, c09Task{Status: stt, Spawn: c.Spawn + int64(j)})
		}
		if !ready && nt > 0 {
			// make sure it is unready
			allReady := true
			var sts []int
			for _, t := range c.Tasks {
				sts = append(sts, t.Status)
				if !(t.Status == 4 || t.Status == 8 || t.Status == 1 || t.Status == 9) {
					allReady = false
				}
			}
			if allReady {
				c.Tasks[len(c.Tasks)-1].Status = 2
				sts[len(sts)-1] = 2
			}
		}
		for a := 0; a < 3; a++ {
			if r.Chance(1, 4) {
				c.Attrs = append(c.Attrs, a)
			}
		}
		in.Changes = append(in.Changes, c)
	}
	for i := r.Intn(3); i > 0; i-- {
		in.Unlinked = append(in.Unlinked, c09Task{Status: 2, Spawn: c09Past(r, 1, 500, &uniq)})
	}
	for i := r.Intn(3); i > 0; i-- {
		in.Warnings = append(in.Warnings, c09Past(r, 1, 900, &uniq))
	}
	for i := r.Intn(3); i > 0; i-- {
		in.Notices = append(in.Notices, c09Past(r, 1, 400, &uniq))
	}
	if r.Chance(1, 2) {
		in.Pending = map[int][]int{}
		for a := 0; a < 3; a++ {
			if r.Chance(1, 2) {
				var ids []int
				for i := 1; i <= n; i++ {
					if r.Chance(1, 2) {
						ids = append(ids, i)
					}
				}
				in.Pending[a] = ids
			}
		}
	}
	return in
}

func c09Gen(r *vh.Rand, tier string, n int) []c09In {
	if n == 0 {
		n = 120
	}
	// regression case for DESIGN finding 11 reached through Prune (repaired in /repo by d3068df): tasks [Do, Done, Done] of an
	// unready change older than abortWait; Prune must complete
	ins := []c09In{{Changes: []c09Chg{{Spawn: -100 * c09Hour, ReadyAt: -99 * c09Hour, Tasks: []c09Task{{2, -100 * c09Hour}, {4, -100 * c09Hour}, {4, -100 * c09Hour}}}},
		PruneWait: 200*c09Hour + c09Hour/2, AbortWait: 50*c09Hour + c09Hour/2, MaxReady: 5}}
	for i := 0; i < n; i++ {
		ins = append(ins, c09GenCase(r.Fork()))
	}
	return ins
}

func TestVerifC09Prune(t *testing.T) { vh.Run(c09Gen, c09Exec) }
