//go:build verif

// Driver shared by C01, C02 and C03: runs the real TaskRunner / Change / Task code of overlord/state on generated
// task graphs and histories and prints every history as a Coq term of type V.models.TaskEngine.case.
//
// The driver decides when and how each handler returns (handlers block on a channel), so the completion order is
// deterministic. There is no sleep-and-hope: after every Ensure the driver reads r.tombs under r.mu and waits (with a
// hard timeout) until exactly the newly started handlers have announced themselves; a completion is acknowledged by
// observing under r.mu that the tomb is gone (the goroutine tail of TaskRunner.run deletes it and rewrites the
// statuses in one r.mu critical section).
package state

import (
	"errors"
	"fmt"
	"os"
	"sort"
	"strconv"
	"strings"
	"testing"
	"time"

	"gopkg.in/tomb.v2"

	"github.com/snapcore/snapd/zzverif/vh"
)

type c01Task struct {
	Lanes []int `json:"lanes"`
	Waits []int `json:"waits"` // ascending task indexes
	Undo  bool  `json:"undo"`
}

type c01Ev struct {
	K string `json:"k"`           // ensure | finish | abort | tick | resolve
	T int    `json:"t,omitempty"` // task index
	O string `json:"o,omitempty"` // ok | err | retry | logretry | wait | waitu
	D int64  `json:"d,omitempty"` // seconds (retry after / tick)
}

type c01In struct {
	Tasks  []c01Task `json:"tasks"`
	Seed   uint64    `json:"seed"`             // schedule seed (dynamic mode)
	Steps  int       `json:"steps"`            // random steps before draining
	Script []c01Ev   `json:"script,omitempty"` // explicit events (events that are not enabled are skipped)
	Mode   string    `json:"mode,omitempty"`   // "" | "f11" (stop after the first user abort)
	AbortP int       `json:"abortp,omitempty"` // per-mille chance of a user abort per step
	FailDo []int     `json:"faildo,omitempty"` // tasks whose do handler fails (dynamic mode; default: chosen from Seed)
	WaitP  int       `json:"waitp,omitempty"`  // percent chance that a handler answers Wait (typed: do -> Done, undo -> Undone); default 5
	Drain  bool      `json:"drain,omitempty"`  // after Script: drain the change (random orders from Seed)
}

type c01Start struct {
	t    int
	undo bool
	pre  []Status
	ch   chan error
}

type c01Obs struct {
	St     []string `json:"st"`
	Wd     []string `json:"wd"` // Task.WaitedStatus (never set: Hold)
	Run    []int    `json:"run"`
	Dying  []int    `json:"dying"` // tombs that have been killed
	Ready  bool     `json:"ready"`
	Cst    string   `json:"cst"`
	Rt     bool     `json:"rt"`
	Err    []int    `json:"err"`
	Failed []int    `json:"failed"`
	Panic  bool     `json:"panic"`
	Starts []string `json:"starts"`
	HookOK bool     `json:"hook_ok"`
}

type c01Step struct {
	Ev  c01Ev  `json:"ev"`
	Obs c01Obs `json:"obs"`
}

const c01Timeout = 20 * time.Second

// c01LogRetry tells the handler to log an ERROR line on its task (Task.Errorf) and then answer Retry
type c01LogRetry struct{ msg string }

func (e *c01LogRetry) Error() string { return e.msg }

func c01Fatal(format string, a ...interface{}) {
	fmt.Fprintf(os.Stderr, "c01 driver: "+format+"\n", a...)
	os.Exit(3)
}

type c01Run struct {
	st       *State
	r        *TaskRunner
	chg      *Change
	tasks    []*Task
	in       c01In
	idx      map[string]int
	halts    [][]int
	announce chan c01Start
	release  map[int]chan error
	cur      int64 // seconds since base
	hookOK   bool
	fresh    map[int]bool // tasks whose Do->Doing / Undo->Undoing write was seen by the hook during this event
	failMsg  map[int]string
	logged   map[int][]string // ERROR lines a handler logged itself (t.Errorf) before answering Retry
	retryAt  map[int]int64    // earliest allowed restart (driver bookkeeping, independent of Task.atTime)
	steps    []c01Step
	panicked bool
	undoSeen bool
	preSeen  bool
}

var c01Base = time.Date(2024, 8, 9, 12, 0, 0, 0, time.UTC)

func (h *c01Run) handler(undo bool) HandlerFunc {
	return func(t *Task, _ *tomb.Tomb) error {
		i := h.idx[t.ID()]
		h.st.Lock()
		var pre []Status
		if undo {
			for _, j := range h.halts[i] {
				pre = append(pre, h.tasks[j].Status())
			}
		} else {
			for _, j := range h.in.Tasks[i].Waits {
				pre = append(pre, h.tasks[j].Status())
			}
		}
		h.st.Unlock()
		ch := make(chan error, 1)
		h.announce <- c01Start{i, undo, pre, ch}
		select {
		case err := <-ch:
			if lr, ok := err.(*c01LogRetry); ok {
				h.st.Lock()
				t.Errorf("%s", lr.msg)
				h.st.Unlock()
				return &Retry{}
			}
			return err
		case <-time.After(10 * c01Timeout):
			c01Fatal("handler of task %d was never released", i)
		}
		return nil
	}
}

func c01New(in c01In) *c01Run {
	h := &c01Run{in: in, idx: map[string]int{}, announce: make(chan c01Start, 64), release: map[int]chan error{},
		hookOK: true, fresh: map[int]bool{}, failMsg: map[int]string{}, logged: map[int][]string{}, retryAt: map[int]int64{}}
	h.st = New(nil)
	h.r = NewTaskRunner(h.st)
	h.r.AddHandler("u", h.handler(false), h.handler(true))
	h.r.AddHandler("n", h.handler(false), nil)
	n := len(in.Tasks)
	h.halts = make([][]int, n)
	h.st.Lock()
	defer h.st.Unlock()
	h.chg = h.st.NewChange("verif", "generated change")
	for i, td := range in.Tasks {
		kind := "n"
		if td.Undo {
			kind = "u"
		}
		t := h.st.NewTask(kind, "t"+strconv.Itoa(i))
		for _, l := range td.Lanes {
			t.JoinLane(l)
		}
		h.tasks = append(h.tasks, t)
		h.idx[t.ID()] = i
	}
	for i, td := range in.Tasks {
		for _, w := range td.Waits {
			h.tasks[i].WaitFor(h.tasks[w])
			h.halts[w] = append(h.halts[w], i)
		}
	}
	for _, t := range h.tasks {
		h.chg.AddTask(t)
	}
	// exact-instant check, called under the state lock at the status write that starts a handler
	h.st.AddTaskStatusChangedHandler(func(t *Task, old, new Status) {
		i, ok := h.idx[t.ID()]
		if !ok {
			return
		}
		if (old == DoStatus || old == DefaultStatus) && new == DoingStatus {
			h.fresh[i] = true
			for _, j := range h.in.Tasks[i].Waits {
				if h.tasks[j].Status() != DoneStatus {
					h.hookOK = false
				}
			}
		}
		if old == UndoStatus && new == UndoingStatus {
			h.fresh[i] = true
			for _, j := range h.halts[i] {
				switch h.tasks[j].Status() {
				case DoneStatus, UndoneStatus, HoldStatus, ErrorStatus:
				default:
					h.hookOK = false
				}
			}
		}
	})
	return h
}

// dyingIDs: running tasks whose tomb has been killed (deterministic: read under r.mu, no handler has to notice)
func (h *c01Run) dyingIDs() []int {
	h.r.mu.Lock()
	defer h.r.mu.Unlock()
	out := []int{}
	for id, tb := range h.r.tombs {
		if i, ok := h.idx[id]; ok && tb.Err() != tomb.ErrStillAlive {
			out = append(out, i)
		}
	}
	sort.Ints(out)
	return out
}

func (h *c01Run) tombIDs() map[int]bool {
	h.r.mu.Lock()
	defer h.r.mu.Unlock()
	m := map[int]bool{}
	for id := range h.r.tombs {
		if i, ok := h.idx[id]; ok {
			m[i] = true
		}
	}
	return m
}

func (h *c01Run) statuses() []Status {
	h.st.Lock()
	defer h.st.Unlock()
	out := make([]Status, len(h.tasks))
	for i, t := range h.tasks {
		out[i] = t.Status()
	}
	return out
}

func c01Coq(s Status) string {
	switch s {
	case HoldStatus:
		return "Hold"
	case DoStatus, DefaultStatus:
		return "Do"
	default:
		return s.String()
	}
}

func c01Sig(sts []Status, tombs map[int]bool) string {
	var sb strings.Builder
	for _, s := range sts {
		sb.WriteString(strconv.Itoa(int(s)) + ",")
	}
	var ids []int
	for i := range tombs {
		ids = append(ids, i)
	}
	sort.Ints(ids)
	sb.WriteString(fmt.Sprint(ids))
	return sb.String()
}

// ensureFix calls the real Ensure until neither a status nor the set of tombs changes; returns the start records.
func (h *c01Run) ensureFix() []string {
	var starts []c01Start
	n := len(h.tasks)
	stable := false
	for iter := 0; iter < n+4; iter++ {
		before := c01Sig(h.statuses(), h.tombIDs())
		h.r.Ensure()
		tombs := h.tombIDs()
		want := 0
		for i := range tombs {
			if _, ok := h.release[i]; !ok {
				want++
			}
		}
		for k := 0; k < want; k++ {
			select {
			case s := <-h.announce:
				if _, dup := h.release[s.t]; dup || !tombs[s.t] {
					c01Fatal("unexpected handler start for task %d", s.t)
				}
				h.release[s.t] = s.ch
				starts = append(starts, s)
			case <-time.After(c01Timeout):
				c01Fatal("timeout waiting for %d started handlers", want)
			}
		}
		select {
		case s := <-h.announce:
			c01Fatal("handler of task %d started without a tomb", s.t)
		default:
		}
		if c01Sig(h.statuses(), tombs) == before {
			stable = true
			break
		}
	}
	if !stable {
		c01Fatal("Ensure did not reach a fixpoint in %d passes", n+4)
	}
	sort.Slice(starts, func(a, b int) bool { return starts[a].t < starts[b].t })
	var out []string
	for _, s := range starts {
		pre := make([]string, len(s.pre))
		for i, p := range s.pre {
			pre[i] = c01Coq(p)
		}
		gate := true
		if at, ok := h.retryAt[s.t]; ok && h.cur < at {
			gate = false
		}
		delete(h.retryAt, s.t)
		if s.undo {
			h.undoSeen = true
		}
		if len(pre) > 0 {
			h.preSeen = true
		}
		out = append(out, "(SR "+strconv.Itoa(s.t)+" "+vh.CoqBool(s.undo)+" "+c01Vec(pre)+" "+vh.CoqBool(gate)+" "+vh.CoqBool(h.fresh[s.t])+")")
	}
	return out
}

func (h *c01Run) finish(i int, o string, d int64, step int) {
	ch := h.release[i]
	delete(h.release, i)
	var err error
	switch o {
	case "ok":
	case "err":
		// some messages contain format verbs: the runner must log the error text verbatim
		msg := fmt.Sprintf("fail-%d-%d", i, step) + []string{"", "", " 100% full", " %s", " %d%%", " %!", " /a%2Fb"}[(i+step)%7]
		// the message is what Change.Err must report for this task if this is what puts it into Error
		h.failMsg[i] = msg
		err = errors.New(msg)
	case "retry":
		err = &Retry{After: time.Duration(d) * time.Second}
		h.st.Lock()
		aborted := h.tasks[i].Status() == AbortStatus
		h.st.Unlock()
		if d > 0 && !aborted {
			h.retryAt[i] = h.cur + d
		}
	case "logretry":
		msg := fmt.Sprintf("warn-%d-%d", i, step) + []string{"", " 50% done", " %v"}[(i+step)%3]
		h.logged[i] = append(h.logged[i], msg)
		err = &c01LogRetry{msg}
	case "wait":
		err = &Wait{}
	case "waitu":
		err = &Wait{WaitedStatus: UndoneStatus}
	default:
		c01Fatal("bad outcome %q", o)
	}
	id := h.tasks[i].ID()
	ch <- err
	deadline := time.Now().Add(c01Timeout)
	for {
		h.r.mu.Lock()
		_, alive := h.r.tombs[id]
		h.r.mu.Unlock()
		if !alive {
			return
		}
		if time.Now().After(deadline) {
			c01Fatal("timeout waiting for the completion of task %d", i)
		}
		time.Sleep(20 * time.Microsecond)
	}
}

func (h *c01Run) abort() {
	h.st.Lock()
	defer h.st.Unlock()
	defer func() {
		if e := recover(); e != nil {
			if strings.Contains(fmt.Sprint(e), "unexpectedly became unready") {
				h.panicked = true
				return
			}
			panic(e)
		}
	}()
	h.chg.Abort()
}

func (h *c01Run) observe(starts []string) c01Obs {
	tombs := h.tombIDs()
	dying := h.dyingIDs()
	h.st.Lock()
	defer h.st.Unlock()
	o := c01Obs{Run: []int{}, Dying: dying, Err: []int{}, Failed: []int{}, Starts: starts, Panic: h.panicked, HookOK: h.hookOK}
	for _, t := range h.tasks {
		o.St = append(o.St, c01Coq(t.Status()))
		wd := "Hold"
		if w := t.WaitedStatus(); w != DefaultStatus {
			wd = c01Coq(w)
		}
		o.Wd = append(o.Wd, wd)
	}
	for i := range tombs {
		o.Run = append(o.Run, i)
	}
	sort.Ints(o.Run)
	o.Ready = h.chg.IsReady()
	o.Cst = c01Coq(h.chg.Status())
	o.Rt = !h.chg.ReadyTime().IsZero()
	for i := range h.failMsg {
		o.Failed = append(o.Failed, i)
	}
	sort.Ints(o.Failed)
	if err := h.chg.Err(); err != nil {
		lines := strings.Split(err.Error(), "\n")
		if len(lines) == 0 || lines[0] != "cannot perform the following tasks:" {
			o.Err = append(o.Err, 999)
		} else {
			// a failed task counts as named when a line carries the error it FAILED with; further lines of the same
			// task carrying ERROR lines the handler logged itself earlier are accepted; anything else is the sentinel
			for _, l := range lines[1:] {
				ok := false
				for i, msg := range h.failMsg {
					if l == fmt.Sprintf("- t%d (%s)", i, msg) {
						o.Err = append(o.Err, i)
						ok = true
					}
					for _, lm := range h.logged[i] {
						if l == fmt.Sprintf("- t%d (%s)", i, lm) {
							ok = true
						}
					}
				}
				if !ok {
					o.Err = append(o.Err, 999)
				}
			}
		}
		sort.Ints(o.Err)
	}
	h.hookOK = true
	h.fresh = map[int]bool{}
	return o
}

func (h *c01Run) enabled(e c01Ev) bool {
	switch e.K {
	case "finish":
		_, ok := h.release[e.T]
		return ok && e.T >= 0 && e.T < len(h.tasks)
	case "resolve":
		if e.T < 0 || e.T >= len(h.tasks) {
			return false
		}
		return h.statuses()[e.T] == WaitStatus
	case "ensure", "abort", "tick":
		return true
	}
	return false
}

func (h *c01Run) apply(e c01Ev) {
	var starts []string
	switch e.K {
	case "ensure":
		starts = h.ensureFix()
	case "finish":
		h.finish(e.T, e.O, e.D, len(h.steps))
	case "abort":
		h.abort()
	case "tick":
		if e.D < 0 {
			e.D = 0
		}
		h.cur += e.D
	case "resolve":
		h.st.Lock()
		h.tasks[e.T].SetStatus(h.tasks[e.T].WaitedStatus())
		h.st.Unlock()
	}
	h.steps = append(h.steps, c01Step{e, h.observe(starts)})
}

func (h *c01Run) settled() bool {
	if len(h.release) > 0 {
		return false
	}
	for _, s := range h.statuses() {
		if !s.Ready() {
			return false
		}
	}
	return true
}

// pick an outcome for the handler of task i
func (h *c01Run) outcome(r *vh.Rand, i int, failDo, failUndo map[int]bool, drain bool) c01Ev {
	sts := h.statuses()
	e := c01Ev{K: "finish", T: i, O: "ok"}
	undoing := sts[i] == UndoingStatus
	tombDying := false
	for _, d := range h.dyingIDs() {
		if d == i {
			tombDying = true
		}
	}
	if tombDying && sts[i] != AbortStatus {
		// a tomb-honouring handler whose tomb was killed stops and reports it (only happens if the runner kills the tomb
		// of a task that was not aborted)
		e.O = "err"
		return e
	}
	if sts[i] == AbortStatus {
		// a killed handler normally answers Retry
		switch x := r.Intn(10); {
		case x < 6:
			e.O = "retry"
		case x < 8:
			e.O = "ok"
		case x < 9:
			e.O = "err"
		default:
			e.O = "wait"
		}
		return e
	}
	if (undoing && failUndo[i]) || (!undoing && failDo[i]) {
		if !drain && len(h.logged[i]) < 2 && r.Chance(1, 3) {
			// logs an error of its own and asks for a retry before it finally fails with another error
			e.O = "logretry"
			return e
		}
		if drain || r.Chance(2, 3) {
			e.O = "err"
			return e
		}
	}
	if drain {
		return e
	}
	switch x := r.Intn(100); {
	case x < 8:
		e.O = "retry"
		if r.Chance(1, 2) {
			e.D = int64(r.Range(1, 5))
		}
	case x < 11:
		e.O = "logretry"
	case x < 11+h.waitP():
		if undoing != r.Chance(1, 10) {
			e.O = "waitu"
		} else {
			e.O = "wait"
		}
	}
	return e
}

func (h *c01Run) waitP() int {
	if h.in.WaitP > 0 {
		return h.in.WaitP
	}
	return 5
}

func c01Exec(in c01In) (steps []c01Step, h *c01Run) {
	h = c01New(in)
	oldNow := timeNow
	timeNow = func() time.Time { return c01Base.Add(time.Duration(h.cur) * time.Second) }
	defer func() { timeNow = oldNow }()
	defer func() {
		// release whatever still runs so that no goroutine is left blocked
		for i, ch := range h.release {
			ch <- &Retry{}
			_ = i
		}
		h.r.Stop()
	}()
	n := len(in.Tasks)
	stop := func() bool {
		return h.panicked || (in.Mode == "f11" && len(h.steps) > 0 && h.steps[len(h.steps)-1].Ev.K == "abort")
	}
	if len(in.Script) > 0 {
		for _, e := range in.Script {
			if !h.enabled(e) {
				continue
			}
			h.apply(e)
			if stop() {
				break
			}
		}
		if !in.Drain {
			return h.steps, h
		}
		in.Steps = 0
	}
	r := vh.NewRand(in.Seed)
	failDo, failUndo := map[int]bool{}, map[int]bool{}
	switch r.Intn(10) {
	case 0: // no failure
	case 1, 2:
		failDo[r.Intn(n)] = true
		failDo[r.Intn(n)] = true
	case 3:
		failDo[r.Intn(n)] = true
		failUndo[r.Intn(n)] = true
	default:
		failDo[r.Intn(n)] = true
	}
	if r.Chance(1, 8) {
		failUndo[r.Intn(n)] = true
	}
	if len(in.Script) > 0 {
		// scripted prefix: the drain that follows injects no further failures
		failDo, failUndo = map[int]bool{}, map[int]bool{}
	}
	if len(in.FailDo) > 0 {
		failDo = map[int]bool{}
		for _, i := range in.FailDo {
			failDo[i] = true
		}
	}
	dirty := true // something happened since the last Ensure
	for step := 0; step < in.Steps && !stop(); step++ {
		if h.settled() {
			break
		}
		var running []int
		for i := range h.release {
			running = append(running, i)
		}
		sort.Ints(running)
		sts := h.statuses()
		var waiting []int
		for i, s := range sts {
			if s == WaitStatus {
				waiting = append(waiting, i)
			}
		}
		x := r.Intn(1000)
		switch {
		case x < in.AbortP:
			h.apply(c01Ev{K: "abort"})
			dirty = true
		case x < in.AbortP+30 || (!dirty && len(running) == 0 && len(waiting) == 0):
			h.apply(c01Ev{K: "tick", D: int64(r.Range(1, 4))})
			dirty = true
		case x < in.AbortP+120 && len(waiting) > 0:
			h.apply(c01Ev{K: "resolve", T: waiting[r.Intn(len(waiting))]})
			dirty = true
		case (x < 700 || !dirty) && len(running) > 0:
			h.apply(h.outcome(r, running[r.Intn(len(running))], failDo, failUndo, false))
			dirty = true
		case !dirty && len(waiting) > 0:
			h.apply(c01Ev{K: "resolve", T: waiting[r.Intn(len(waiting))]})
			dirty = true
		default:
			h.apply(c01Ev{K: "ensure"})
			dirty = false
		}
	}
	// drain: let everything finish
	for k := 0; k < 6*n+10 && !stop() && !h.settled(); k++ {
		h.apply(c01Ev{K: "ensure"})
		if stop() {
			break
		}
		var running []int
		for i := range h.release {
			running = append(running, i)
		}
		sort.Ints(running)
		progressed := false
		for _, i := range running {
			h.apply(h.outcome(r, i, failDo, failUndo, true))
			progressed = true
		}
		for i, s := range h.statuses() {
			if s == WaitStatus {
				h.apply(c01Ev{K: "resolve", T: i})
				progressed = true
			}
		}
		if !progressed {
			if len(h.retryAt) > 0 {
				h.apply(c01Ev{K: "tick", D: 5})
			} else if k > 2 {
				break
			}
		}
	}
	if !stop() {
		h.apply(c01Ev{K: "ensure"})
	}
	return h.steps, h
}

// ---------------------------------------------------------------- Coq rendering

// Coq list as a chain of conses: the bracket notation is an order of magnitude slower to elaborate for long lists
func c01List(items []string) string {
	if len(items) == 0 {
		return "nil"
	}
	return "(" + strings.Join(items, " :: ") + " :: nil)"
}

func c01Nats(l []int) string {
	items := make([]string, len(l))
	for i, x := range l {
		items[i] = strconv.Itoa(x)
	}
	return c01List(items)
}

func c01CoqEv(e c01Ev, n int) string {
	switch e.K {
	case "ensure":
		return "(EEnsure " + strconv.Itoa(n) + ")"
	case "finish":
		o := "OOk"
		switch e.O {
		case "err":
			o = "OErr"
		case "retry":
			o = "(ORetry " + vh.CoqZ(e.D) + ")"
		case "logretry":
			o = "(ORetry 0%Z)"
		case "wait":
			o = "(OWait false)"
		case "waitu":
			o = "(OWait true)"
		}
		return "(EFinish " + strconv.Itoa(e.T) + " " + o + ")"
	case "abort":
		return "UAbort"
	case "tick":
		return "(Tick " + vh.CoqZ(e.D) + ")"
	case "resolve":
		return "(EResolve " + strconv.Itoa(e.T) + ")"
	}
	return "?"
}

var c01Codes = map[string]byte{"Hold": '0', "Do": '1', "Doing": '2', "Done": '3', "Abort": '4', "Undo": '5', "Undoing": '6',
	"Undone": '7', "Error": '8', "Wait": '9'}

// status vector as the decimal number 1d1..dn (decoded by TaskEngine.dec_sts)
func c01Vec(sts []string) string {
	b := []byte{'1'}
	for _, s := range sts {
		b = append(b, c01Codes[s])
	}
	return string(b)
}

// id set as a bit mask (the sentinel 999 is bit 60)
func c01Mask(l []int) string {
	var m uint64
	for _, x := range l {
		if x > 59 {
			x = 60
		}
		m |= 1 << uint(x)
	}
	return strconv.FormatUint(m, 10)
}

func c01CoqObs(o c01Obs) string {
	return "(OB " + c01Vec(o.St) + " " + c01Vec(o.Wd) + " " + c01Mask(o.Run) + " " + c01Mask(o.Dying) + " " + vh.CoqBool(o.Ready) + " " + o.Cst + " " +
		vh.CoqBool(o.Rt) + " " + c01Mask(o.Err) + " " + c01Mask(o.Failed) + " " + vh.CoqBool(o.Panic) + " " +
		c01List(o.Starts) + " " + vh.CoqBool(o.HookOK) + ")"
}

func c01CoqCase(in c01In, steps []c01Step) string {
	g := make([]string, len(in.Tasks))
	for i, t := range in.Tasks {
		g[i] = "(TD " + c01Nats(t.Lanes) + " " + c01Nats(t.Waits) + " " + vh.CoqBool(t.Undo) + ")"
	}
	evs := make([]string, len(steps))
	for i, s := range steps {
		evs[i] = "(EO " + c01CoqEv(s.Ev, len(in.Tasks)) + " " + c01CoqObs(s.Obs) + ")"
	}
	return "(Case " + c01List(g) + " " + c01List(evs) + ")"
}

// ---------------------------------------------------------------- generators

func c01Graph(r *vh.Rand, maxN int) []c01Task {
	n := r.Range(1, maxN)
	if r.Chance(2, 3) && maxN >= 3 {
		n = r.Range(3, maxN)
	}
	topo := r.Perm(n) // topo[k] = task at position k of a topological order; edges go from earlier to later
	pos := make([]int, n)
	for k, t := range topo {
		pos[t] = k
	}
	p := r.Range(15, 60)
	nl := r.Intn(4) // number of explicit lanes (0 = everything in the default lane)
	tasks := make([]c01Task, n)
	for i := range tasks {
		tasks[i].Undo = !r.Chance(1, 7)
		tasks[i].Lanes = []int{}
		tasks[i].Waits = []int{}
		if nl > 0 && !r.Chance(1, 8) {
			tasks[i].Lanes = append(tasks[i].Lanes, r.Range(1, nl))
			if r.Chance(1, 5) {
				l := r.Range(0, nl)
				if l != tasks[i].Lanes[0] {
					tasks[i].Lanes = append(tasks[i].Lanes, l)
				}
			}
		}
		for j := 0; j < n; j++ {
			if pos[j] < pos[i] && r.Intn(100) < p {
				tasks[i].Waits = append(tasks[i].Waits, j)
			}
		}
	}
	if r.Chance(1, 4) {
		// a chain per lane, the usual shape of snapd changes
		for i := range tasks {
			tasks[i].Waits = []int{}
		}
		last := map[int]int{}
		for _, t := range topo {
			l := 0
			if len(tasks[t].Lanes) > 0 {
				l = tasks[t].Lanes[0]
			}
			if prev, ok := last[l]; ok {
				tasks[t].Waits = []int{prev}
			}
			last[l] = t
		}
	}
	return tasks
}

// c01Shared: tasks that belong to several lanes (the shared prerequisites of snapd's multi-snap changes) followed by
// one short chain per lane, at random positions of the change order; the do handlers of tasks in two (or all)
// different lanes fail, one after the other.
func c01Shared(r *vh.Rand, maxN int) ([]c01Task, []int) {
	nl := r.Range(2, 3)
	nshared := r.Range(1, 2)
	var kinds [][]int // lanes of each logical task; index = logical id
	var waits [][]int
	for k := 0; k < nshared; k++ {
		ls := []int{}
		for _, l := range r.Perm(nl) {
			if len(ls) < 2 || r.Chance(1, 2) {
				ls = append(ls, l+1)
			}
		}
		kinds = append(kinds, ls)
		w := []int{}
		if k > 0 && r.Chance(1, 2) {
			w = append(w, k-1)
		}
		waits = append(waits, w)
	}
	var fails []int
	for l := 1; l <= nl; l++ {
		prev := -1
		cl := r.Range(1, 2)
		for j := 0; j < cl && len(kinds) < maxN; j++ {
			id := len(kinds)
			kinds = append(kinds, []int{l})
			w := []int{}
			if prev >= 0 {
				w = append(w, prev)
			} else if r.Chance(3, 4) {
				w = append(w, r.Intn(nshared))
			}
			waits = append(waits, w)
			prev = id
		}
		if prev >= 0 && (l <= 2 || r.Chance(1, 2)) {
			fails = append(fails, prev-r.Intn(1+boolInt(prev > nshared && len(kinds[prev-1]) == 1 && kinds[prev-1][0] == l)))
		}
	}
	// random change order
	n := len(kinds)
	perm := r.Perm(n) // perm[logical] = position
	tasks := make([]c01Task, n)
	for lg := 0; lg < n; lg++ {
		t := c01Task{Lanes: kinds[lg], Waits: []int{}, Undo: !r.Chance(1, 10)}
		for _, w := range waits[lg] {
			t.Waits = append(t.Waits, perm[w])
		}
		sort.Ints(t.Waits)
		tasks[perm[lg]] = t
	}
	for i := range fails {
		fails[i] = perm[fails[i]]
	}
	sort.Ints(fails)
	return tasks, fails
}

func boolInt(b bool) int {
	if b {
		return 1
	}
	return 0
}

// c01Place puts logical tasks at random positions of the change (lg[i].Waits are logical ids) and translates a script
func c01Place(r *vh.Rand, lg []c01Task, script []c01Ev) ([]c01Task, []c01Ev) {
	n := len(lg)
	perm := r.Perm(n)
	tasks := make([]c01Task, n)
	for i, t := range lg {
		nt := c01Task{Lanes: t.Lanes, Undo: t.Undo, Waits: []int{}}
		for _, w := range t.Waits {
			nt.Waits = append(nt.Waits, perm[w])
		}
		sort.Ints(nt.Waits)
		tasks[perm[i]] = nt
	}
	out := make([]c01Ev, len(script))
	for i, e := range script {
		if e.K == "finish" || e.K == "resolve" {
			e.T = perm[e.T]
		}
		out[i] = e
	}
	return tasks, out
}

// c01UndoWait: a chain 0 <- 1 <- ... <- c-1 <- F; everything completes, F fails, the chain is undone from the far end
// and the undo handler of task k answers Wait{WaitedStatus: Undone} while k-1 ... 0 are still in Undo (blocked, along
// halt edges, on the waiting task): the change must report Wait.
func c01UndoWait(r *vh.Rand) c01In {
	c := r.Range(3, 5)
	lane := []int{}
	if r.Bool() {
		lane = []int{1}
	}
	var lg []c01Task
	for i := 0; i <= c; i++ {
		t := c01Task{Lanes: lane, Undo: true, Waits: []int{}}
		if i > 0 {
			t.Waits = []int{i - 1}
		}
		lg = append(lg, t)
	}
	sc := []c01Ev{{K: "ensure"}}
	for i := 0; i < c; i++ {
		sc = append(sc, c01Ev{K: "finish", T: i, O: "ok"}, c01Ev{K: "ensure"})
	}
	sc = append(sc, c01Ev{K: "finish", T: c, O: "err"}, c01Ev{K: "ensure"})
	k := r.Range(2, c-1)
	for j := c - 1; j > k; j-- {
		sc = append(sc, c01Ev{K: "finish", T: j, O: "ok"}, c01Ev{K: "ensure"})
	}
	sc = append(sc, c01Ev{K: "finish", T: k, O: "waitu"}, c01Ev{K: "ensure"})
	if r.Bool() {
		sc = append(sc, c01Ev{K: "tick", D: 2}, c01Ev{K: "ensure"})
	}
	sc = append(sc, c01Ev{K: "resolve", T: k}, c01Ev{K: "ensure"})
	tasks, script := c01Place(r, lg, sc)
	return c01In{Tasks: tasks, Script: script, Drain: true, Seed: r.U64()}
}

// c01Parked: S in lanes 1 and 2; lane 1: F (fails); lane 2: K <- N, K's do handler answers Wait (parked, reboot
// pending) and F fails while lane 2 is parked: the parked lane is healthy (a task in Wait counts by the status it
// waits for), so S keeps its exemption and lane 2 completes after the wait is resolved.
func c01Parked(r *vh.Rand) c01In {
	sl := []int{1, 2}
	if r.Bool() {
		sl = []int{2, 1}
	}
	lg := []c01Task{
		{Lanes: sl, Undo: true, Waits: []int{}},        // 0 S
		{Lanes: []int{1}, Undo: true, Waits: []int{0}}, // 1 F
		{Lanes: []int{2}, Undo: true, Waits: []int{0}}, // 2 K
		{Lanes: []int{2}, Undo: true, Waits: []int{2}}, // 3 N
	}
	if r.Bool() {
		lg = append(lg, c01Task{Lanes: []int{1}, Undo: true, Waits: []int{1}}) // 4: waits for F
	}
	sc := []c01Ev{{K: "ensure"}, {K: "finish", T: 0, O: "ok"}, {K: "ensure"}, {K: "finish", T: 2, O: "wait"}}
	if r.Bool() {
		sc = append(sc, c01Ev{K: "ensure"})
	}
	sc = append(sc, c01Ev{K: "finish", T: 1, O: "err"}, c01Ev{K: "ensure"}, c01Ev{K: "resolve", T: 2}, c01Ev{K: "ensure"})
	tasks, script := c01Place(r, lg, sc)
	return c01In{Tasks: tasks, Script: script, Drain: true, Seed: r.U64()}
}

// c01Delayed: 2-4 independent tasks whose handlers answer Retry with different delays (1, 2, 3 minutes); the clock
// advances in steps smaller than the delays with an Ensure (several real passes) after every step: no task may start
// before its own time, whatever the order in which Ensure visits them.
func c01Delayed(r *vh.Rand) c01In {
	k := r.Range(2, 4)
	var lg []c01Task
	for i := 0; i < k; i++ {
		lg = append(lg, c01Task{Lanes: []int{}, Undo: true, Waits: []int{}})
	}
	sc := []c01Ev{{K: "ensure"}}
	delays := r.Perm(k)
	for i := 0; i < k; i++ {
		sc = append(sc, c01Ev{K: "finish", T: i, O: "retry", D: int64(60 * (delays[i] + 1))})
	}
	for t := 0; t < 60*(k+1); t += 20 {
		sc = append(sc, c01Ev{K: "ensure"}, c01Ev{K: "tick", D: 20}, c01Ev{K: "ensure"})
		if r.Chance(1, 4) {
			sc = append(sc, c01Ev{K: "ensure"})
		}
	}
	tasks, script := c01Place(r, lg, sc)
	return c01In{Tasks: tasks, Script: script, Drain: true, Seed: r.U64()}
}

func c01Gen(mode string) func(r *vh.Rand, tier string, n int) []c01In {
	return func(r *vh.Rand, tier string, n int) []c01In {
		if n <= 0 {
			n = 300
		}
		var out []c01In
		// the former witness of finding 11 (repaired by d3068df; must not panic any more), always first
		w := []c01Task{{Lanes: []int{}, Waits: []int{1, 2}, Undo: true}, {Lanes: []int{}, Waits: []int{}, Undo: true}, {Lanes: []int{}, Waits: []int{}, Undo: true}}
		out = append(out, c01In{Tasks: w, Mode: mode, Script: []c01Ev{{K: "ensure"}, {K: "finish", T: 1, O: "ok"}, {K: "finish", T: 2, O: "ok"}, {K: "abort"}}})
		if mode != "f11" {
			// provokes (map order permitting: all but 1 Ensure order in 720) the known finding of C02
			// undo-rerun-sees-handlerless-dependent-in-undo: chain 0(undo) <- 1 <- 2 <- 3 <- 4 <- 5 (no undo handlers),
			// 6 fails; after the handler-less tasks flipped back to Done and 0 started undoing, a user abort moves them
			// to Undo again, 0 answers Retry and is re-run by an Ensure pass that visits 0 before 1 became Done again.
			ch := []c01Task{{Lanes: []int{}, Waits: []int{}, Undo: true}}
			for i := 1; i <= 5; i++ {
				ch = append(ch, c01Task{Lanes: []int{}, Waits: []int{i - 1}, Undo: false})
			}
			ch = append(ch, c01Task{Lanes: []int{}, Waits: []int{}, Undo: true})
			sc := []c01Ev{{K: "ensure"}}
			for i := 0; i <= 5; i++ {
				sc = append(sc, c01Ev{K: "finish", T: i, O: "ok"}, c01Ev{K: "ensure"})
			}
			sc = append(sc, c01Ev{K: "finish", T: 6, O: "err"}, c01Ev{K: "ensure"}, c01Ev{K: "abort"},
				c01Ev{K: "finish", T: 0, O: "retry"}, c01Ev{K: "ensure"}, c01Ev{K: "finish", T: 0, O: "ok"}, c01Ev{K: "ensure"})
			out = append(out, c01In{Tasks: ch, Script: sc})
		}
		if mode == "f11" {
			for len(out) < n {
				out = append(out, c01In{Tasks: c01Graph(r, 4), Seed: r.U64(), Steps: r.Range(0, 10), Mode: mode, AbortP: 150})
			}
			return out
		}
		// abort of a ready change (outside the REST API's guard): shows the guard is needed
		out = append(out, c01In{Tasks: w[1:], Script: []c01Ev{{K: "ensure"}, {K: "finish", T: 0, O: "ok"}, {K: "finish", T: 1, O: "ok"}, {K: "abort"}}})
		maxN := 7
		if tier == "thorough" {
			maxN = 9
		}
		for len(out) < n {
			switch x := r.Intn(20); {
			case x < 5:
				ts, fails := c01Shared(r, maxN)
				in := c01In{Tasks: ts, FailDo: fails, Seed: r.U64(), Steps: r.Range(5, 60)}
				if r.Bool() {
					in.WaitP = 25 // lanes get parked in Wait while others fail
				}
				out = append(out, in)
				continue
			case x < 7:
				out = append(out, c01UndoWait(r))
				continue
			case x < 9:
				out = append(out, c01Parked(r))
				continue
			case x < 11:
				out = append(out, c01Delayed(r))
				continue
			}
			in := c01In{Tasks: c01Graph(r, maxN), Seed: r.U64(), Steps: r.Range(5, 60)}
			if r.Chance(1, 4) {
				in.AbortP = r.Range(5, 40)
			}
			if r.Chance(1, 4) {
				in.WaitP = 25
			}
			out = append(out, in)
		}
		return out
	}
}

func c01Driver(prop string, mode string) {
	vh.Run(c01Gen(mode), func(in c01In) vh.Out {
		steps, h := c01Exec(in)
		tags := []string{"n=" + strconv.Itoa(len(in.Tasks))}
		settled, failed, uabort, multi := false, false, false, false
		if len(steps) > 0 {
			last := steps[len(steps)-1].Obs
			settled = len(last.Run) == 0 && h.settled()
			failed = len(last.Failed) > 0
		}
		for _, s := range steps {
			if s.Ev.K == "abort" {
				uabort = true
			}
		}
		for _, t := range in.Tasks {
			if len(t.Lanes) > 1 {
				multi = true
			}
		}
		if len(in.FailDo) > 1 {
			tags = append(tags, "shared-task-two-lane-failures")
		}
		if len(in.Script) > 0 && in.Drain {
			tags = append(tags, "scripted-wait-family")
		}
		sawWait := false
		for _, st := range steps {
			if st.Obs.Cst == "Wait" {
				sawWait = true
			}
		}
		if sawWait {
			tags = append(tags, "change-reported-wait")
		}
		if len(h.logged) > 0 {
			tags = append(tags, "handler-logged-error-then-retry")
		}
		for k, v := range map[string]bool{"settled": settled, "handler-failed": failed, "user-abort": uabort, "multi-lane-task": multi,
			"undo-started": h.undoSeen, "panic": h.panicked} {
			if v {
				tags = append(tags, k)
			}
		}
		tags = append(tags, fmt.Sprintf("events<=%d", (len(steps)/20+1)*20))
		nt := false
		switch prop {
		case "c01":
			nt = failed && h.undoSeen
		case "c02":
			nt = h.preSeen
		case "c03":
			nt = settled || h.panicked
		}
		return vh.Out{Observed: steps, Coq: c01CoqCase(in, steps), NonTrivial: nt, Tags: tags}
	})
}

func TestVerifC01Hist(t *testing.T) { c01Driver("c01", "") }
func TestVerifC02Hist(t *testing.T) { c01Driver("c02", "") }
func TestVerifC03Hist(t *testing.T) { c01Driver("c03", "") }
func TestVerifC03F11(t *testing.T)  { c01Driver("c03", "f11") }
