//go:build verif

// Driver for C04 (a restart at any checkpoint resumes changes without redoing finished work).
// Runs a change through the real TaskRunner with deterministic handlers, keeps EVERY checkpoint payload handed to the
// Backend, then for the sampled payloads: state.ReadState + a fresh TaskRunner with the same handlers, run to quiescence,
// and records final statuses and how often each handler was started after the restart.
// Graphs are chains with extra edges to earlier tasks, so that the real runner (whose Ensure iterates a map) is
// deterministic. Prints V.models.Restart.case terms.
package state

import (
	"bytes"
	"errors"
	"fmt"
	"sort"
	"strconv"
	"sync"
	"testing"
	"time"

	"gopkg.in/tomb.v2"

	"github.com/snapcore/snapd/zzverif/vh"
)

type c04In struct {
	Waits  [][]int `json:"waits"`   // Waits[i] = ids (1-based) task i+1 waits for
	Fail   []int   `json:"fail"`    // ids whose do handler fails
	NoUndo []int   `json:"no_undo"` // ids without undo handler
	Every  int     `json:"every"`   // restart at every Every-th checkpoint (1 = all)
	Off    int     `json:"off"`     // ... starting at this one
}

type c04Backend struct {
	mu       sync.Mutex
	payloads [][]byte
}

func (b *c04Backend) Checkpoint(d []byte) error {
	b.mu.Lock()
	defer b.mu.Unlock()
	b.payloads = append(b.payloads, append([]byte(nil), d...))
	return nil
}
func (b *c04Backend) EnsureBefore(time.Duration) {}

type c04Counts struct {
	mu   sync.Mutex
	do   map[string]int
	undo map[string]int
}

func c04Runner(st *State, in c04In, cnt *c04Counts) *TaskRunner {
	fail := map[string]bool{}
	for _, f := range in.Fail {
		fail[strconv.Itoa(f)] = true
	}
	r := NewTaskRunner(st)
	do := func(t *Task, _ *tomb.Tomb) error {
		cnt.mu.Lock()
		cnt.do[t.ID()]++
		cnt.mu.Unlock()
		// a state modification inside the handler: creates a checkpoint while the task is Doing
		st.Lock()
		t.Set("touched", true)
		st.Unlock()
		if fail[t.ID()] {
			return errors.New("boom")
		}
		return nil
	}
	undo := func(t *Task, _ *tomb.Tomb) error {
		cnt.mu.Lock()
		cnt.undo[t.ID()]++
		cnt.mu.Unlock()
		st.Lock()
		t.Set("untouched", true)
		st.Unlock()
		return nil
	}
	r.AddHandler("u", do, undo)
	r.AddHandler("n", do, nil)
	return r
}

// run to quiescence: Ensure, wait for every handler, until the change is ready or nothing moves any more
func c04Settle(st *State, r *TaskRunner, n int) {
	last := ""
	for i := 0; i < 6*n+10; i++ {
		r.Ensure()
		r.Wait()
		st.Lock()
		cur := fmt.Sprint(c04Statuses(st))
		st.Unlock()
		if cur == last {
			break
		}
		last = cur
	}
	r.Stop()
}

func c04Statuses(st *State) [][2]int {
	var out [][2]int
	for id, t := range st.tasks {
		n, _ := strconv.Atoi(id)
		out = append(out, [2]int{n, int(t.Status())})
	}
	sort.Slice(out, func(i, j int) bool { return out[i][0] < out[j][0] })
	return out
}

func c04Pairs(l [][2]int) string {
	it := make([]string, len(l))
	for i, p := range l {
		it[i] = "(" + vh.CoqN(uint64(p[0])) + ", " + vh.CoqN(uint64(p[1])) + ")"
	}
	return vh.CoqList(it)
}
func c04NL(l []int) string {
	it := make([]string, len(l))
	for i, x := range l {
		it[i] = vh.CoqN(uint64(x))
	}
	return vh.CoqList(it)
}
func c04CountPairs(n int, m map[string]int) [][2]int {
	var out [][2]int
	for i := 1; i <= n; i++ {
		out = append(out, [2]int{i, m[strconv.Itoa(i)]})
	}
	return out
}

type c04Restart struct {
	Checkpoint int      `json:"checkpoint"`
	Payload    [][2]int `json:"payload"`
	Final      [][2]int `json:"final"`
	Dos        [][2]int `json:"dos"`
	Undos      [][2]int `json:"undos"`
}

func c04Exec(in c04In) vh.Out {
	n := len(in.Waits)
	noUndo := map[int]bool{}
	for _, x := range in.NoUndo {
		noUndo[x] = true
	}
	be := &c04Backend{}
	st := New(be)
	st.Lock()
	chg := st.NewChange("c", "s")
	var ts []*Task
	for i := 0; i < n; i++ {
		kind := "u"
		if noUndo[i+1] {
			kind = "n"
		}
		t := st.NewTask(kind, "s")
		for _, w := range in.Waits[i] {
			t.WaitFor(ts[w-1])
		}
		chg.AddTask(t)
		ts = append(ts, t)
	}
	st.Unlock()
	cnt := &c04Counts{do: map[string]int{}, undo: map[string]int{}}
	c04Settle(st, c04Runner(st, in, cnt), n)
	st.Lock()
	final := c04Statuses(st)
	st.Unlock()

	every := in.Every
	if every < 1 {
		every = 1
	}
	var rs []c04Restart
	var items []string
	tags := map[string]bool{}
	for k := 0; k < len(be.payloads); k++ {
		if (k+in.Off)%every != 0 && k != len(be.payloads)-1 {
			continue
		}
		be2 := &c04Backend{}
		st2, err := ReadState(be2, bytes.NewReader(be.payloads[k]))
		if err != nil {
			panic(err)
		}
		st2.Lock()
		payload := c04Statuses(st2)
		st2.Unlock()
		cnt2 := &c04Counts{do: map[string]int{}, undo: map[string]int{}}
		c04Settle(st2, c04Runner(st2, in, cnt2), n)
		st2.Lock()
		fin := c04Statuses(st2)
		st2.Unlock()
		r := c04Restart{Checkpoint: k, Payload: payload, Final: fin, Dos: c04CountPairs(n, cnt2.do), Undos: c04CountPairs(n, cnt2.undo)}
		rs = append(rs, r)
		items = append(items, "(RObs "+c04Pairs(r.Payload)+" "+c04Pairs(r.Final)+" "+c04Pairs(r.Dos)+" "+c04Pairs(r.Undos)+")")
		for _, p := range payload {
			switch p[1] {
			case 3:
				tags["restart-while-doing"] = true
			case 7:
				tags["restart-while-undoing"] = true
			case 6:
				tags["restart-with-undo-pending"] = true
			}
		}
	}
	var graph []string
	for i := 0; i < n; i++ {
		graph = append(graph, "("+vh.CoqN(uint64(i+1))+", "+c04NL(in.Waits[i])+")")
	}
	coq := "(Case " + vh.CoqList(graph) + " (mkCfg " + c04NL(in.Fail) + " " + c04NL(in.NoUndo) + ") " + c04Pairs(final) + " " + vh.CoqList(items) + ")"
	if len(in.Fail) > 0 {
		tags["failure"] = true
	}
	if len(in.NoUndo) > 0 {
		tags["no-undo-handler"] = true
	}
	tags["tasks="+strconv.Itoa(n)] = true
	var tl []string
	for t := range tags {
		tl = append(tl, t)
	}
	sort.Strings(tl)
	obs := map[string]interface{}{"final": final, "checkpoints": len(be.payloads), "restarts": rs,
		"do_counts": c04CountPairs(n, cnt.do), "undo_counts": c04CountPairs(n, cnt.undo)}
	return vh.Out{Observed: obs, Coq: coq, NonTrivial: tags["restart-while-doing"] || tags["restart-while-undoing"], Tags: tl}
}

func c04Gen(r *vh.Rand, tier string, n int) []c04In {
	if n == 0 {
		n = 40
	}
	every := 2
	if tier == "thorough" {
		every = 1
	}
	var ins []c04In
	for i := 0; i < n; i++ {
		nt := r.Range(1, 5)
		in := c04In{Every: every, Off: i % every}
		for j := 1; j <= nt; j++ {
			var w []int
			if j > 1 {
				w = append(w, j-1) // the chain
				for k := 1; k < j-1; k++ {
					if r.Chance(1, 3) {
						w = append(w, k)
					}
				}
			}
			in.Waits = append(in.Waits, w)
			if r.Chance(1, 4) {
				in.NoUndo = append(in.NoUndo, j)
			}
		}
		if r.Chance(2, 3) {
			in.Fail = append(in.Fail, r.Range(1, nt))
			if r.Chance(1, 5) {
				in.Fail = append(in.Fail, r.Range(1, nt))
			}
		}
		if in.Fail == nil {
			in.Fail = []int{}
		}
		if in.NoUndo == nil {
			in.NoUndo = []int{}
		}
		ins = append(ins, in)
	}
	return ins
}

func TestVerifC04Restart(t *testing.T) { vh.Run(c04Gen, c04Exec) }
