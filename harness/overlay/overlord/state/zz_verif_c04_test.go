//go:build verif

// Driver for C04 (a restart at any checkpoint resumes changes without redoing finished work).
// Runs a change through the real TaskRunner with deterministic handlers whose completion the driver controls (every
// handler blocks on a gate), so that parallel graphs run under a deterministic schedule: a list of actions
// E (Ensure passes until nothing more starts or changes) and F id (the handler of task id returns; the driver waits for the
// runner's bookkeeping of that completion). The policy is: E, then release the running handlers oldest start first, repeat.
// The driver's Backend keeps EVERY checkpoint payload. For the sampled crash points j (after the first j actions):
//   restart run : state.ReadState(last payload at j) + fresh TaskRunner, same handlers, same policy to quiescence;
//   baseline run: a fresh State on which actions 1..j are replayed, then the same policy (so: the run WITHOUT restart in
//                 which an Ensure pass happens at that moment).
// Prints V.models.Restart.case terms.
package state

import (
	"bytes"
	"encoding/json"
	"errors"
	"fmt"
	"sort"
	"strconv"
	"sync"
	"sync/atomic"
	"testing"
	"time"

	"gopkg.in/tomb.v2"

	"github.com/snapcore/snapd/zzverif/vh"
)

type c04In struct {
	Waits  [][]int `json:"waits"`            // Waits[i] = ids (1-based) task i+1 waits for
	Fail   []int   `json:"fail"`             // ids whose do handler fails
	NoUndo []int   `json:"no_undo"`          // ids without undo handler
	Every  int     `json:"every"`            // crash after every Every-th action (1 = all)
	Off    int     `json:"off"`              // ... starting at this one
	Points []int   `json:"points,omitempty"` // explicit crash points (number of actions before the crash); overrides Every/Off
	Unlocker []int `json:"unlocker,omitempty"` // ids whose handlers release the state lock through st.Unlocker() instead of Unlock()
}

type c04Backend struct {
	mu       sync.Mutex
	payloads [][]byte
}

func (b *c04Backend) Checkpoint(d []byte) error {
	b.mu.Lock()
	defer b.mu.Unlock()
	b.payloads = append(b.payloads, append([]byte(nil), d...))
	return nil
}
func (b *c04Backend) EnsureBefore(time.Duration) {}
func (b *c04Backend) count() int {
	b.mu.Lock()
	defer b.mu.Unlock()
	return len(b.payloads)
}

type c04Action struct {
	F int `json:"f"` // 0 = E, otherwise F id
}

type c04World struct {
	in      c04In
	n       int
	st      *State
	r       *TaskRunner
	be      *c04Backend
	mu      sync.Mutex
	gates   map[int]chan struct{}
	started chan int
	running []int
	do      map[int]int
	undo    map[int]int
	acts    []c04Action
	points  []int // points[k] = index of the last payload after k+1 actions
	phase   map[int]string   // the step key the running handler of a task has recorded ("did" / "undid")
	recAt   [][][2]string    // recAt[k] = (id, key) of the handlers blocked in their unlocked section after k+1 actions
	rels    []c04Release     // one per handler start: what it recorded and the last payload at the moment it had released the lock
	stopCh  chan struct{}    // closed by the driver right before a graceful TaskRunner.Stop()
}

var c04ErrCancelled = errors.New("cancelled: the runner is stopping")

type c04Release struct {
	ID      string
	Key     string
	Payload int
}

func c04NewWorld(in c04In, st *State, be *c04Backend) *c04World {
	w := &c04World{in: in, n: len(in.Waits), st: st, be: be, gates: map[int]chan struct{}{}, started: make(chan int, 64),
		do: map[int]int{}, undo: map[int]int{}, phase: map[int]string{}, stopCh: make(chan struct{})}
	viaUnlocker := map[int]bool{}
	for _, u := range in.Unlocker {
		viaUnlocker[u] = true
	}
	fail := map[int]bool{}
	for _, f := range in.Fail {
		fail[f] = true
	}
	handler := func(isUndo bool) HandlerFunc {
		return func(t *Task, tb *tomb.Tomb) error {
			id, _ := strconv.Atoi(t.ID())
			ch := make(chan struct{})
			w.mu.Lock()
			if isUndo {
				w.undo[id]++
			} else {
				w.do[id]++
			}
			key := "did"
			if isUndo {
				key = "undid"
			}
			w.gates[id] = ch
			w.phase[id] = key
			w.mu.Unlock()
			// the handler records its step in the state and releases the lock - through Unlock or through the second
			// release path, Unlocker - before its slow part (here: waiting for the gate). A crash in that unlocked section
			// must find the step in the last payload.
			st.Lock()
			t.Set(key, true)
			if viaUnlocker[id] {
				relock := st.Unlocker()()
				w.released(t.ID(), key)
				w.started <- id
				cancelled := w.wait(ch, tb)
				relock()
				st.Unlock()
				if cancelled {
					return c04ErrCancelled
				}
			} else {
				st.Unlock()
				w.released(t.ID(), key)
				w.started <- id
				if w.wait(ch, tb) {
					return c04ErrCancelled
				}
			}
			if !isUndo && fail[id] {
				return errors.New("boom")
			}
			return nil
		}
	}
	w.r = NewTaskRunner(st)
	w.r.AddHandler("u", handler(false), handler(true))
	w.r.AddHandler("n", handler(false), nil)
	return w
}

// the slow part of a handler: until the driver releases it, or - graceful stop - until the runner is being stopped and the
// handler's tomb is dying: then the handler gives up with a plain cancellation error, as a handler honouring its tomb does.
// (A tomb killed by the abort of the lane alone does not end the handler: it completes its work.)
func (w *c04World) wait(ch chan struct{}, tb *tomb.Tomb) (cancelled bool) {
	select {
	case <-ch:
		return false
	case <-w.stopCh:
		<-tb.Dying()
		return true
	}
}

// graceful stop: TaskRunner.Stop() with the handlers in flight
func (w *c04World) gracefulStop() {
	close(w.stopCh)
	w.r.Stop()
	w.running = nil
}

// called by a handler right after it has released the state lock: a crash now finds the payload be.count()-1
func (w *c04World) released(id, key string) {
	idx := w.be.count() - 1
	w.mu.Lock()
	w.rels = append(w.rels, c04Release{id, key, idx})
	w.mu.Unlock()
}

func c04Build(in c04In) (*State, *c04Backend) {
	noUndo := map[int]bool{}
	for _, x := range in.NoUndo {
		noUndo[x] = true
	}
	be := &c04Backend{}
	st := New(be)
	st.Lock()
	chg := st.NewChange("c", "s")
	var ts []*Task
	for i := range in.Waits {
		kind := "u"
		if noUndo[i+1] {
			kind = "n"
		}
		t := st.NewTask(kind, "s")
		for _, w := range in.Waits[i] {
			t.WaitFor(ts[w-1])
		}
		chg.AddTask(t)
		ts = append(ts, t)
	}
	st.Unlock()
	return st, be
}

func c04Statuses(st *State) [][2]int {
	st.Lock()
	defer st.unlock() // plain unlock: reading must not produce a checkpoint
	var out [][2]int
	for id, t := range st.tasks {
		n, _ := strconv.Atoi(id)
		out = append(out, [2]int{n, int(t.Status())})
	}
	sort.Slice(out, func(i, j int) bool { return out[i][0] < out[j][0] })
	return out
}

// E: Ensure passes until nothing more starts and no status changes; every started handler is waited for until it has
// announced itself (it then blocks on its gate)
func (w *c04World) ensureFix() {
	for i := 0; i < 2*w.n+3; i++ {
		before := fmt.Sprint(c04Statuses(w.st))
		w.r.Ensure()
		w.r.mu.Lock()
		want := len(w.r.tombs)
		w.r.mu.Unlock()
		var fresh []int
		for len(w.running)+len(fresh) < want {
			select {
			case id := <-w.started:
				fresh = append(fresh, id)
			case <-time.After(20 * time.Second):
				panic("c04: a started handler did not announce itself")
			}
		}
		sort.Ints(fresh)
		w.running = append(w.running, fresh...)
		if len(fresh) == 0 && fmt.Sprint(c04Statuses(w.st)) == before {
			break
		}
	}
}

// F id: the handler returns; wait until the runner goroutine has recorded the outcome
func (w *c04World) finish(id int) {
	w.r.mu.Lock()
	tb := w.r.tombs[strconv.Itoa(id)]
	w.r.mu.Unlock()
	w.mu.Lock()
	ch := w.gates[id]
	delete(w.gates, id)
	w.mu.Unlock()
	if tb == nil || ch == nil {
		panic(fmt.Sprintf("c04: task %d is not running", id))
	}
	close(ch)
	tb.Wait()
	for i, x := range w.running {
		if x == id {
			w.running = append(w.running[:i:i], w.running[i+1:]...)
			break
		}
	}
}

func (w *c04World) act(a c04Action) {
	if a.F == 0 {
		w.ensureFix()
	} else {
		w.finish(a.F)
	}
	w.acts = append(w.acts, a)
	w.points = append(w.points, w.be.count()-1)
	var rec [][2]string
	w.mu.Lock()
	for _, id := range w.running {
		rec = append(rec, [2]string{strconv.Itoa(id), w.phase[id]})
	}
	w.mu.Unlock()
	w.recAt = append(w.recAt, rec)
}

// the policy: E, then every running handler returns, oldest start first; until nothing moves
func (w *c04World) settle() {
	for round := 0; round < 6*w.n+10; round++ {
		before := fmt.Sprint(c04Statuses(w.st))
		w.act(c04Action{})
		if len(w.running) == 0 && fmt.Sprint(c04Statuses(w.st)) == before {
			break
		}
		for len(w.running) > 0 {
			w.act(c04Action{F: w.running[0]})
		}
	}
	w.r.Stop()
}

func c04Pairs(l [][2]int) string {
	it := make([]string, len(l))
	for i, p := range l {
		it[i] = "(" + vh.CoqN(uint64(p[0])) + ", " + vh.CoqN(uint64(p[1])) + ")"
	}
	return vh.CoqList(it)
}
func c04NL(l []int) string {
	it := make([]string, len(l))
	for i, x := range l {
		it[i] = vh.CoqN(uint64(x))
	}
	return vh.CoqList(it)
}
func c04CountPairs(n int, m map[int]int) [][2]int {
	var out [][2]int
	for i := 1; i <= n; i++ {
		out = append(out, [2]int{i, m[i]})
	}
	return out
}

type c04Restart struct {
	J        int      `json:"j"`
	Payload  [][2]int `json:"payload"`
	FinalR   [][2]int `json:"final_restart"`
	FinalB   [][2]int `json:"final_baseline"`
	Dos      [][2]int `json:"dos"`
	Undos    [][2]int `json:"undos"`
	Diff     []int    `json:"diff,omitempty"`     // ids whose final status differs between restart and baseline run
	InAbort  []int    `json:"in_abort,omitempty"` // ids persisted in Abort at the crash point
	Class    string   `json:"class"`              // same | abort-only | other  (used by classify only)
	Recorded  []int   `json:"recorded"`           // handlers blocked in their unlocked section at the crash point
	Persisted []int   `json:"persisted"`          // ... whose recorded step is in the last payload
}

func c04Lookup(l [][2]int, id int) int {
	for _, p := range l {
		if p[0] == id {
			return p[1]
		}
	}
	return 0
}

func c04Exec(in c04In) vh.Out {
	n := len(in.Waits)
	st, be := c04Build(in)
	w := c04NewWorld(in, st, be)
	w.settle()
	final := c04Statuses(st)

	var crash []int
	if in.Points != nil {
		crash = in.Points
	} else {
		every := in.Every
		if every < 1 {
			every = 1
		}
		for j := 1; j <= len(w.acts); j++ {
			if (j+in.Off)%every == 0 || j == len(w.acts) {
				crash = append(crash, j)
			}
		}
	}
	var rs []c04Restart
	var items []string
	tags := map[string]bool{}
	for _, j := range crash {
		if j < 1 || j > len(w.acts) {
			continue
		}
		// restart run
		be2 := &c04Backend{}
		st2, err := ReadState(be2, bytes.NewReader(be.payloads[w.points[j-1]]))
		if err != nil {
			panic(err)
		}
		payload := c04Statuses(st2)
		var recorded, persisted []int
		for _, rk := range w.recAt[j-1] {
			id, _ := strconv.Atoi(rk[0])
			recorded = append(recorded, id)
			if t := st2.tasks[rk[0]]; t != nil && t.data[rk[1]] != nil {
				persisted = append(persisted, id)
			}
		}
		w2 := c04NewWorld(in, st2, be2)
		w2.settle()
		finR := c04Statuses(st2)
		// baseline run: the same history without the restart
		st3, be3 := c04Build(in)
		w3 := c04NewWorld(in, st3, be3)
		for _, a := range w.acts[:j] {
			w3.act(a)
		}
		w3.settle()
		finB := c04Statuses(st3)

		r := c04Restart{J: j, Payload: payload, FinalR: finR, FinalB: finB, Dos: c04CountPairs(n, w2.do), Undos: c04CountPairs(n, w2.undo),
			Recorded: recorded, Persisted: persisted}
		other := len(payload) != n || len(persisted) != len(recorded)
		if len(persisted) != len(recorded) {
			tags["recorded-step-missing-from-last-payload"] = true
		}
		for id := 1; id <= n; id++ {
			ps := c04Lookup(payload, id)
			if ps == 5 {
				r.InAbort = append(r.InAbort, id)
			}
			doFinished := !(ps == 2 || ps == 3 || ps == 0)
			undoFinished := ps == 8 || ps == 1 || ps == 9
			if (doFinished && w2.do[id] != 0) || (undoFinished && w2.undo[id] != 0) || (ps == 3 && w2.do[id] < 1) || (ps == 7 && w2.undo[id] < 1) {
				other = true
			}
			if c04Lookup(finR, id) != c04Lookup(finB, id) {
				r.Diff = append(r.Diff, id)
				if ps != 5 {
					other = true
				}
			}
		}
		switch {
		case other:
			r.Class = "other"
		case len(r.Diff) > 0:
			r.Class = "abort-only"
			tags["outcome-differs-for-task-in-abort"] = true
		default:
			r.Class = "same"
		}
		rs = append(rs, r)
		items = append(items, "(RObs "+vh.CoqNat(j)+" "+c04Pairs(r.Payload)+" "+c04Pairs(r.FinalR)+" "+c04Pairs(r.FinalB)+" "+c04Pairs(r.Dos)+" "+c04Pairs(r.Undos)+" "+c04NL(recorded)+" "+c04NL(persisted)+")")
		for _, p := range payload {
			switch p[1] {
			case 3:
				tags["restart-while-doing"] = true
			case 7:
				tags["restart-while-undoing"] = true
			case 6:
				tags["restart-with-undo-pending"] = true
			case 5:
				tags["restart-with-task-in-abort"] = true
			}
		}
	}
	// graceful-stop points: the same history replayed on a fresh state, TaskRunner.Stop() with the handlers in flight, then
	// ReadState of the last payload + fresh runner + policy; compared with the baseline of the crash at the same point
	var stopItems []string
	var stopObs []map[string]interface{}
	for _, r := range rs {
		if len(w.recAt[r.J-1]) == 0 {
			continue // nothing in flight: the stop is the crash
		}
		st4, be4 := c04Build(in)
		w4 := c04NewWorld(in, st4, be4)
		for _, a := range w.acts[:r.J] {
			w4.act(a)
		}
		before := c04Statuses(st4)
		w4.gracefulStop()
		be5 := &c04Backend{}
		st5, err := ReadState(be5, bytes.NewReader(be4.payloads[be4.count()-1]))
		if err != nil {
			panic(err)
		}
		after := c04Statuses(st5)
		w5 := c04NewWorld(in, st5, be5)
		w5.settle()
		finS := c04Statuses(st5)
		dos, undos := c04CountPairs(n, w5.do), c04CountPairs(n, w5.undo)
		class := "same"
		for id := 1; id <= n; id++ {
			b, a := c04Lookup(before, id), c04Lookup(after, id)
			if !(a == b || (b == 5 && (a == 6 || a == 1))) {
				class = "other"
				tags["stopped-handler-not-left-in-flight"] = true
			}
			doFinished := !(a == 2 || a == 3 || a == 0)
			undoFinished := a == 8 || a == 1 || a == 9
			if (doFinished && w5.do[id] != 0) || (undoFinished && w5.undo[id] != 0) || (a == 3 && w5.do[id] < 1) || (a == 7 && w5.undo[id] < 1) {
				class = "other"
			}
			if c04Lookup(finS, id) != c04Lookup(r.FinalB, id) {
				if b != 5 {
					class = "other"
				} else if class == "same" {
					class = "abort-only"
				}
			}
			if b == 7 {
				tags["graceful-stop-while-undoing"] = true
			}
			if b == 3 {
				tags["graceful-stop-while-doing"] = true
			}
		}
		stopItems = append(stopItems, "(SObs "+vh.CoqNat(r.J)+" "+c04Pairs(before)+" "+c04Pairs(after)+" "+c04Pairs(finS)+" "+c04Pairs(r.FinalB)+" "+c04Pairs(dos)+" "+c04Pairs(undos)+")")
		stopObs = append(stopObs, map[string]interface{}{"j": r.J, "before": before, "after": after, "final_stop": finS, "final_baseline": r.FinalB,
			"dos": dos, "undos": undos, "class": class})
	}

	// every handler start of the run without restart: is the step it recorded in the payload a crash would have found right
	// after it released the lock?
	var relItems []string
	var relObs [][2]interface{}
	w.mu.Lock()
	rels := append([]c04Release(nil), w.rels...)
	w.mu.Unlock()
	sort.Slice(rels, func(i, j int) bool { return rels[i].Payload < rels[j].Payload || (rels[i].Payload == rels[j].Payload && rels[i].ID < rels[j].ID) })
	for _, rl := range rels {
		ok := false
		if rl.Payload >= 0 {
			var p struct {
				Tasks map[string]struct {
					Data map[string]json.RawMessage `json:"data"`
				} `json:"tasks"`
			}
			if err := json.Unmarshal(be.payloads[rl.Payload], &p); err != nil {
				panic(err)
			}
			_, ok = p.Tasks[rl.ID].Data[rl.Key]
		}
		if !ok {
			tags["recorded-step-missing-from-last-payload"] = true
		}
		idn, _ := strconv.Atoi(rl.ID)
		relItems = append(relItems, "("+vh.CoqN(uint64(idn))+", "+vh.CoqBool(ok)+")")
		relObs = append(relObs, [2]interface{}{rl.ID + ":" + rl.Key + "@payload" + strconv.Itoa(rl.Payload), ok})
	}
	var graph, acts []string
	chain := true
	for i := 0; i < n; i++ {
		graph = append(graph, "("+vh.CoqN(uint64(i+1))+", "+c04NL(in.Waits[i])+")")
		if i > 0 {
			has := false
			for _, x := range in.Waits[i] {
				if x == i {
					has = true
				}
			}
			if !has {
				chain = false
			}
		}
	}
	for _, a := range w.acts {
		if a.F == 0 {
			acts = append(acts, "AE")
		} else {
			acts = append(acts, "(AF "+vh.CoqN(uint64(a.F))+")")
		}
	}
	coq := "(Case " + vh.CoqList(graph) + " (mkCfg " + c04NL(in.Fail) + " " + c04NL(in.NoUndo) + ") " + vh.CoqList(acts) + " " +
		c04Pairs(final) + " " + vh.CoqList(items) + " " + vh.CoqList(relItems) + " " + vh.CoqList(stopItems) + ")"
	if len(in.Fail) > 0 {
		tags["failure"] = true
	}
	if len(in.NoUndo) > 0 {
		tags["no-undo-handler"] = true
	}
	if len(in.Unlocker) > 0 {
		tags["handler-releases-through-Unlocker"] = true
	}
	if chain {
		tags["chain"] = true
	} else {
		tags["parallel"] = true
	}
	tags["tasks="+strconv.Itoa(n)] = true
	var tl []string
	for t := range tags {
		tl = append(tl, t)
	}
	sort.Strings(tl)
	obs := map[string]interface{}{"final": final, "checkpoints": be.count(), "actions": w.acts, "restarts": rs, "releases": relObs, "stops": stopObs}
	return vh.Out{Observed: obs, Coq: coq, NonTrivial: tags["restart-while-doing"] || tags["restart-while-undoing"], Tags: tl}
}

func c04Gen(r *vh.Rand, tier string, n int) []c04In {
	if n == 0 {
		n = 40
	}
	every := 1 // every action boundary is a crash point (the runs are cheap); the field stays for replays
	// the recorded class (KNOWN_FINDINGS restart-with-task-in-abort): two parallel failing tasks, crash after the first
	// has failed and aborted the second one, whose handler is still running
	ins := []c04In{{Waits: [][]int{{}, {}}, Fail: []int{1, 2}, NoUndo: []int{}, Points: []int{2}}}
	for i := 0; i < n; i++ {
		chain := i%2 == 0
		nt := r.Range(1, 5)
		if !chain {
			nt = r.Range(2, 4)
		}
		in := c04In{Every: every, Off: i % every}
		for j := 1; j <= nt; j++ {
			w := []int{}
			if chain {
				if j > 1 {
					w = append(w, j-1)
					for k := 1; k < j-1; k++ {
						if r.Chance(1, 3) {
							w = append(w, k)
						}
					}
				}
			} else {
				for k := 1; k < j; k++ {
					if r.Chance(2, 5) {
						w = append(w, k)
					}
				}
			}
			in.Waits = append(in.Waits, w)
			if r.Chance(1, 4) {
				in.NoUndo = append(in.NoUndo, j)
			}
			if r.Chance(1, 2) {
				in.Unlocker = append(in.Unlocker, j)
			}
		}
		if r.Chance(2, 3) {
			in.Fail = append(in.Fail, r.Range(1, nt))
			if r.Chance(1, 4) {
				in.Fail = append(in.Fail, r.Range(1, nt))
			}
		}
		if in.Fail == nil {
			in.Fail = []int{}
		}
		if in.NoUndo == nil {
			in.NoUndo = []int{}
		}
		ins = append(ins, in)
	}
	return ins
}

func TestVerifC04Restart(t *testing.T) { vh.Run(c04Gen, c04Exec) }

// ---------------------------------------------------------------- second driver: the checkpoint discipline
// The runner model (and the restart runs above) assume that the store holds the payload of the LAST unlock. This driver
// observes on the real State.Unlock that every Backend.Checkpoint call happens with the state lock held and that the writes
// complete in unlock order, under concurrent lock/modify/unlock cycles, a running TaskRunner and pseudo-randomly slow writes.

type c04oIn struct {
	Mutators int    `json:"mutators"`
	Cycles   int    `json:"cycles"`
	Tasks    int    `json:"tasks"`
	Sleep    uint64 `json:"sleep"` // seed of the per-call write delays
	Unlockers int   `json:"unlockers"` // the first Unlockers goroutines (and the handlers of odd tasks) release through st.Unlocker()
}

type c04oBackend struct {
	st        *State
	seed      uint64
	mu        sync.Mutex
	calls     int
	locked    []bool
	completed []int
	maxDone   int
	last      []byte
	failed    []int    // markers of the payloads whose write the Backend made fail, in order
	retries   [][2]int // (failed marker, marker of the next completed write)
	pendingFail bool
	failMarker  int
}

func (b *c04oBackend) maxCompleted() int {
	b.mu.Lock()
	defer b.mu.Unlock()
	return b.maxDone
}

type c04oPayload struct {
	Data  map[string]json.RawMessage `json:"data"`
	Tasks map[string]struct {
		Status int `json:"status"`
	} `json:"tasks"`
}

func c04oParse(d []byte) (seq int, sts [][2]int) {
	var p c04oPayload
	if err := json.Unmarshal(d, &p); err != nil {
		panic(err)
	}
	if raw, ok := p.Data["seq"]; ok {
		json.Unmarshal(raw, &seq)
	}
	for id, t := range p.Tasks {
		n, _ := strconv.Atoi(id)
		s := t.Status
		if s == 0 {
			s = 2
		}
		sts = append(sts, [2]int{n, s})
	}
	sort.Slice(sts, func(i, j int) bool { return sts[i][0] < sts[j][0] })
	return seq, sts
}

func (b *c04oBackend) Checkpoint(d []byte) error {
	b.mu.Lock()
	k := b.calls
	b.calls++
	b.mu.Unlock()
	// is the state lock held while the checkpoint is being written? (the caller is the holder: TryLock must fail)
	held := true
	if b.st.mu.TryLock() {
		held = false
		b.st.mu.Unlock()
	}
	seq, _ := c04oParse(d)
	// a slow write now and then
	if ms := vh.NewRand(b.seed + uint64(k)).Intn(5); ms > 1 {
		time.Sleep(time.Duration(ms-1) * time.Millisecond)
	}
	// now and then the write fails: State.Unlock must retry the same payload with the lock still held
	if vh.NewRand(b.seed*31+uint64(k)).Intn(9) == 0 {
		b.mu.Lock()
		b.locked = append(b.locked, held)
		if !b.pendingFail {
			b.pendingFail, b.failMarker = true, seq
		}
		b.mu.Unlock()
		return errors.New("checkpoint failed (injected)")
	}
	b.mu.Lock()
	if b.pendingFail {
		b.retries = append(b.retries, [2]int{b.failMarker, seq})
		b.pendingFail = false
	}
	b.locked = append(b.locked, held)
	b.completed = append(b.completed, seq)
	if seq > b.maxDone {
		b.maxDone = seq
	}
	b.last = append([]byte(nil), d...)
	b.mu.Unlock()
	return nil
}
func (b *c04oBackend) EnsureBefore(time.Duration) {}

func c04oExec(in c04oIn) vh.Out {
	// retry a failed checkpoint after 1 ms instead of 3 s
	oldInterval := unlockCheckpointRetryInterval
	unlockCheckpointRetryInterval = time.Millisecond
	defer func() { unlockCheckpointRetryInterval = oldInterval }()
	be := &c04oBackend{seed: in.Sleep}
	st := New(be)
	be.st = st
	seq := 0 // guarded by the state lock
	bump := func() int {
		seq++
		st.Set("seq", seq)
		return seq
	}
	var unpersisted int32
	// modify, release (through Unlock or through Unlocker), then: a completed write must contain the modification
	cycle := func(viaUnlocker bool) {
		st.Lock()
		mine := bump()
		if viaUnlocker {
			relock := st.Unlocker()()
			if be.maxCompleted() < mine {
				atomic.AddInt32(&unpersisted, 1)
			}
			relock()
			st.Unlock()
		} else {
			st.Unlock()
			if be.maxCompleted() < mine {
				atomic.AddInt32(&unpersisted, 1)
			}
		}
	}
	st.Lock()
	chg := st.NewChange("c", "s")
	var prev *Task
	for i := 0; i < in.Tasks; i++ {
		t := st.NewTask("k", "s")
		if prev != nil {
			t.WaitFor(prev)
		}
		chg.AddTask(t)
		prev = t
	}
	bump()
	st.Unlock()
	r := NewTaskRunner(st)
	r.AddHandler("k", func(t *Task, _ *tomb.Tomb) error {
		id, _ := strconv.Atoi(t.ID())
		cycle(in.Unlockers > 0 && id%2 == 1)
		return nil
	}, nil)
	var wg sync.WaitGroup
	for m := 0; m < in.Mutators; m++ {
		wg.Add(1)
		via := m < in.Unlockers
		go func() {
			defer wg.Done()
			for i := 0; i < in.Cycles; i++ {
				cycle(via)
			}
		}()
	}
	for i := 0; i < 4*in.Tasks+4; i++ {
		r.Ensure()
		r.Wait()
	}
	wg.Wait()
	r.Stop()
	st.Lock()
	newest := seq
	st.unlock()
	mem := c04Statuses(st)
	be.mu.Lock()
	locked, completed, last, retries := be.locked, be.completed, be.last, be.retries
	be.mu.Unlock()
	rt := make([]string, len(retries))
	badRetries := 0
	for i, p := range retries {
		rt[i] = "(" + vh.CoqN(uint64(p[0])) + ", " + vh.CoqN(uint64(p[1])) + ")"
		if p[0] != p[1] {
			badRetries++
		}
	}
	_, lastSts := c04oParse(last)
	lb := make([]string, len(locked))
	outOfLock := 0
	for i, b := range locked {
		lb[i] = vh.CoqBool(b)
		if !b {
			outOfLock++
		}
	}
	outOfOrder := 0
	for i := 1; i < len(completed); i++ {
		if completed[i] < completed[i-1] {
			outOfOrder++
		}
	}
	coq := "(OCase " + vh.CoqList(lb) + " " + c04NL(completed) + " " + vh.CoqN(uint64(newest)) + " " + c04Pairs(mem) + " " + c04Pairs(lastSts) + " " + vh.CoqN(uint64(unpersisted)) + " " + vh.CoqList(rt) + ")"
	var tags []string
	if outOfLock > 0 {
		tags = append(tags, "checkpoint-written-outside-the-state-lock")
	}
	if outOfOrder > 0 {
		tags = append(tags, "checkpoints-out-of-order")
	}
	if unpersisted > 0 {
		tags = append(tags, "release-without-checkpoint")
	}
	if in.Unlockers > 0 {
		tags = append(tags, "releases-through-Unlocker")
	}
	if len(retries) > 0 {
		tags = append(tags, "checkpoint-failed-and-retried")
	}
	if badRetries > 0 {
		tags = append(tags, "something-written-between-failure-and-retry")
	}
	tags = append(tags, "mutators="+strconv.Itoa(in.Mutators))
	obs := map[string]interface{}{"checkpoints": len(completed), "outside_lock": outOfLock, "out_of_order": outOfOrder, "unpersisted": unpersisted, "retries": retries,
		"completed": completed, "newest": newest, "memory": mem, "last_written": lastSts}
	return vh.Out{Observed: obs, Coq: coq, NonTrivial: len(completed) > 5, Tags: tags}
}

func c04oGen(r *vh.Rand, tier string, n int) []c04oIn {
	if n == 0 {
		n = 12
	}
	var ins []c04oIn
	for i := 0; i < n; i++ {
		m := r.Range(1, 3)
		ins = append(ins, c04oIn{Mutators: m, Cycles: r.Range(4, 12), Tasks: r.Range(1, 3), Sleep: r.U64() % 100000, Unlockers: r.Intn(m + 1)})
	}
	return ins
}

func TestVerifC04CkptOrder(t *testing.T) { vh.Run(c04oGen, c04oExec) }
