//go:build verif

package state

// Accessors for the C07 driver (zz_verif_c07_test.go, package state_test). Test-only: this file is only ever part of
// the verification build through go -overlay.

// VerifBlockedEach evaluates every predicate registered with AddBlocked/SetBlocked, in registration order.
// The caller holds the state lock.
func VerifBlockedEach(r *TaskRunner, t *Task, running []*Task) []bool {
	out := make([]bool, 0, len(r.blocked))
	for _, blocked := range r.blocked {
		out = append(out, blocked(t, running))
	}
	return out
}

// VerifTombIDs returns the ids of the tasks that have a tomb (a do/undo or cleanup goroutine).
// The caller must not hold the state lock (lock order: r.mu, then state).
func VerifTombIDs(r *TaskRunner) []string {
	r.mu.Lock()
	defer r.mu.Unlock()
	ids := make([]string, 0, len(r.tombs))
	for id := range r.tombs {
		ids = append(ids, id)
	}
	return ids
}

// VerifSomeBlocked returns r.someBlocked (set by Ensure when a predicate blocked a candidate).
// The caller must not hold the state lock.
func VerifSomeBlocked(r *TaskRunner) bool {
	r.mu.Lock()
	defer r.mu.Unlock()
	return r.someBlocked
}
