//go:build verif

// Driver for C07. One real state.TaskRunner with the four real managers that register blocked predicates
// (hookstate.Manager, snapstate.Manager, ifacestate.Manager, devicestate.Manager, constructed in a temporary root).
//   TestVerifC07Blocked: evaluates the registered predicates (state.VerifBlockedEach) on generated candidate /
//     running sets and prints the verdict of each predicate.
//   TestVerifC07Run: re-registers the task kinds of interest with stub handlers that block until released, spawns
//     mixed changes, and alternates TaskRunner.Ensure with completions in a generated order; prints every Ensure pass
//     (tombs before, handlers after, runnable tasks left idle) and the set of handlers executing whenever one starts.
// Cases are Coq terms of type V.models.Blocked.case.
package state_test

import (
	"fmt"
	"os"
	"sort"
	"strconv"
	"strings"
	"sync"
	"testing"
	"time"

	"gopkg.in/tomb.v2"

	"github.com/snapcore/snapd/dirs"
	"github.com/snapcore/snapd/overlord/devicestate"
	"github.com/snapcore/snapd/overlord/hookstate"
	"github.com/snapcore/snapd/overlord/ifacestate"
	"github.com/snapcore/snapd/overlord/snapstate"
	"github.com/snapcore/snapd/overlord/state"
	"github.com/snapcore/snapd/zzverif/vh"
)

// index = Blocked.kd
var c07Kinds = []string{"run-hook", "prerequisites", "update-gadget-assets", "connect", "disconnect", "setup-profiles",
	"auto-connect", "hotplug-seq-wait", "verif-other", "remove-profiles", "discard-conns", "hotplug-connect",
	"transition-ubuntu-core", "auto-disconnect", "copy-snap-data"}

const c07CleanupKind = 14 // copy-snap-data: snapstate registers a cleanup handler for it

// index = Blocked.sn
var c07Snaps = []string{"snap-a", "snap-b", "snap-c"}

type c07Task struct {
	Kind int `json:"kind"` // index into c07Kinds
	// -1: no hook-setup; 0..2: hook-setup with that snap; -2: hook-setup that does not unmarshal into HookSetup
	Snap int `json:"snap"`
	// Later: scheduled (Task.At) an hour ahead, so Ensure skips it and its change stays unready
	Later bool `json:"later,omitempty"`
}

type c07World struct {
	st     *state.State
	runner *state.TaskRunner
}

func c07NewWorld() *c07World { return c07NewWorldOrder(false) }

// reversed: after hookstate (needed by the others) the managers are constructed in the order devicestate, ifacestate,
// snapstate, so that the predicates are registered as [hook, gadget, iface, prerequisites]
func c07NewWorldOrder(reversed bool) *c07World {
	root, err := os.MkdirTemp(os.Getenv("VERIF_SCRATCH_DIR"), "c07root")
	if err != nil {
		panic(err)
	}
	dirs.SetRootDir(root)
	st := state.New(nil)
	return &c07World{st: st, runner: c07NewRunner(st, reversed)}
}

// a fresh TaskRunner over the given state with the four real managers (what a snapd restart does)
func c07NewRunner(st *state.State, reversed bool) *state.TaskRunner {
	runner := state.NewTaskRunner(st)
	// registration order = order of Blocked.verdicts
	hookMgr, err := hookstate.Manager(st, runner)
	if err != nil {
		panic(err)
	}
	mk := []func() error{
		func() error { _, err := snapstate.Manager(st, runner); return err },
		func() error { _, err := ifacestate.Manager(st, hookMgr, runner, nil, nil); return err },
		func() error { _, err := devicestate.Manager(st, hookMgr, runner, nil); return err },
	}
	if reversed {
		mk[0], mk[2] = mk[2], mk[0]
	}
	for _, f := range mk {
		if err := f(); err != nil {
			panic(err)
		}
	}
	return runner
}

// caller holds the state lock
func (w *c07World) newTask(d c07Task) *state.Task {
	t := w.st.NewTask(c07Kinds[d.Kind], "verif")
	switch {
	case d.Snap >= 0:
		t.Set("hook-setup", &hookstate.HookSetup{Snap: c07Snaps[d.Snap], Hook: "configure"})
	case d.Snap == -2:
		t.Set("hook-setup", "not-an-object")
	}
	if d.Later {
		t.At(time.Now().Add(time.Hour))
	}
	return t
}

func c07Coq(id string, d c07Task) string {
	n, err := strconv.ParseUint(id, 10, 64)
	if err != nil {
		panic(err)
	}
	snap := "None"
	if d.Snap >= 0 {
		snap = fmt.Sprintf("(Some (sn %d))", d.Snap)
	}
	return fmt.Sprintf("(mkT %d (kd %d) %s)", n, d.Kind, snap)
}

func c07GenTask(r *vh.Rand) c07Task {
	d := c07Task{Snap: -1}
	switch r.Intn(10) {
	case 0, 1, 2:
		d.Kind = 0
	case 3:
		d.Kind = 1
	case 4:
		d.Kind = 2
	case 5, 6:
		d.Kind = []int{3, 4, 5, 6, 9, 10, 11, 12, 13}[r.Intn(9)]
	default:
		d.Kind = r.Intn(len(c07Kinds))
	}
	if d.Kind == 0 {
		switch r.Intn(8) {
		case 0:
			d.Snap = -1
		case 1:
			d.Snap = -2
		default:
			d.Snap = r.Intn(2)
		}
	} else if r.Chance(1, 10) {
		d.Snap = r.Intn(2) // a hook-setup on a task that is not run-hook is ignored
	}
	return d
}

// ---------------------------------------------------------------- (a) predicate verdicts

type c07BIn struct {
	Cand    c07Task   `json:"cand"`
	Running []c07Task `json:"running"`
}

func c07BGen(r *vh.Rand, tier string, n int) []c07BIn {
	var ins []c07BIn
	// every candidate kind against every single running kind (hook tasks with snap a / b / none)
	var basic []c07Task
	for k := range c07Kinds {
		basic = append(basic, c07Task{Kind: k, Snap: -1})
	}
	basic = append(basic, c07Task{Kind: 0, Snap: 0}, c07Task{Kind: 0, Snap: 1}, c07Task{Kind: 0, Snap: -2}, c07Task{Kind: 3, Snap: 0})
	for _, c := range basic {
		ins = append(ins, c07BIn{Cand: c})
		for _, u := range basic {
			ins = append(ins, c07BIn{Cand: c, Running: []c07Task{u}})
		}
	}
	if n <= 0 {
		n = 500
	}
	for i := 0; i < n; i++ {
		rr := r.Fork()
		in := c07BIn{Cand: c07GenTask(rr)}
		for k := rr.Intn(5); k > 0; k-- {
			in.Running = append(in.Running, c07GenTask(rr))
		}
		ins = append(ins, in)
	}
	return ins
}

func TestVerifC07Blocked(t *testing.T) {
	w := c07NewWorld()
	exec := func(in c07BIn) vh.Out {
		w.st.Lock()
		defer w.st.Unlock()
		cand := w.newTask(in.Cand)
		var running []*state.Task
		var coqRun []string
		for _, d := range in.Running {
			u := w.newTask(d)
			running = append(running, u)
			coqRun = append(coqRun, c07Coq(u.ID(), d))
		}
		verdicts := state.VerifBlockedEach(w.runner, cand, running)
		items := make([]string, len(verdicts))
		any := false
		for i, v := range verdicts {
			items[i] = vh.CoqBool(v)
			any = any || v
		}
		tags := []string{"blocked-" + strconv.FormatBool(any), "cand-" + c07Kinds[in.Cand.Kind]}
		return vh.Out{Observed: verdicts, Coq: "(CBlocked " + c07Coq(cand.ID(), in.Cand) + " " + vh.CoqList(coqRun) + " " + vh.CoqList(items) + ")",
			NonTrivial: any, Tags: tags}
	}
	vh.Run(c07BGen, exec)
	os.RemoveAll(dirs.GlobalRootDir)
}

// the same inputs against a runner whose predicates were registered in another order: only the disjunction is compared
func TestVerifC07BlockedOrder(t *testing.T) {
	w := c07NewWorldOrder(true)
	exec := func(in c07BIn) vh.Out {
		w.st.Lock()
		defer w.st.Unlock()
		cand := w.newTask(in.Cand)
		var running []*state.Task
		var coqRun []string
		for _, d := range in.Running {
			u := w.newTask(d)
			running = append(running, u)
			coqRun = append(coqRun, c07Coq(u.ID(), d))
		}
		any := false
		for _, v := range state.VerifBlockedEach(w.runner, cand, running) {
			any = any || v
		}
		return vh.Out{Observed: any, Coq: "(CBlockedAny " + c07Coq(cand.ID(), in.Cand) + " " + vh.CoqList(coqRun) + " " + vh.CoqBool(any) + ")",
			NonTrivial: any, Tags: []string{"order-blocked-" + strconv.FormatBool(any)}}
	}
	vh.Run(c07BGen, exec)
	os.RemoveAll(dirs.GlobalRootDir)
}

// ---------------------------------------------------------------- (b) real Ensure passes with stub handlers

type c07Step struct {
	Ensure bool `json:"ensure,omitempty"`
	Finish int  `json:"finish,omitempty"` // when no other field is set: finish the (Finish mod n)-th goroutine (sorted by task id)
	Spawn  *int `json:"spawn,omitempty"`  // create the deferred change with this index
	Abort  *int `json:"abort,omitempty"`  // Change.Abort() on the change with this index
	Fail   bool `json:"fail,omitempty"`   // with Finish: the handler returns an error (TaskRunner aborts the task's lanes)
	// Guarded: with Abort, skip the abort when a task of the change is already Done (Change.Abort on such a change can
	// panic in this snapd version, finding 11 of DESIGN.md; not this property's business)
	Guarded bool `json:"guarded,omitempty"`
	// Restart: snapd restarts - a fresh TaskRunner (and managers) over the same state; the goroutines of the old runner
	// are gone (their stubs stay parked for ever), tasks in Doing are run again
	Restart bool `json:"restart,omitempty"`
	// SetBlocked: TaskRunner.SetBlocked with the driver's predicate 0 (never blocked) or 1 (one task at a time)
	SetBlocked *int `json:"setblocked,omitempty"`
}

type c07RIn struct {
	Changes [][]c07Task `json:"changes"`
	Chain   []bool      `json:"chain"` // per change: tasks wait for the previous one
	Steps   []c07Step   `json:"steps"`
	// Deferred: per change, created by a Spawn step instead of at the start (may be shorter than Changes)
	Deferred []bool `json:"deferred,omitempty"`
	// Mode "cleanup": the scenario is evaluated by the cleanup monitor (a cleanup goroutine next to a running
	// update-gadget-assets handler) instead of the handler-exclusion monitor
	Mode string `json:"mode,omitempty"`
}

func c07Int(i int) *int { return &i }

// the two scripted reproductions of "a cleanup goroutine runs next to update-gadget-assets" on the real runner
func c07Scripted(mode string) []c07RIn {
	a := c07Task{Kind: c07CleanupKind, Snap: -1}
	gd := c07Task{Kind: 2, Snap: -1}
	h := c07Task{Kind: 8, Snap: -1, Later: true}
	return []c07RIn{
		// same pass: change 0 became ready (its copy-snap-data task is done, not yet cleaned); the next Ensure starts its
		// cleanup (not added to `running`) and, `running` being empty, also update-gadget-assets of change 1
		{Mode: mode, Changes: [][]c07Task{{a}, {gd}}, Chain: []bool{false, false}, Deferred: []bool{false, true},
			Steps: []c07Step{{Ensure: true}, {Finish: 0}, {Spawn: c07Int(1)}, {Ensure: true}}},
		// later pass: update-gadget-assets is already executing; change 0 (done copy-snap-data task + a task scheduled
		// for later) is aborted by the user, becomes ready, and the next Ensure starts the cleanup next to the gadget update
		{Mode: mode, Changes: [][]c07Task{{a, h}, {gd}}, Chain: []bool{false, false}, Deferred: []bool{false, true},
			Steps: []c07Step{{Ensure: true}, {Finish: 0}, {Spawn: c07Int(1)}, {Ensure: true}, {Abort: c07Int(0)}, {Ensure: true}, {Ensure: true}}},
	}
}

// A serialized handler is executing, its change is aborted by the user or its lane by a failing sibling task (the task
// gets Abort status, its tomb is killed, the handler keeps executing), and a conflicting task of another change is
// runnable during the following Ensure passes: it must stay blocked until the first handler has returned.
func c07AbortFamily() []c07RIn {
	hook := func(snap int) c07Task { return c07Task{Kind: 0, Snap: snap} }
	k := func(kind int) c07Task { return c07Task{Kind: kind, Snap: -1} }
	sib := k(8) // verif-other
	pairs := [][2]c07Task{
		{hook(0), hook(0)}, // two hooks of one snap
		{k(3), k(4)},       // connect / disconnect
		{k(5), k(6)},       // setup-profiles / auto-connect
		{k(1), k(1)},       // two prerequisites
		{k(2), sib},        // update-gadget-assets executing, anything else
		{sib, k(2)},        // anything executing, update-gadget-assets
		{k(2), k(2)},
		{hook(0), k(2)},
	}
	var ins []c07RIn
	for _, p := range pairs {
		x, y := p[0], p[1]
		// both tasks in ONE change, independent of each other: `running` also contains tasks of the candidate's own change
		ins = append(ins, c07RIn{Changes: [][]c07Task{{x, y}}, Chain: []bool{false},
			Steps: []c07Step{{Ensure: true}, {Ensure: true}, {Finish: 0}, {Ensure: true}, {Ensure: true}}})
		// snapd restarts while X executes: the fresh runner has no goroutine, X (Doing) and Y are both candidates again and
		// exactly one of them is started; after it is done the other one runs
		ins = append(ins, c07RIn{Changes: [][]c07Task{{x}, {y}}, Chain: []bool{false, false}, Deferred: []bool{false, true},
			Steps: []c07Step{{Ensure: true}, {Spawn: c07Int(1)}, {Restart: true}, {Ensure: true}, {Ensure: true}, {Finish: 0}, {Ensure: true}, {Ensure: true}}})
		// aborted by the user
		ins = append(ins, c07RIn{Changes: [][]c07Task{{x}, {y}}, Chain: []bool{false, false}, Deferred: []bool{false, true},
			Steps: []c07Step{{Ensure: true}, {Spawn: c07Int(1)}, {Abort: c07Int(0)}, {Ensure: true}, {Ensure: true}, {Finish: 0}, {Ensure: true}, {Ensure: true}}})
		// lane aborted because a sibling task of the same change fails (not possible next to update-gadget-assets,
		// which runs alone)
		if c07Kinds[x.Kind] != "update-gadget-assets" {
			ins = append(ins, c07RIn{Changes: [][]c07Task{{x, sib}, {y}}, Chain: []bool{false, false}, Deferred: []bool{false, true},
				Steps: []c07Step{{Ensure: true}, {Spawn: c07Int(1)}, {Finish: 1, Fail: true}, {Ensure: true}, {Ensure: true}, {Finish: 0}, {Ensure: true}, {Ensure: true}}})
		}
	}
	return ins
}

func c07RGen(r *vh.Rand, tier string, n int) []c07RIn { return c07RGenMode(r, n, "") }

func c07RGenMode(r *vh.Rand, n int, mode string) []c07RIn {
	ins := c07Scripted(mode)
	if mode == "setblocked" {
		// SetBlocked replaces the registered predicates: never blocked / one task at a time; then a restart restores them
		for _, k := range []int{0, 1} {
			hook := c07Task{Kind: 0, Snap: 0}
			ins = append(ins, c07RIn{Mode: mode, Changes: [][]c07Task{{hook, {Kind: 3, Snap: -1}, {Kind: 8, Snap: -1}}, {hook, {Kind: 4, Snap: -1}, {Kind: 2, Snap: -1}}},
				Chain: []bool{false, false},
				Steps: []c07Step{{SetBlocked: c07Int(k)}, {Ensure: true}, {Ensure: true}, {Finish: 0}, {Ensure: true}, {Restart: true}, {Ensure: true}, {Finish: 0}, {Ensure: true}}})
		}
	}
	if mode == "" {
		ins = append(ins, c07AbortFamily()...)
	}
	if n <= 0 {
		n = 60
	}
	for i := 0; i < n; i++ {
		rr := r.Fork()
		in := c07RIn{Mode: mode}
		for c := rr.Range(1, 5); c > 0; c-- {
			var ts []c07Task
			for k := rr.Range(1, 4); k > 0; k-- {
				ts = append(ts, c07GenTask(rr))
			}
			in.Changes = append(in.Changes, ts)
			in.Chain = append(in.Chain, rr.Chance(1, 3))
		}
		if mode == "cleanup" || rr.Chance(1, 2) { // a one-task change whose task has a cleanup handler, so that cleanups get started
			in.Changes = append(in.Changes, []c07Task{{Kind: c07CleanupKind, Snap: -1}})
			in.Chain = append(in.Chain, false)
		}
		if mode == "setblocked" {
			in.Steps = append(in.Steps, c07Step{SetBlocked: c07Int(rr.Intn(2))})
		}
		in.Steps = append(in.Steps, c07Step{Ensure: true})
		for k := rr.Range(4, 24); k > 0; k-- {
			switch x := rr.Intn(20); {
			case x < 8:
				in.Steps = append(in.Steps, c07Step{Ensure: true})
			case x < 10: // user abort, usually while handlers of the change are executing
				in.Steps = append(in.Steps, c07Step{Abort: c07Int(rr.Intn(len(in.Changes))), Guarded: true}, c07Step{Ensure: true})
			case x == 19 && rr.Chance(1, 2): // snapd restarts
				in.Steps = append(in.Steps, c07Step{Restart: true}, c07Step{Ensure: true})
			case x < 12: // a handler fails: its lane(s) are aborted
				in.Steps = append(in.Steps, c07Step{Finish: rr.Intn(8), Fail: true}, c07Step{Ensure: true})
			default:
				in.Steps = append(in.Steps, c07Step{Finish: rr.Intn(8)})
			}
		}
		ins = append(ins, in)
	}
	return ins
}

type c07Reg struct {
	mu        sync.Mutex
	desc      map[string]c07Task       // task id -> description
	waiting   map[string]chan struct{} // goroutines (handler or cleanup) blocked in a stub, by task id
	executing map[string]bool          // do/undo handlers executing
	failing   map[string]bool          // handlers told to return an error when released
	snapshots []string                 // Coq CExec cases
}

func (g *c07Reg) coqSet(ids map[string]bool) string {
	var l []string
	for id := range ids {
		l = append(l, id)
	}
	sort.Slice(l, func(i, j int) bool { a, _ := strconv.Atoi(l[i]); b, _ := strconv.Atoi(l[j]); return a < b })
	items := make([]string, len(l))
	for i, id := range l {
		items[i] = c07Coq(id, g.desc[id])
	}
	return vh.CoqList(items)
}

func c07WaitFor(what string, cond func() bool) {
	deadline := time.Now().Add(20 * time.Second)
	for !cond() {
		if time.Now().After(deadline) {
			panic("timeout waiting for " + what)
		}
		time.Sleep(200 * time.Microsecond)
	}
}

func c07RExec(in c07RIn) vh.Out {
	w := c07NewWorld()
	g := &c07Reg{desc: map[string]c07Task{}, waiting: map[string]chan struct{}{}, executing: map[string]bool{}, failing: map[string]bool{}}
	block := func(id string, tb *tomb.Tomb) {
		g.mu.Lock()
		ch := make(chan struct{})
		g.waiting[id] = ch
		g.mu.Unlock()
		// the stub does not watch tb.Dying(): like a real handler in the middle of its work it keeps executing after its
		// task was aborted (Ensure only calls tomb.Kill), until the driver releases it
		<-ch
		g.mu.Lock()
		delete(g.waiting, id)
		g.mu.Unlock()
	}
	stub := func(t *state.Task, tb *tomb.Tomb) error {
		id := t.ID()
		g.mu.Lock()
		g.executing[id] = true
		g.snapshots = append(g.snapshots, "(CExec "+g.coqSet(g.executing)+")")
		g.mu.Unlock()
		block(id, tb)
		g.mu.Lock()
		delete(g.executing, id)
		fail := g.failing[id]
		g.mu.Unlock()
		if fail {
			return fmt.Errorf("verif: handler of task %s fails", id)
		}
		return nil
	}
	cleanup := func(t *state.Task, tb *tomb.Tomb) error {
		block(t.ID(), tb)
		return nil
	}
	register := func() {
		for _, k := range c07Kinds {
			w.runner.AddHandler(k, stub, nil)
		}
		w.runner.AddCleanup(c07Kinds[c07CleanupKind], cleanup)
	}
	register()
	predMode := -1 // >= 0 after SetBlocked

	chgs := make([]*state.Change, len(in.Changes))
	spawn := func(ci int) { // caller holds the state lock
		if ci < 0 || ci >= len(in.Changes) || chgs[ci] != nil {
			return
		}
		chg := w.st.NewChange("verif", "verif")
		chgs[ci] = chg
		var prev *state.Task
		for _, d := range in.Changes[ci] {
			t := w.newTask(d)
			g.mu.Lock()
			g.desc[t.ID()] = d
			g.mu.Unlock()
			if ci < len(in.Chain) && in.Chain[ci] && prev != nil {
				t.WaitFor(prev)
			}
			chg.AddTask(t)
			prev = t
		}
	}
	w.st.Lock()
	for ci := range in.Changes {
		if ci < len(in.Deferred) && in.Deferred[ci] {
			continue
		}
		spawn(ci)
	}
	w.st.Unlock()

	tombIDs := func() map[string]bool {
		m := map[string]bool{}
		for _, id := range state.VerifTombIDs(w.runner) {
			m[id] = true
		}
		return m
	}
	var cases []string
	tags := map[string]bool{}
	nontrivial := false
	for _, s := range in.Steps {
		if s.Spawn != nil {
			w.st.Lock()
			spawn(*s.Spawn)
			w.st.Unlock()
			continue
		}
		if s.Restart {
			g.mu.Lock()
			g.waiting = map[string]chan struct{}{}
			g.executing = map[string]bool{}
			g.failing = map[string]bool{}
			g.mu.Unlock()
			w.runner = c07NewRunner(w.st, false)
			register()
			predMode = -1
			tags["restart"] = true
			if len(state.VerifTombIDs(w.runner)) != 0 {
				panic("fresh runner has tombs")
			}
			cases = append(cases, "(CTombs [])")
			continue
		}
		if s.SetBlocked != nil {
			predMode = *s.SetBlocked
			if predMode == 0 {
				w.runner.SetBlocked(func(*state.Task, []*state.Task) bool { return false })
			} else {
				predMode = 1
				w.runner.SetBlocked(func(_ *state.Task, running []*state.Task) bool { return len(running) > 0 })
			}
			tags["setblocked"] = true
			continue
		}
		if s.Abort != nil {
			w.st.Lock()
			if ci := *s.Abort; ci >= 0 && ci < len(chgs) && chgs[ci] != nil {
				ok := true
				executing := false
				for _, t := range chgs[ci].Tasks() {
					if s.Guarded && t.Status() == state.DoneStatus {
						ok = false
					}
					if t.Status() == state.DoingStatus {
						executing = true
					}
				}
				if ok {
					chgs[ci].Abort()
					tags["abort"] = true
					if executing {
						tags["abort-while-handler-executing"] = true
					}
				}
			}
			w.st.Unlock()
			continue
		}
		if s.Ensure {
			before := tombIDs()
			w.st.Lock()
			var coqBefore []string
			runnable := []string{}
			for _, t := range w.st.Tasks() {
				id := t.ID()
				if before[id] {
					continue
				}
				if t.Status() == state.DoingStatus { // no goroutine (restart): run again
					runnable = append(runnable, id)
					tags["doing-rerun-candidate"] = true
				}
				if t.Status() == state.DoStatus {
					ok := t.AtTime().IsZero() || !time.Now().Before(t.AtTime())
					for _, wt := range t.WaitTasks() {
						if wt.Status() != state.DoneStatus {
							ok = false
						}
					}
					if ok {
						runnable = append(runnable, id)
					}
				}
			}
			var bl []string
			for id := range before {
				bl = append(bl, id)
			}
			sort.Slice(bl, func(i, j int) bool { a, _ := strconv.Atoi(bl[i]); b, _ := strconv.Atoi(bl[j]); return a < b })
			for _, id := range bl {
				isCleanup := w.st.Task(id).Status().Ready()
				if isCleanup {
					tags["cleanup-running"] = true
				}
				coqBefore = append(coqBefore, "("+c07Coq(id, g.desc[id])+", "+vh.CoqBool(isCleanup)+")")
			}
			w.st.Unlock()

			if err := w.runner.Ensure(); err != nil {
				panic(err)
			}
			someBlocked := state.VerifSomeBlocked(w.runner)

			after := tombIDs()
			// wait until every goroutine has reached its stub, so that completions can be chosen deterministically
			c07WaitFor("started goroutines to block", func() bool {
				g.mu.Lock()
				defer g.mu.Unlock()
				return len(g.waiting) == len(after)
			})
			w.st.Lock()
			handlersAfter := map[string]bool{}
			var al []string
			for id := range after {
				al = append(al, id)
			}
			sort.Slice(al, func(i, j int) bool { a, _ := strconv.Atoi(al[i]); b, _ := strconv.Atoi(al[j]); return a < b })
			var coqAfter []string
			gadgetRunning, cleanupRunning := false, false
			for _, id := range al {
				isCleanup := w.st.Task(id).Status().Ready()
				if !isCleanup {
					handlersAfter[id] = true
					if c07Kinds[g.desc[id].Kind] == "update-gadget-assets" {
						gadgetRunning = true
					}
				} else {
					cleanupRunning = true
				}
				coqAfter = append(coqAfter, "("+c07Coq(id, g.desc[id])+", "+vh.CoqBool(isCleanup)+")")
			}
			w.st.Unlock()
			if gadgetRunning && cleanupRunning {
				tags["cleanup-next-to-gadget-update"] = true
			}
			cases = append(cases, "(CTombs "+vh.CoqList(coqAfter)+")")
			idle := map[string]bool{}
			for _, id := range runnable {
				if !after[id] {
					idle[id] = true
				}
			}
			if len(idle) > 0 {
				tags["some-blocked"] = true
				nontrivial = true
			}
			if len(handlersAfter) > 1 {
				tags["concurrent-handlers"] = true
			}
			g.mu.Lock()
			head := "(CPass "
			if predMode >= 0 {
				head = fmt.Sprintf("(CPassP %d%%N ", predMode)
			}
			cases = append(cases, head+vh.CoqList(coqBefore)+" "+g.coqSet(handlersAfter)+" "+g.coqSet(idle)+" "+vh.CoqBool(someBlocked)+")")
			g.mu.Unlock()
		} else {
			g.mu.Lock()
			var ids []string
			for id := range g.waiting {
				ids = append(ids, id)
			}
			g.mu.Unlock()
			if len(ids) == 0 {
				continue
			}
			sort.Slice(ids, func(i, j int) bool { a, _ := strconv.Atoi(ids[i]); b, _ := strconv.Atoi(ids[j]); return a < b })
			id := ids[s.Finish%len(ids)]
			g.mu.Lock()
			if s.Fail && g.executing[id] {
				g.failing[id] = true
				tags["handler-fails"] = true
			}
			close(g.waiting[id])
			g.mu.Unlock()
			c07WaitFor("tomb of finished task to go", func() bool { return !tombIDs()[id] })
		}
	}
	g.mu.Lock()
	for _, ch := range g.waiting {
		close(ch)
	}
	g.mu.Unlock()
	w.runner.Stop()
	g.mu.Lock()
	cases = append(cases, g.snapshots...)
	g.mu.Unlock()
	os.RemoveAll(dirs.GlobalRootDir)
	var tl []string
	for t := range tags {
		tl = append(tl, t)
	}
	return vh.Out{Observed: len(cases), Coq: "[" + strings.Join(cases, ";\n    ") + "]", NonTrivial: nontrivial, Tags: tl}
}

func TestVerifC07Run(t *testing.T) { vh.Run(c07RGen, c07RExec) }

// the same scenarios (scripted reproductions first, every random one with a cleanup-capable change), evaluated by the
// cleanup monitor: update-gadget-assets executing while a cleanup goroutine exists
// scenarios in which TaskRunner.SetBlocked replaced the predicate list (compared with the model only: production code
// never calls SetBlocked and the exclusions are not promised then)
func TestVerifC07SetBlocked(t *testing.T) {
	vh.Run(func(r *vh.Rand, tier string, n int) []c07RIn { return c07RGenMode(r, n, "setblocked") }, c07RExec)
}

func TestVerifC07Cleanup(t *testing.T) {
	vh.Run(func(r *vh.Rand, tier string, n int) []c07RIn { return c07RGenMode(r, n, "cleanup") }, c07RExec)
}
