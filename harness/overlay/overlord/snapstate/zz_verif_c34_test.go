//go:build verif

package snapstate_test

// C34 driver, snapstate part: the entry point that applies a device model's pinned kernel / gadget track
// (resolveChannel, reached through export_test.go's ResolveChannel) for every combination of snap (the model's kernel,
// its gadget, its base, an application snap), kernel / gadget track of the model, current channel and requested channel
// over a vocabulary - including every request that spells the current channel. Cases are printed as Coq terms of type
// V.models.Channel.case (constructor CSnap).

import (
	"testing"

	"github.com/snapcore/snapd/overlord/snapstate"
	"github.com/snapcore/snapd/overlord/snapstate/snapstatetest"
	"github.com/snapcore/snapd/zzverif/vh"
)

type c34SnapIn struct {
	Snap   string `json:"snap"` // kernel | brand-gadget | core18 | some-snap
	KTrack string `json:"ktrack,omitempty"`
	GTrack string `json:"gtrack,omitempty"`
	Old    string `json:"old,omitempty"`
	New    string `json:"new,omitempty"`
}

func c34SnapExec(i c34SnapIn) vh.Out {
	over := map[string]interface{}{"base": "core18"}
	if i.KTrack != "" {
		over["kernel"] = "kernel=" + i.KTrack
	}
	if i.GTrack != "" {
		over["gadget"] = "brand-gadget=" + i.GTrack
	}
	model := MakeModel(over)
	deviceCtx := &snapstatetest.TrivialDeviceContext{DeviceModel: model}
	res, err := snapstate.ResolveChannel(i.Snap, i.Old, i.New, deviceCtx)
	obs := map[string]interface{}{"ok": err == nil}
	coqRes := "None"
	if err == nil {
		obs["result"] = res
		coqRes = "(Some " + vh.CoqBytes(res) + ")"
	}
	isKernel, isGadget := i.Snap == model.Kernel(), i.Snap == model.Gadget()
	coq := "(CSnap " + vh.CoqBool(isKernel) + " " + vh.CoqBool(isGadget) + " " + vh.CoqBytes(model.KernelTrack()) + " " +
		vh.CoqBytes(model.GadgetTrack()) + " " + vh.CoqBytes(i.Old) + " " + vh.CoqBytes(i.New) + " " + coqRes + ")"
	pinned := (isKernel && model.KernelTrack() != "") || (isGadget && model.GadgetTrack() != "")
	tags := []string{"snapstate-unpinned"}
	if pinned {
		tags[0] = "snapstate-pinned-refused"
		if err == nil {
			tags[0] = "snapstate-pinned-resolved"
		}
		if i.New != "" && i.New == i.Old {
			tags = append(tags, "snapstate-pinned-request-equals-current")
		}
	}
	return vh.Out{Observed: obs, Coq: coq, NonTrivial: pinned && i.New != "", Tags: tags}
}

func c34SnapGen(r *vh.Rand, tier string, n int) []c34SnapIn {
	type cfg struct{ snap, kt, gt string }
	var cfgs []cfg
	if tier == "thorough" {
		// every combination of tracks for the kernel and the gadget, three each for the base and an application snap
		for _, s := range []string{"kernel", "brand-gadget"} {
			for _, kt := range []string{"", "18", "foo"} {
				for _, gt := range []string{"", "18", "foo"} {
					cfgs = append(cfgs, cfg{s, kt, gt})
				}
			}
		}
		for _, s := range []string{"core18", "some-snap"} {
			cfgs = append(cfgs, cfg{s, "", ""}, cfg{s, "18", "foo"}, cfg{s, "foo", "18"})
		}
	} else {
		cfgs = []cfg{
			{"kernel", "", ""}, {"kernel", "18", ""}, {"kernel", "foo", "18"}, {"kernel", "", "18"},
			{"brand-gadget", "", ""}, {"brand-gadget", "", "18"}, {"brand-gadget", "18", "foo"}, {"brand-gadget", "18", ""},
			{"some-snap", "18", "18"}, {"core18", "18", "foo"},
		}
	}
	olds := []string{"", "stable", "latest/stable", "18/stable", "foo/edge"}
	if tier == "thorough" {
		olds = append(olds, "18/edge/fix")
	}
	words := []string{"", "stable", "edge", "latest", "18", "foo"}
	news := append([]string{}, words...)
	for _, a := range words {
		for _, b := range words {
			news = append(news, a+"/"+b)
		}
	}
	news = append(news, "18/stable/fix", "latest/stable/fix", "foo/stable/fix", "stable/fix", "18/edge/fix", "18x/stable", "1/stable")
	var ins []c34SnapIn
	for _, c := range cfgs {
		for _, o := range olds {
			seen := false
			for _, nw := range news {
				if nw == o {
					seen = true
				}
				ins = append(ins, c34SnapIn{Snap: c.snap, KTrack: c.kt, GTrack: c.gt, Old: o, New: nw})
			}
			if !seen { // the request that spells the current channel is always there
				ins = append(ins, c34SnapIn{Snap: c.snap, KTrack: c.kt, GTrack: c.gt, Old: o, New: o})
			}
		}
	}
	return ins
}

func TestVerifC34Snapstate(t *testing.T) { vh.Run(c34SnapGen, c34SnapExec) }
