//go:build verif

package snapstate

import "time"

// VerifC15SetTimeNow lets the C15 drivers outside this package (overlord/hookstate) set the clock that HoldRefresh and
// HeldSnaps read (the unexported timeNow; MockTimeNow lives in export_test.go and is not visible there). Only part of
// builds made by /verif/check through `go -overlay` with the tag verif; never part of /repo.
func VerifC15SetTimeNow(f func() time.Time) (restore func()) {
	old := timeNow
	timeNow = f
	return func() { timeNow = old }
}
