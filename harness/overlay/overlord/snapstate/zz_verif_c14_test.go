//go:build verif

package snapstate

// C14 driver, direct part: builds synthetic changes (kind, tasks with affected snaps and statuses, snapd downgrade or
// not) in a fresh state and asks the real CheckChangeConflictMany / checkChangeConflictExclusiveKinds /
// checkChangeConflictIgnoringOneChange one question per case. Exhaustive over change kind x readiness x downgrade x
// affected snap x ignore x query for a single change, plus random states with several changes.

import (
	"fmt"
	"sort"
	"strings"
	"testing"

	"github.com/snapcore/snapd/overlord/snapstate/sequence"
	"github.com/snapcore/snapd/overlord/state"
	"github.com/snapcore/snapd/snap"
	"github.com/snapcore/snapd/zzverif/vh"
)

const c14Snapd = 9 // the snap id of snapd in the cases

type c14Task struct {
	Snaps []int `json:"snaps"` // affected snaps: one = snap-setup, several = a registered by-kind function, none = plain task
	Ready bool  `json:"ready"`
	Via   int   `json:"via,omitempty"` // for one snap: 0 snap-setup, 1 snap-setup-task
}

type c14Change struct {
	Kind string `json:"kind"`
	// snapd: 0 no prepare-snap task; 1 prepare-snap of snapd with a lower version (downgrade); 2 with a higher version;
	// 3 with an empty version (counts as downgrade); 4 prepare-snap of another snap
	Snapd      int       `json:"snapd,omitempty"`
	SnapdReady bool      `json:"snapd_ready,omitempty"`
	Tasks      []c14Task `json:"tasks"`
}

type c14Query struct {
	Q      string `json:"q"` // many excl conflict
	Snaps  []int  `json:"snaps,omitempty"`
	Ignore int    `json:"ignore"` // index (1-based) of the change to ignore, 0 none, 99 an id that does not exist
	Stale  bool   `json:"stale,omitempty"`
	// conflict: 0 snapst nil, 1 snapst passed
	WithSnapst bool `json:"with_snapst,omitempty"`
}

type c14In struct {
	Changes []c14Change `json:"changes"`
	Query   c14Query    `json:"query"`
}

var c14Kinds = []string{"transition-ubuntu-core", "transition-to-snapd-snap", "remodel", "create-recovery-system",
	"remove-recovery-system", "revert-snap", "refresh-snap", "pre-download", "become-operational", "install-snap", "remove-snap",
	"auto-refresh"}

func c14SnapName(i int) string {
	if i == c14Snapd {
		return "snapd"
	}
	return fmt.Sprintf("snap-%d", i)
}

func c14Ns(l []int) string {
	var xs []string
	for _, x := range l {
		xs = append(xs, vh.CoqN(uint64(x)))
	}
	return vh.CoqList(xs)
}

func c14OptN(ok bool, n int) string { return vh.CoqOpt(ok, vh.CoqN(uint64(n))) }

func init() {
	RegisterAffectedSnapsByKind("verif-c14-multi", func(t *state.Task) ([]string, error) {
		var l []string
		if err := t.Get("verif-snaps", &l); err != nil {
			return nil, err
		}
		return l, nil
	})
}

// ---------------------------------------------------------------- generator

var c14Full = false

func c14Queries(nchanges int) []c14Query {
	var qs []c14Query
	if !c14Full {
		// quick tier: a covering subset of the full list below
		ignores := []int{0}
		for i := 1; i <= nchanges; i++ {
			ignores = append(ignores, i)
		}
		for _, ig := range ignores {
			qs = append(qs, c14Query{Q: "excl", Ignore: ig})
			for _, snaps := range [][]int{{1}, {2, 1}, {c14Snapd}} {
				qs = append(qs, c14Query{Q: "many", Snaps: snaps, Ignore: ig})
			}
			qs = append(qs, c14Query{Q: "conflict", Snaps: []int{1}, Ignore: ig})
			qs = append(qs, c14Query{Q: "conflict", Snaps: []int{2}, Ignore: ig, WithSnapst: true})
			qs = append(qs, c14Query{Q: "conflict", Snaps: []int{2}, Ignore: ig, WithSnapst: true, Stale: true})
		}
		qs = append(qs, c14Query{Q: "many", Snaps: []int{1}, Ignore: 99}, c14Query{Q: "excl", Ignore: 99})
		return qs
	}
	ignores := []int{0, 99}
	for i := 1; i <= nchanges; i++ {
		ignores = append(ignores, i)
	}
	for _, ig := range ignores {
		qs = append(qs, c14Query{Q: "excl", Ignore: ig})
		for _, snaps := range [][]int{{1}, {2}, {1, 2}, {c14Snapd}, {}} {
			qs = append(qs, c14Query{Q: "many", Snaps: snaps, Ignore: ig})
		}
		for _, s := range []int{1, 2} {
			qs = append(qs, c14Query{Q: "conflict", Snaps: []int{s}, Ignore: ig})
			qs = append(qs, c14Query{Q: "conflict", Snaps: []int{s}, Ignore: ig, WithSnapst: true})
			qs = append(qs, c14Query{Q: "conflict", Snaps: []int{s}, Ignore: ig, WithSnapst: true, Stale: true})
		}
	}
	return qs
}

func c14Exhaustive() []c14In {
	var out []c14In
	// one change: every kind x task shape x readiness (x downgrade mode for refresh/revert)
	shapes := [][]c14Task{
		{},
		{{Snaps: []int{1}}},
		{{Snaps: []int{1}, Ready: true}},
		{{Snaps: []int{1}, Ready: true}, {Snaps: []int{}, Ready: false}},
		{{Snaps: []int{1}, Via: 1}, {Snaps: []int{3}, Ready: true}},
		{{Snaps: []int{2, 3}}},
		{{Snaps: []int{}}},
	}
	for _, k := range c14Kinds {
		modes := []int{0}
		if k == "refresh-snap" || k == "revert-snap" {
			modes = []int{0, 1, 2, 3, 4}
		} else if k == "install-snap" || k == "remodel" {
			modes = []int{0, 1}
		}
		for _, m := range modes {
			for _, sh := range shapes {
				for _, sr := range []bool{false, true} {
					if m != 1 && sr {
						continue
					}
					ch := c14Change{Kind: k, Snapd: m, SnapdReady: sr, Tasks: sh}
					for _, q := range c14Queries(1) {
						out = append(out, c14In{Changes: []c14Change{ch}, Query: q})
					}
				}
			}
		}
	}
	return out
}

func c14RandomState(r *vh.Rand) []c14Change {
	n := r.Range(0, 4)
	var chs []c14Change
	for i := 0; i < n; i++ {
		ch := c14Change{Kind: c14Kinds[r.Intn(len(c14Kinds))]}
		if r.Chance(1, 3) {
			ch.Snapd = r.Range(1, 4)
			ch.SnapdReady = r.Bool()
		}
		nt := r.Range(0, 3)
		for j := 0; j < nt; j++ {
			t := c14Task{Ready: r.Chance(1, 2), Via: r.Intn(2)}
			switch r.Intn(5) {
			case 0:
			case 1:
				t.Snaps = []int{r.Range(1, 3), r.Range(1, 3)}
			default:
				t.Snaps = []int{r.Range(1, 3)}
			}
			ch.Tasks = append(ch.Tasks, t)
		}
		chs = append(chs, ch)
	}
	return chs
}

func c14GenDirect(r *vh.Rand, tier string, n int) []c14In {
	if n == 0 {
		n = 200
	}
	c14Full = tier == "thorough"
	ins := c14Exhaustive()
	for i := 0; i < n; i++ {
		chs := c14RandomState(r)
		qs := c14Queries(len(chs))
		for k := 0; k < 4; k++ {
			ins = append(ins, c14In{Changes: chs, Query: qs[r.Intn(len(qs))]})
		}
	}
	return ins
}

// ---------------------------------------------------------------- execution

func c14Sup(name, version string) *SnapSetup {
	return &SnapSetup{SideInfo: &snap.SideInfo{RealName: name, Revision: snap.R(7)}, Version: version}
}

func c14Exec(in c14In) vh.Out {
	st := state.New(nil)
	st.Lock()
	defer st.Unlock()
	oldRead := snapReadInfo
	snapReadInfo = func(name string, si *snap.SideInfo) (*snap.Info, error) {
		return &snap.Info{SuggestedName: name, SideInfo: *si, Version: "2.0"}, nil
	}
	defer func() { snapReadInfo = oldRead }()

	for _, i := range []int{1, 2, 3, c14Snapd} {
		name := c14SnapName(i)
		si := &snap.SideInfo{RealName: name, SnapID: name + "-id", Revision: snap.R(1)}
		typ := "app"
		if i == c14Snapd {
			typ = "snapd"
		}
		Set(st, name, &SnapState{Active: true, Current: si.Revision, SnapType: typ,
			Sequence: sequence.SnapSequence{Revisions: []*sequence.RevisionSideState{sequence.NewRevisionSideState(si, nil)}}})
	}

	var coqChanges []string
	var ids []string
	for _, ch := range in.Changes {
		chg := st.NewChange(ch.Kind, "verif")
		ids = append(ids, chg.ID())
		var coqTasks []string
		// statuses are set after all tasks have been added: Change.IsReady is sticky (the ready channel is closed the first
		// time every task of the change is ready), and a finished change gets no further tasks
		var done []*state.Task
		add := func(t *state.Task, snaps []int, ready bool) {
			chg.AddTask(t)
			if ready {
				done = append(done, t)
			}
			coqTasks = append(coqTasks, fmt.Sprintf("(mkTask %s %s)", c14Ns(snaps), vh.CoqBool(ready)))
		}
		dg := false
		if ch.Snapd != 0 {
			t := st.NewTask("prepare-snap", "verif")
			switch ch.Snapd {
			case 1:
				t.Set("snap-setup", c14Sup("snapd", "1.0"))
				dg = true
			case 2:
				t.Set("snap-setup", c14Sup("snapd", "3.0"))
			case 3:
				t.Set("snap-setup", c14Sup("snapd", ""))
				dg = true
			case 4:
				t.Set("snap-setup", c14Sup(c14SnapName(3), "1.0"))
			}
			affected := c14Snapd
			if ch.Snapd == 4 {
				affected = 3
			}
			add(t, []int{affected}, ch.SnapdReady)
		}
		for _, tk := range ch.Tasks {
			var t *state.Task
			switch len(tk.Snaps) {
			case 0:
				t = st.NewTask("verif-c14-plain", "verif")
			case 1:
				t = st.NewTask("link-snap", "verif")
				if tk.Via == 0 {
					t.Set("snap-setup", c14Sup(c14SnapName(tk.Snaps[0]), "5"))
				} else {
					// the task holding the snap-setup has to belong to a change (State.Task returns nil otherwise): it is a
					// further task of this change affecting the same snap
					holder := st.NewTask("verif-c14-holder", "verif")
					holder.Set("snap-setup", c14Sup(c14SnapName(tk.Snaps[0]), "5"))
					t.Set("snap-setup-task", holder.ID())
					add(holder, tk.Snaps, tk.Ready)
				}
			default:
				t = st.NewTask("verif-c14-multi", "verif")
				var names []string
				for _, s := range tk.Snaps {
					names = append(names, c14SnapName(s))
				}
				t.Set("verif-snaps", names)
			}
			add(t, tk.Snaps, tk.Ready)
		}
		for _, t := range done {
			t.SetStatus(state.DoneStatus)
		}
		// changeIsSnapdDowngrade is only consulted for refresh-snap / revert-snap changes; c_dg is what it returns
		id := 0
		fmt.Sscanf(chg.ID(), "%d", &id)
		coqChanges = append(coqChanges, fmt.Sprintf("(mkChange %s %s %s %s)", vh.CoqN(uint64(id)), vh.CoqBytes(ch.Kind), vh.CoqBool(dg),
			vh.CoqList(coqTasks)))
	}

	q := in.Query
	ignoreID, coqIgnore := "", "None"
	switch {
	case q.Ignore == 99:
		ignoreID, coqIgnore = "99", c14OptN(true, 99)
	case q.Ignore > 0 && q.Ignore <= len(ids):
		ignoreID = ids[q.Ignore-1]
		id := 0
		fmt.Sscanf(ignoreID, "%d", &id)
		coqIgnore = c14OptN(true, id)
	}
	var err error
	var coqQ string
	switch q.Q {
	case "many":
		var names []string
		for _, s := range q.Snaps {
			names = append(names, c14SnapName(s))
		}
		err = CheckChangeConflictMany(st, names, ignoreID)
		coqQ = fmt.Sprintf("(QMany %s %s)", c14Ns(q.Snaps), coqIgnore)
	case "excl":
		if ignoreID == "" {
			// the exported entry point used by devicestate (Remodel, CreateRecoverySystem, RemoveRecoverySystem)
			err = CheckChangeConflictRunExclusively(st, "remodel")
		} else {
			err = checkChangeConflictExclusiveKinds(st, "remodel", ignoreID)
		}
		coqQ = fmt.Sprintf("(QExcl %s)", coqIgnore)
	case "conflict":
		name := c14SnapName(q.Snaps[0])
		var snapst *SnapState
		if q.WithSnapst {
			snapst = &SnapState{}
			if e := Get(st, name, snapst); e != nil {
				panic(e)
			}
			if q.Stale {
				snapst.Active = !snapst.Active // the record the caller saw is not the current one
			}
		}
		err = checkChangeConflictIgnoringOneChange(st, name, snapst, ignoreID)
		coqQ = fmt.Sprintf("(QConflict %s %s %s)", vh.CoqN(uint64(q.Snaps[0])), vh.CoqBool(!(q.WithSnapst && q.Stale)), coqIgnore)
	default:
		panic("unknown query " + q.Q)
	}
	conflict := false
	if err != nil {
		if _, ok := err.(*ChangeConflictError); !ok {
			panic(err)
		}
		conflict = true
	}
	coq := fmt.Sprintf("(Direct %s [(%s, %s)])", vh.CoqList(coqChanges), coqQ, vh.CoqBool(conflict))
	tags := []string{"q-" + q.Q, fmt.Sprintf("changes%d", len(in.Changes))}
	if conflict {
		tags = append(tags, "conflict")
	}
	var kinds []string
	for _, ch := range in.Changes {
		kinds = append(kinds, ch.Kind)
	}
	sort.Strings(kinds)
	_ = strings.Join
	return vh.Out{Observed: map[string]bool{"conflict": conflict}, Coq: coq, NonTrivial: len(in.Changes) > 0, Tags: tags}
}

func TestVerifC14Direct(t *testing.T) { vh.Run(c14GenDirect, c14Exec) }
