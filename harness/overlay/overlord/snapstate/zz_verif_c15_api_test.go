//go:build verif

package snapstate_test

// C15 driver, request part: histories that mix holds by gating snaps (HoldRefresh with the default duration,
// ProceedWithRefresh), clock advances and REAL refresh requests through snapstate.Update / UpdateMany / Revert with the
// suite's fake store and backend, with the gate-auto-refresh-hook and refresh-app-awareness features on and a fake
// running-apps condition (MockRefreshAppsCheck returning a BusySnapError for chosen snaps), so that requests are
// refused (busy snap, change conflict) or accepted. After every operation the snaps-hold table and HeldSnaps are
// recorded: a refused request must leave every hold record alone; an accepted one drops the records of the snaps being
// refreshed. Same case type as the in-package driver (models/Holds.v).

import (
	"context"
	"encoding/json"
	"fmt"
	"math/big"
	"sort"
	"time"

	. "gopkg.in/check.v1"

	"github.com/snapcore/snapd/overlord/configstate/config"
	"github.com/snapcore/snapd/overlord/snapstate"
	"github.com/snapcore/snapd/overlord/snapstate/snapstatetest"
	"github.com/snapcore/snapd/overlord/state"
	"github.com/snapcore/snapd/snap"
	"github.com/snapcore/snapd/zzverif/vh"
)

type verifC15Suite struct {
	snapmgrBaseTest
	used bool
}

var _ = Suite(&verifC15Suite{})

type c15rOp struct {
	K     string `json:"k"` // hold proceed tick update revert refreshed refresh-all
	Auto  bool   `json:"auto,omitempty"` // refresh-all: with Flags.IsAutoRefresh
	G     int    `json:"g,omitempty"`
	Snaps []int  `json:"snaps,omitempty"`
	Busy  []int  `json:"busy,omitempty"` // snaps that have running apps during this request
	Keep  bool   `json:"keep,omitempty"` // leave the accepted change in progress (later requests on the snap conflict)
	D     int64  `json:"d,omitempty"`
	S     int    `json:"s,omitempty"`
}

type c15rIn struct {
	Ops []c15rOp `json:"ops"`
}

type c15rHold struct {
	FirstHeld time.Time `json:"first-held"`
	HoldUntil time.Time `json:"hold-until"`
	Level     int       `json:"level,omitempty"`
}

var c15rNames = []string{"system", "some-snap", "some-other-snap", "services-snap"}
var c15rIDs = map[string]int{"system": 0, "some-snap": 1, "some-other-snap": 2, "services-snap": 3}
var c15rBase = time.Date(2024, 3, 1, 0, 0, 0, 0, time.UTC)

const (
	c15rH = int64(time.Hour)
	c15rD = 24 * int64(time.Hour)
)

func c15rGen(r *vh.Rand, tier string, n int) []c15rIn {
	if n == 0 {
		n = 40
	}
	var out []c15rIn
	hold := func(g int, snaps ...int) c15rOp { return c15rOp{K: "hold", G: g, Snaps: snaps} }
	tick := func(d int64) c15rOp { return c15rOp{K: "tick", D: d} }
	// snap 2 holds snap 1; a refresh request of snap 1 is refused (running apps / conflict) or accepted after t1; snap 2
	// holds again; the clock passes 48 h after the first hold
	for _, t1 := range []int64{c15rH, 47 * c15rH} {
		for _, req := range []c15rOp{
			{K: "update", Snaps: []int{1}, Busy: []int{1}},
			{K: "update", Snaps: []int{1}},
			{K: "revert", Snaps: []int{1}, Busy: []int{1}},
			{K: "revert", Snaps: []int{1}},
			{K: "update", Snaps: []int{1, 2}},
		} {
			out = append(out, c15rIn{Ops: []c15rOp{hold(2, 1, 2), tick(t1), req, hold(2, 1, 2), tick(48*c15rH - t1), hold(2, 1, 2), tick(1), hold(2, 1, 2), tick(c15rH)}})
		}
	}
	// the recorded finding (KNOWN_FINDINGS key refused-updatemany-drops-holds): a request naming several snaps is refused
	// because one of them has running apps, after another one had been prepared: that one's hold records are dropped.
	// Only these histories contain a several-snap request that can be refused.
	for _, b := range []int{1, 2} {
		out = append(out, c15rIn{Ops: []c15rOp{hold(1, 2), hold(2, 1), tick(c15rH), {K: "update", Snaps: []int{1, 2}, Busy: []int{b}}, hold(1, 2), hold(2, 1),
			tick(47*c15rH + 1)}})
	}
	// a refresh of all snaps (general / auto) goes on exactly with the snaps that are not held at its level: gating snaps hold
	// for auto-refreshes only, the clock passes the 48 h bound in between
	for _, auto := range []bool{false, true} {
		ra := c15rOp{K: "refresh-all", Auto: auto}
		out = append(out, c15rIn{Ops: []c15rOp{ra, hold(2, 1), hold(3, 3), ra, tick(47 * c15rH), ra, tick(c15rH + 1), ra, hold(2, 1), ra}})
	}
	// a request that conflicts with a change in progress
	out = append(out, c15rIn{Ops: []c15rOp{{K: "update", Snaps: []int{1}, Keep: true}, hold(2, 1), tick(c15rH), {K: "update", Snaps: []int{1}},
		{K: "revert", Snaps: []int{1}}, hold(2, 1), tick(47 * c15rH), hold(2, 1), tick(1), hold(2, 1)}})
	ticks := []int64{1, c15rH, 24 * c15rH, 47 * c15rH, 48*c15rH - 1, 48 * c15rH, 48*c15rH + 1, 5 * c15rD}
	for i := 0; i < n; i++ {
		var h c15rIn
		// histories with several-snap requests have no running apps and no change left in progress, so that such a
		// request is never refused (see the recorded finding above)
		multi := i%3 == 2
		nops := r.Range(6, 16)
		for j := 0; j < nops; j++ {
			switch x := r.Intn(100); {
			case x < 35:
				op := hold(r.Range(1, 3))
				for s := 1; s <= 3; s++ {
					if r.Chance(1, 2) {
						op.Snaps = append(op.Snaps, s)
					}
				}
				if len(op.Snaps) == 0 {
					op.Snaps = []int{r.Range(1, 3)}
				}
				h.Ops = append(h.Ops, op)
			case x < 42:
				h.Ops = append(h.Ops, c15rOp{K: "proceed", G: r.Range(1, 3)})
			case x < 72:
				op := c15rOp{K: "update"}
				if r.Chance(1, 5) {
					op.K = "revert"
					op.Snaps = []int{1}
				} else if multi && r.Chance(1, 2) {
					op.Snaps = []int{1, 2}
				} else {
					op.Snaps = []int{r.Range(1, 2)}
				}
				if !multi {
					op.Keep = r.Chance(1, 4)
					if r.Chance(1, 2) {
						op.Busy = []int{op.Snaps[0]}
					}
				}
				h.Ops = append(h.Ops, op)
			case x < 77:
				h.Ops = append(h.Ops, c15rOp{K: "refreshed", S: r.Range(1, 3)})
			case x < 85 && multi:
				h.Ops = append(h.Ops, c15rOp{K: "refresh-all", Auto: r.Bool()})
			default:
				h.Ops = append(h.Ops, tick(ticks[r.Intn(len(ticks))]))
			}
		}
		out = append(out, h)
	}
	return out
}

func c15rAbs(t time.Time) string {
	z := new(big.Int).Mul(big.NewInt(t.Unix()), big.NewInt(1000000000))
	z.Add(z, big.NewInt(int64(t.Nanosecond())))
	if z.Sign() < 0 {
		return "(" + z.String() + ")%Z"
	}
	return z.String() + "%Z"
}

func c15rNs(l []int) string {
	var xs []string
	for _, x := range l {
		xs = append(xs, vh.CoqN(uint64(x)))
	}
	return vh.CoqList(xs)
}

func (s *verifC15Suite) exec(c *C, in c15rIn) vh.Out {
	if s.used {
		s.TearDownTest(c)
		s.SetUpTest(c)
	}
	s.used = true
	st := s.state
	st.Lock()
	defer st.Unlock()

	now := c15rBase
	defer snapstate.MockTimeNow(func() time.Time { return now })()
	busy := map[string]bool{}
	defer snapstate.MockRefreshAppsCheck(func(info *snap.Info) error {
		if busy[info.InstanceName()] {
			return snapstate.NewBusySnapError(info, []int{123}, nil, nil)
		}
		return nil
	})()
	tr := config.NewTransaction(st)
	tr.Set("core", "experimental.gate-auto-refresh-hook", true)
	tr.Set("core", "experimental.refresh-app-awareness", true)
	tr.Commit()

	var times []string
	timeIdx := map[string]int{}
	tix := func(t time.Time) string {
		z := c15rAbs(t)
		i, ok := timeIdx[z]
		if !ok {
			i = len(times)
			timeIdx[z] = i
			times = append(times, z)
		}
		return vh.CoqN(uint64(i))
	}
	now0 := tix(c15rBase)
	lr := c15rBase.Add(-time.Hour)
	var lrs []string
	for i := 1; i <= 3; i++ {
		name := c15rNames[i]
		var sis []*snap.SideInfo
		for _, rev := range []int{1, 2} {
			sis = append(sis, &snap.SideInfo{RealName: name, SnapID: name + "-id", Revision: snap.R(rev)})
		}
		t := lr
		snapstate.Set(st, name, &snapstate.SnapState{Sequence: snapstatetest.NewSequenceFromSnapSideInfos(sis), Current: snap.R(2),
			Active: true, SnapType: "app", TrackingChannel: "latest/stable", LastRefreshTime: &t})
		lrs = append(lrs, vh.CoqTuple(vh.CoqN(uint64(i)), tix(lr)))
	}
	names := func(l []int) []string {
		var out []string
		for _, x := range l {
			out = append(out, c15rNames[x])
		}
		return out
	}

	var steps []string
	var obs []map[string]interface{}
	tags := map[string]bool{}
	sawHeld, sawRefused, sawBusy := false, false, false
	for _, op := range in.Ops {
		var coqOp string
		res := "(Some 0%Z)"
		jsRes := "ok"
		switch op.K {
		case "hold":
			coqOp = fmt.Sprintf("(Hold 0%%N %s 0%%Z %s)", vh.CoqN(uint64(op.G)), c15rNs(op.Snaps))
			left, err := snapstate.HoldRefresh(st, snapstate.HoldAutoRefresh, c15rNames[op.G], 0, names(op.Snaps)...)
			if err != nil {
				if _, ok := err.(*snapstate.HoldError); !ok {
					panic(err)
				}
				res, jsRes = "None", "hold refused"
				sawRefused = true
			} else {
				res, jsRes = "(Some "+vh.CoqZ(int64(left))+")", "ok "+left.String()
			}
		case "proceed":
			coqOp = fmt.Sprintf("(Proceed %s [])", vh.CoqN(uint64(op.G)))
			if err := snapstate.ProceedWithRefresh(st, c15rNames[op.G], nil); err != nil {
				panic(err)
			}
		case "tick":
			coqOp = fmt.Sprintf("(Tick %s)", vh.CoqN(uint64(op.D)))
			now = now.Add(time.Duration(op.D))
		case "refreshed":
			coqOp = fmt.Sprintf("(Refreshed %s)", vh.CoqN(uint64(op.S)))
			var snapst snapstate.SnapState
			if err := snapstate.Get(st, c15rNames[op.S], &snapst); err != nil {
				panic(err)
			}
			t := now
			snapst.LastRefreshTime = &t
			snapstate.Set(st, c15rNames[op.S], &snapst)
		case "refresh-all":
			var flags *snapstate.Flags
			if op.Auto {
				flags = &snapstate.Flags{IsAutoRefresh: true}
			}
			updated, tss, err := snapstate.UpdateMany(context.Background(), st, nil, nil, s.user.ID, flags)
			if err != nil {
				panic(fmt.Sprintf("refresh-all: %T %v", err, err))
			}
			var ids []int
			for _, n := range updated {
				ids = append(ids, c15rIDs[n])
			}
			sort.Ints(ids)
			chg := st.NewChange("refresh-snap", "verif")
			for _, ts := range tss {
				if ts != nil {
					chg.AddAll(ts)
				}
			}
			for _, t := range chg.Tasks() {
				t.SetStatus(state.DoneStatus)
			}
			// every installed snap has an update in the fake store
			coqOp = fmt.Sprintf("(RefreshAll %s [1%%N; 2%%N; 3%%N] %s)", vh.CoqBool(op.Auto), c15rNs(ids))
			jsRes = fmt.Sprintf("updated %v", ids)
		case "update", "revert":
			for k := range busy {
				delete(busy, k)
			}
			for _, b := range op.Busy {
				busy[c15rNames[b]] = true
			}
			tasksBefore := c15rUnlinked(st)
			var tss []*state.TaskSet
			var err error
			accepted := op.Snaps
			switch {
			case op.K == "revert":
				var ts *state.TaskSet
				ts, err = snapstate.Revert(st, c15rNames[op.Snaps[0]], snapstate.Flags{}, "")
				tss = []*state.TaskSet{ts}
			case len(op.Snaps) == 1:
				var ts *state.TaskSet
				ts, err = snapstate.Update(st, c15rNames[op.Snaps[0]], nil, s.user.ID, snapstate.Flags{})
				tss = []*state.TaskSet{ts}
			default:
				var updated []string
				updated, tss, err = snapstate.UpdateMany(context.Background(), st, names(op.Snaps), nil, s.user.ID, nil)
				accepted = nil
				for _, n := range updated {
					accepted = append(accepted, c15rIDs[n])
				}
				sort.Ints(accepted)
			}
			for k := range busy {
				delete(busy, k)
			}
			if err != nil {
				switch err.(type) {
				case *snapstate.ChangeConflictError:
					jsRes = "refused: conflict"
					tags["refused-conflict"] = true
				case *snapstate.BusySnapError:
					jsRes = "refused: busy"
					tags["refused-busy"] = true
					sawBusy = true
				default:
					panic(fmt.Sprintf("%s %v: %T %v", op.K, op.Snaps, err, err))
				}
				// the snaps of the request that had already been prepared (doInstall succeeded: tasks were created, they now
				// belong to no change) when another snap of the request caused the refusal
				doneSet := map[int]bool{}
				for id, name := range c15rUnlinked(st) {
					if _, ok := tasksBefore[id]; !ok && name != "" {
						doneSet[c15rIDs[name]] = true
					}
				}
				var done []int
				for d := range doneSet {
					done = append(done, d)
				}
				sort.Ints(done)
				if len(done) > 0 {
					jsRes += fmt.Sprintf(" (already prepared: %v)", done)
					tags["refused-after-partial-preparation"] = true
				}
				coqOp = fmt.Sprintf("(RefreshRefused %s %s)", c15rNs(op.Snaps), c15rNs(done))
			} else {
				jsRes = fmt.Sprintf("accepted %v", accepted)
				tags["accepted-"+op.K] = true
				chg := st.NewChange("refresh-snap", "verif")
				for _, ts := range tss {
					if ts != nil {
						chg.AddAll(ts)
					}
				}
				if !op.Keep {
					for _, t := range chg.Tasks() {
						t.SetStatus(state.DoneStatus)
					}
				}
				coqOp = fmt.Sprintf("(RefreshAccepted %s)", c15rNs(accepted))
			}
		default:
			panic("unknown op " + op.K)
		}
		tags[op.K] = true

		var gating map[string]map[string]*c15rHold
		if err := st.Get("snaps-hold", &gating); err != nil && !isNoState(err) {
			panic(err)
		}
		var table, jsTable []string
		var helds []string
		for h := range gating {
			helds = append(helds, h)
		}
		sort.Strings(helds)
		for _, h := range helds {
			var holders []string
			for g := range gating[h] {
				holders = append(holders, g)
			}
			sort.Strings(holders)
			for _, g := range holders {
				hs := gating[h][g]
				table = append(table, vh.CoqTuple(vh.CoqN(uint64(c15rIDs[h])), vh.CoqN(uint64(c15rIDs[g])), tix(hs.FirstHeld), tix(hs.HoldUntil),
					vh.CoqN(uint64(hs.Level))))
				jsTable = append(jsTable, fmt.Sprintf("%s<-%s first=%s until=%s", h, g, hs.FirstHeld.Format(time.RFC3339Nano), hs.HoldUntil.Format(time.RFC3339Nano)))
			}
		}
		heldAt := func(level snapstate.HoldLevel) ([]string, []string) {
			held, err := snapstate.HeldSnaps(st, level)
			if err != nil {
				panic(err)
			}
			var coq, js, keys []string
			for k := range held {
				keys = append(keys, k)
			}
			sort.Strings(keys)
			for _, k := range keys {
				hs := append([]string(nil), held[k]...)
				sort.Strings(hs)
				for _, h := range hs {
					coq = append(coq, vh.CoqTuple(vh.CoqN(uint64(c15rIDs[k])), vh.CoqN(uint64(c15rIDs[h]))))
					js = append(js, k+"<-"+h)
				}
			}
			return coq, js
		}
		h0, j0 := heldAt(snapstate.HoldAutoRefresh)
		h1, j1 := heldAt(snapstate.HoldGeneral)
		if len(j0) > 0 {
			sawHeld = true
		}
		steps = append(steps, fmt.Sprintf("(mkRObs %s %s %s %s %s %s)", coqOp, res, vh.CoqList(table), vh.CoqList(h0), vh.CoqList(h1), tix(now)))
		obs = append(obs, map[string]interface{}{"op": op.K, "res": jsRes, "table": jsTable, "held0": j0, "held1": j1})
	}
	coq := fmt.Sprintf("(mkCase 3%%N %s %s %s %s)", vh.CoqList(times), vh.CoqList(lrs), now0, vh.CoqList(steps))
	var tl []string
	for t := range tags {
		tl = append(tl, t)
	}
	sort.Strings(tl)
	return vh.Out{Observed: obs, Coq: coq, NonTrivial: sawHeld && sawBusy && sawRefused, Tags: tl}
}

// the tasks of the state that belong to no change (State.Tasks does not list them), with the snap named by their
// snap-setup if they carry one; read from the state's own JSON form
func c15rUnlinked(st *state.State) map[string]string {
	data, err := json.Marshal(st)
	if err != nil {
		panic(err)
	}
	var top struct {
		Tasks map[string]struct {
			Change string `json:"change"`
			Data   map[string]json.RawMessage `json:"data"`
		} `json:"tasks"`
	}
	if err := json.Unmarshal(data, &top); err != nil {
		panic(err)
	}
	out := map[string]string{}
	for id, t := range top.Tasks {
		if t.Change != "" {
			continue
		}
		name := ""
		if raw, ok := t.Data["snap-setup"]; ok {
			var sup struct {
				SideInfo struct {
					Name string `json:"name"`
				} `json:"side-info"`
			}
			if json.Unmarshal(raw, &sup) == nil {
				name = sup.SideInfo.Name
			}
		}
		out[id] = name
	}
	return out
}

func isNoState(err error) bool {
	_, ok := err.(*state.NoStateError)
	return ok
}

func (s *verifC15Suite) TestVerifC15Requests(c *C) {
	vh.Run(c15rGen, func(in c15rIn) vh.Out { return s.exec(c, in) })
}
