//go:build verif

// Driver shared by the properties C10, C11, C12 and C13 (/verif, DESIGN.md section 2 C10-C13).
//
// It plays histories of install / refresh / revert / remove / enable / disable operations on one snap through the
// REAL snapstate entry points (Install, Update, Revert, RevertToRevision, Remove, Enable, Disable), the real
// SnapManager handlers and the real TaskRunner, with the package's own test fakes for the backend and the store
// (fakeSnappyBackend, fakeStore, the snapmgrBaseTest set-up). A failure is injected at a chosen position of the
// generated change by an `error-trigger` task spliced into the chain (the k-th task never starts; the k-1 tasks
// before it have run and are undone by the real undo handlers), or inside a task by making one backend call fail
// (fakeSnappyBackend.maybeInjectErr). After every settled change the driver records snapstate.Get's projection,
// the configuration of the snap and the world derived from the backend operations log.
package snapstate_test

import (
	"context"
	"encoding/json"
	"errors"
	"fmt"
	"os"
	"path/filepath"
	"sort"
	"strconv"
	"strings"
	"time"

	. "gopkg.in/check.v1"
	"gopkg.in/tomb.v2"

	"github.com/snapcore/snapd/overlord/configstate/config"
	"github.com/snapcore/snapd/overlord/hookstate"
	"github.com/snapcore/snapd/overlord/snapstate"
	"github.com/snapcore/snapd/overlord/state"
	"github.com/snapcore/snapd/release"
	"github.com/snapcore/snapd/snap"
	"github.com/snapcore/snapd/zzverif/vh"
)

type verifC10Suite struct {
	snapmgrBaseTest
	hookCfg  int  // when > 0 the configure / post-refresh hook of the running change sets the snap's config to this value
	hookSeen bool // the hook ran and changed the configuration
}

var _ = Suite(&verifC10Suite{})

const c10Snap = "some-snap"

// ---------------------------------------------------------------------------------------------- inputs

// flag bits of an operation
const (
	c10DevMode = 1 << iota
	c10JailMode
	c10IgnoreValidation
	c10NotBlocked // revert only: do not block the reverted-from revision
	c10HookCfg    // the configure (install, refresh) hook changes the configuration of the snap
	c10Cohort     // join cohort `c1`
)

type c10Op struct {
	Kind  string `json:"kind"`            // install refresh revert revert-to remove remove-rev enable disable retain retain-str setcfg inhibit
	Rev   int    `json:"rev,omitempty"`   // target revision (install, refresh, revert-to, remove-rev); retain value (retain, retain-str); config value (setcfg)
	Chan  int    `json:"chan,omitempty"`  // 0 none, 1 latest/stable, 2 latest/edge, 3 2.0/beta
	Flags int    `json:"flags,omitempty"` // c10* bits
	// failure injection. Fail = 0: none. Fail = k >= 1: an error-trigger task runs in place of the k-th task of the
	// change (1-based; reduced modulo number of tasks + 1, where tasks + 1 means after the last task).
	Fail int `json:"fail,omitempty"`
	// Sweep: run the operation with a failure at EVERY position 1 .. tasks+1 in turn, then once without failure.
	Sweep bool `json:"sweep,omitempty"`
	// Inside: make the backend call with this op name fail (first occurrence in the change); "" = none
	Inside string `json:"inside,omitempty"`
}

type c10In struct {
	Core bool    `json:"core,omitempty"` // run as an Ubuntu Core device (release.OnClassic = false): default retain 3
	Ops  []c10Op `json:"ops"`
}

var c10Chans = []string{"", "latest/stable", "latest/edge", "2.0/beta"}

// ---------------------------------------------------------------------------------------------- observation

type c10State struct {
	Seq        []int  `json:"seq"`
	Current    int    `json:"current"`
	Active     bool   `json:"active"`
	Chan       string `json:"chan"`
	DevMode    bool   `json:"devmode"`
	JailMode   bool   `json:"jailmode"`
	Classic    bool   `json:"classic"`
	TryMode    bool   `json:"trymode"`
	IgnoreVal  bool   `json:"ignore-validation"`
	Cohort     string `json:"cohort"`
	LastRefr   int    `json:"last-refresh"`      // 0 = nil, else the mocked clock value (operation number)
	Inhibited  int    `json:"refresh-inhibited"` // 0 = nil
	NotBlocked []int  `json:"not-blocked"`       // keys of RevertStatus with value NotBlocked, sorted
	OtherRS    int    `json:"other-revert-status"`
	Block      []int  `json:"block"` // SnapState.Block()
	Cfg        int    `json:"cfg"`   // 0 = the snap has no configuration, else the value of key `k`
	RevCfg     [][2]int `json:"revcfg"` // revision-config entries (revision, value of `k`), sorted by revision
	Mounted    []int  `json:"mounted"` // world: revisions set up and not removed, sorted
	Link       int    `json:"link"`    // world: revision the backend linked as current, 0 = none
}

type c10Step struct {
	Op      c10Op    `json:"op"`
	Now     int      `json:"now"`
	Retain  int      `json:"retain"` // what refreshRetain answers before the operation
	Err     bool     `json:"err"`    // the entry point refused (no change created)
	Kinds   []string `json:"kinds,omitempty"`
	K       int      `json:"k"` // effective failure position (0 none)
	NPos    int      `json:"npos"` // number of failure positions of the change (tasks + 1)
	Status  string   `json:"status,omitempty"`
	Copies  int      `json:"copies"` // copy-data backend operations during the change
	After   c10State `json:"after"`
}

func (s *verifC10Suite) observe(c *C, w *c10World) c10State {
	var o c10State
	var snapst snapstate.SnapState
	err := snapstate.Get(s.state, c10Snap, &snapst)
	if err != nil && !errors.Is(err, state.ErrNoState) {
		c.Fatalf("Get: %v", err)
	}
	o.Seq = []int{}
	for _, r := range snapst.Sequence.Revisions {
		o.Seq = append(o.Seq, r.Snap.Revision.N)
	}
	o.Current = snapst.Current.N
	o.Active = snapst.Active
	o.Chan = snapst.TrackingChannel
	o.DevMode, o.JailMode, o.Classic, o.TryMode = snapst.DevMode, snapst.JailMode, snapst.Classic, snapst.TryMode
	o.IgnoreVal = snapst.IgnoreValidation
	o.Cohort = snapst.CohortKey
	if snapst.LastRefreshTime != nil {
		o.LastRefr = int(snapst.LastRefreshTime.Unix() - c10Epoch)
	}
	if snapst.RefreshInhibitedTime != nil {
		o.Inhibited = int(snapst.RefreshInhibitedTime.Unix() - c10Epoch)
	}
	o.NotBlocked = []int{}
	for r, v := range snapst.RevertStatus {
		if v == snapstate.NotBlocked {
			o.NotBlocked = append(o.NotBlocked, r)
		} else {
			o.OtherRS++
		}
	}
	sort.Ints(o.NotBlocked)
	o.Block = []int{}
	for _, r := range snapst.Block() {
		o.Block = append(o.Block, r.N)
	}
	o.Cfg = c10CfgVal(c, s.state, c10Snap)
	o.RevCfg = [][2]int{}
	var revcfg map[string]map[string]*json.RawMessage
	if err := s.state.Get("revision-config", &revcfg); err == nil {
		for rs, raw := range revcfg[c10Snap] {
			r, _ := strconv.Atoi(rs)
			o.RevCfg = append(o.RevCfg, [2]int{r, c10RawVal(c, raw)})
		}
	}
	sort.Slice(o.RevCfg, func(i, j int) bool { return o.RevCfg[i][0] < o.RevCfg[j][0] })
	o.Mounted = []int{}
	for r := range w.mounted {
		o.Mounted = append(o.Mounted, r)
	}
	sort.Ints(o.Mounted)
	o.Link = w.link
	return o
}

func c10RawVal(c *C, raw *json.RawMessage) int {
	if raw == nil {
		return 0
	}
	var m map[string]interface{}
	if err := json.Unmarshal(*raw, &m); err != nil {
		c.Fatalf("config: %v", err)
	}
	if v, ok := m["k"].(float64); ok {
		return int(v)
	}
	return 0
}

func c10CfgVal(c *C, st *state.State, name string) int {
	raw, err := config.GetSnapConfig(st, name)
	if err != nil {
		c.Fatalf("GetSnapConfig: %v", err)
	}
	return c10RawVal(c, raw)
}

// world model derived from what snapd asks the backend to do
type c10World struct {
	mounted map[int]bool
	link    int
	copies  int
	seen    int
}

func c10RevOfPath(p string) (string, int) {
	// .../snap/<name>/<rev>
	rev, err := strconv.Atoi(filepath.Base(p))
	if err != nil {
		return "", 0
	}
	return filepath.Base(filepath.Dir(p)), rev
}

func (w *c10World) absorb(ops fakeOps) {
	for ; w.seen < len(ops); w.seen++ {
		op := ops[w.seen]
		switch op.op {
		case "setup-snap":
			if op.name == c10Snap {
				w.mounted[op.revno.N] = true
			}
		case "undo-setup-snap", "remove-snap-files":
			if n, r := c10RevOfPath(op.path); n == c10Snap {
				delete(w.mounted, r)
			}
		case "link-snap":
			if n, r := c10RevOfPath(op.path); n == c10Snap {
				w.link = r
			}
		case "unlink-snap":
			if n, _ := c10RevOfPath(op.path); n == c10Snap {
				w.link = 0
			}
		case "copy-data":
			if n, _ := c10RevOfPath(op.path); n == c10Snap {
				w.copies++
			}
		}
	}
}

const c10Epoch = 1600000000

// ---------------------------------------------------------------------------------------------- execution

func (s *verifC10Suite) retain() int { return snapstate.RefreshRetain(s.state) }

// one operation = one change (or a refusal). State lock held by the caller.
func (s *verifC10Suite) runOp(c *C, op c10Op, now int, w *c10World, fail int) c10Step {
	st := s.state
	step := c10Step{Op: op, Now: now, Retain: s.retain()}
	var ts *state.TaskSet
	var err error
	flags := snapstate.Flags{DevMode: op.Flags&c10DevMode != 0, JailMode: op.Flags&c10JailMode != 0,
		IgnoreValidation: op.Flags&c10IgnoreValidation != 0}
	ropts := &snapstate.RevisionOptions{Channel: c10Chans[op.Chan%len(c10Chans)]}
	if op.Flags&c10Cohort != 0 {
		ropts.CohortKey = "c1"
	}
	s.hookCfg, s.hookSeen = 0, false
	if op.Flags&c10HookCfg != 0 {
		s.hookCfg = 1000 + now
	}
	switch op.Kind {
	case "install":
		ropts.Revision = snap.R(op.Rev)
		ts, err = snapstate.Install(context.Background(), st, c10Snap, ropts, s.user.ID, flags)
	case "refresh":
		ropts.Revision = snap.R(op.Rev)
		s.fakeStore.refreshRevnos = map[string]snap.Revision{c10Snap + "-id": snap.R(op.Rev)}
		ts, err = snapstate.Update(st, c10Snap, ropts, s.user.ID, flags)
	case "revert":
		if op.Flags&c10NotBlocked != 0 {
			flags.RevertStatus = snapstate.NotBlocked
		}
		ts, err = snapstate.Revert(st, c10Snap, flags, "")
	case "revert-to":
		if op.Flags&c10NotBlocked != 0 {
			flags.RevertStatus = snapstate.NotBlocked
		}
		ts, err = snapstate.RevertToRevision(st, c10Snap, snap.R(op.Rev), flags, "")
	case "remove":
		ts, err = snapstate.Remove(st, c10Snap, snap.R(0), nil)
	case "remove-rev":
		ts, err = snapstate.Remove(st, c10Snap, snap.R(op.Rev), nil)
	case "enable":
		ts, err = snapstate.Enable(st, c10Snap)
	case "disable":
		ts, err = snapstate.Disable(st, c10Snap)
	case "retain", "retain-str":
		tr := config.NewTransaction(st)
		if op.Kind == "retain" {
			tr.Set("core", "refresh.retain", op.Rev)
		} else {
			tr.Set("core", "refresh.retain", strconv.Itoa(op.Rev))
		}
		tr.Commit()
	case "setcfg":
		// what `snap set some-snap k=<v>` leaves in the state
		tr := config.NewTransaction(st)
		tr.Set(c10Snap, "k", op.Rev)
		tr.Commit()
	case "inhibit":
		// what the refresh-app-awareness inhibition records on a running snap
		var snapst snapstate.SnapState
		if e := snapstate.Get(st, c10Snap, &snapst); e == nil {
			t := time.Unix(c10Epoch+int64(now), 0)
			snapst.RefreshInhibitedTime = &t
			snapstate.Set(st, c10Snap, &snapst)
		}
	default:
		c.Fatalf("unknown op kind %q", op.Kind)
	}
	if err != nil {
		step.Err = true
	}
	if ts != nil && err == nil {
		tasks := ts.Tasks()
		for _, t := range tasks {
			step.Kinds = append(step.Kinds, c10Kind(t))
		}
		chg := st.NewChange("verif-"+op.Kind, "...")
		chg.AddAll(ts)
		// Update appends check-rerefresh, which insists on being the last task of its change: it is not a failure
		// position of its own (a failure `after the last task` runs before it)
		var rerefresh *state.Task
		if n := len(tasks); n > 0 && tasks[n-1].Kind() == "check-rerefresh" {
			rerefresh = tasks[n-1]
			tasks = tasks[:n-1]
		}
		step.NPos = len(tasks) + 1
		k := 0
		if fail > 0 {
			k = 1 + (fail-1)%(len(tasks)+1)
			terr := st.NewTask("error-trigger", "injected failure")
			for _, l := range tasks[0].Lanes() {
				if l != 0 {
					terr.JoinLane(l)
				}
			}
			if k <= len(tasks) {
				for _, wt := range tasks[k-1].WaitTasks() {
					terr.WaitFor(wt)
				}
				tasks[k-1].WaitFor(terr)
			} else {
				for _, t := range tasks {
					terr.WaitFor(t)
				}
				if rerefresh != nil {
					rerefresh.WaitFor(terr)
				}
			}
			chg.AddTask(terr)
		}
		step.K = k
		s.fakeBackend.maybeInjectErr = nil
		if op.Inside != "" && fail == 0 {
			fired := false
			s.fakeBackend.maybeInjectErr = func(fop *fakeOp) error {
				if !fired && fop.op == op.Inside {
					fired = true
					return errors.New("injected backend failure")
				}
				return nil
			}
		}
		before := len(s.fakeBackend.ops)
		s.settle(c)
		s.fakeBackend.maybeInjectErr = nil
		step.Status = chg.Status().String()
		if !chg.IsReady() {
			c.Fatalf("change not ready: %v", chg.Status())
		}
		_ = before
	}
	c0 := w.copies
	w.absorb(s.fakeBackend.ops)
	step.Copies = w.copies - c0
	step.After = s.observe(c, w)
	return step
}

// the kind of a task as the model sees it: run-hook tasks are told apart by their hook name
func c10Kind(t *state.Task) string {
	if t.Kind() == "run-hook" {
		var hs hookstate.HookSetup
		if err := t.Get("hook-setup", &hs); err == nil {
			return "hook:" + hs.Hook
		}
	}
	return t.Kind()
}

func (s *verifC10Suite) play(c *C, in c10In) []c10Step {
	// gocheck has set the suite up once for the test method: every history gets a fresh overlord/state/backend
	s.TearDownTest(c)
	s.SetUpTest(c)
	s.AddCleanup(release.MockOnClassic(!in.Core))
	now := 0
	s.AddCleanup(snapstate.MockTimeNow(func() time.Time { return time.Unix(c10Epoch+int64(now), 0) }))
	// the configure hook of the real hook manager runs the snap's hook script, which may `snapctl set`: stand-in
	// that writes the configuration through the same config.Transaction the hook context commits
	s.o.TaskRunner().AddHandler("run-hook", func(t *state.Task, _ *tomb.Tomb) error {
		st := t.State()
		st.Lock()
		defer st.Unlock()
		var hs hookstate.HookSetup
		if err := t.Get("hook-setup", &hs); err != nil {
			return err
		}
		if hs.Snap == c10Snap && hs.Hook == "configure" && s.hookCfg > 0 {
			tr := config.NewTransaction(st)
			tr.Set(c10Snap, "k", s.hookCfg)
			tr.Commit()
			s.hookSeen = true
		}
		return nil
	}, nil)

	s.state.Lock()
	defer s.state.Unlock()
	w := &c10World{mounted: map[int]bool{}}
	var steps []c10Step
	for _, op := range in.Ops {
		if op.Sweep {
			now++
			first := s.runOp(c, op, now, w, 1)
			steps = append(steps, first)
			for k := 2; k <= first.NPos && first.K > 0; k++ {
				now++
				steps = append(steps, s.runOp(c, op, now, w, k))
			}
			now++
			steps = append(steps, s.runOp(c, op, now, w, 0))
			continue
		}
		now++
		steps = append(steps, s.runOp(c, op, now, w, op.Fail))
	}
	return steps
}

func (s *verifC10Suite) TestVerifC10Probe(c *C) {
	if os.Getenv("VERIF_C10_PROBE") == "" {
		c.Skip("probe only")
	}
	var in c10In
	if err := json.Unmarshal([]byte(os.Getenv("VERIF_C10_PROBE")), &in); err != nil {
		c.Fatal(err)
	}
	for _, st := range s.play(c, in) {
		b, _ := json.Marshal(st)
		fmt.Println(string(b))
	}
	_ = strings.Join
	_ = vh.CoqN
}
