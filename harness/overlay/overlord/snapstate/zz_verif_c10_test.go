//go:build verif

// Driver shared by the properties C10, C11, C12 and C13 (/verif, DESIGN.md section 2 C10-C13).
//
// It plays histories of install / refresh / revert / remove / enable / disable operations on one snap through the
// REAL snapstate entry points (Install, Update, Revert, RevertToRevision, Remove, Enable, Disable), the real
// SnapManager handlers and the real TaskRunner, with the package's own test fakes for the backend and the store
// (fakeSnappyBackend, fakeStore, the snapmgrBaseTest set-up). A failure is injected at a chosen position of the
// generated change by an `error-trigger` task spliced into the chain (the k-th task never starts; the k-1 tasks
// before it have run and are undone by the real undo handlers), or inside a task by making one backend call fail
// (fakeSnappyBackend.maybeInjectErr). After every settled change the driver records snapstate.Get's projection,
// the configuration of the snap and the world derived from the backend operations log.
package snapstate_test

import (
	"context"
	"encoding/json"
	"errors"
	"fmt"
	"os"
	"path/filepath"
	"sort"
	"strconv"
	"strings"
	"time"

	. "gopkg.in/check.v1"
	"gopkg.in/tomb.v2"

	"github.com/snapcore/snapd/overlord/configstate/config"
	"github.com/snapcore/snapd/overlord/hookstate"
	"github.com/snapcore/snapd/overlord/snapstate"
	"github.com/snapcore/snapd/overlord/snapstate/snapstatetest"
	"github.com/snapcore/snapd/overlord/state"
	"github.com/snapcore/snapd/release"
	"github.com/snapcore/snapd/snap"
	"github.com/snapcore/snapd/snap/channel"
	"github.com/snapcore/snapd/zzverif/vh"
)

type verifC10Suite struct {
	snapmgrBaseTest
	hookCfg int // when > 0 the configure / post-refresh hook of the running change sets the snap's config to this value
}

var _ = Suite(&verifC10Suite{})

// the snap a history plays with: an app (`some-snap`) or, for the boot in-use tie of C12, the boot base `core` of the UC16 test model
var c10Snap = "some-snap"

// ---------------------------------------------------------------------------------------------- inputs

// flag bits of an operation
const (
	c10DevMode = 1 << iota
	c10JailMode
	c10IgnoreValidation
	c10NotBlocked // revert only: do not block the reverted-from revision
	c10HookCfg    // the configure (install, refresh) hook changes the configuration of the snap
)

type c10Op struct {
	Kind string `json:"kind"` // install refresh revert revert-to remove remove-rev enable disable retain retain-str setcfg inhibit
	// install: the revision. refresh: 0 = a revision never seen before, n > 0 = the kept revision at index (n-1) mod len
	// (the next one when that is the current one; a new one when there is no other). revert-to / remove-rev: n > 0 = the kept
	// revision at index (n-1) mod len, 0 = revision 99 (never kept). retain / retain-str / setcfg: the value.
	Rev   int `json:"rev,omitempty"`
	Chan  int `json:"chan,omitempty"`  // 0 none, 1 latest/stable, 2 latest/edge, 3 2.0/beta
	Flags int `json:"flags,omitempty"` // c10* bits
	// failure injection. Fail = 0: none. Fail = k >= 1: an error-trigger task runs in place of the k-th task of the
	// change (1-based; reduced modulo number of tasks + 1, where tasks + 1 means after the last task).
	Fail int `json:"fail,omitempty"`
	// Sweep: run the operation with a failure at EVERY position 1 .. tasks+1 in turn, then once without failure.
	Sweep bool `json:"sweep,omitempty"`
	// Inside: make the first backend call with this op name during the change fail once: `remove-snap-files` (discard-snap
	// answers with state.Retry and is re-run), `unlink-snap`, `remove-snap-data`, `copy-data` (the task fails, the change is undone),
	// `link-snap` (the LinkSnap call of the target revision fails; link-snap cleans up and fails). "" = none
	Inside string `json:"inside,omitempty"`
	// InUse: revisions the boot environment uses (snap_core, snap_try_core) while the operation runs; core histories only
	InUse []int `json:"inuse,omitempty"`
}

type c10In struct {
	Core bool    `json:"core,omitempty"` // run as an Ubuntu Core device (release.OnClassic = false): default retain 3
	Snap string  `json:"snap,omitempty"` // "" = some-snap (app); "core" = the boot base of the UC16 model (needs Core and Seed)
	Seed int     `json:"seed,omitempty"` // > 0: the history starts from kept revisions 1..Seed, current = Seed, active (state written directly)
	Ops  []c10Op `json:"ops"`
}

var c10Chans = []string{"", "latest/stable", "latest/edge", "2.0/beta"}

// ---------------------------------------------------------------------------------------------- observation

type c10State struct {
	Seq        []int    `json:"seq"`
	Current    int      `json:"current"`
	Active     bool     `json:"active"`
	Chan       string   `json:"chan"`
	DevMode    bool     `json:"devmode"`
	JailMode   bool     `json:"jailmode"`
	Classic    bool     `json:"classic"`
	TryMode    bool     `json:"trymode"`
	IgnoreVal  bool     `json:"ignore-validation"`
	Cohort     string   `json:"cohort"`
	LastRefr   int      `json:"last-refresh"`      // 0 = nil, else the mocked clock value (operation number)
	Inhibited  int      `json:"refresh-inhibited"` // 0 = nil
	NotBlocked []int    `json:"not-blocked"`       // keys of RevertStatus with value NotBlocked, sorted
	OtherRS    int      `json:"other-revert-status"`
	Block      []int    `json:"block"`   // SnapState.Block()
	Cfg        int      `json:"cfg"`     // 0 = the snap has no configuration, else the value of key `k`
	RevCfg     [][2]int `json:"revcfg"`  // revision-config entries (revision, value of `k`), sorted by revision
	Mounted    []int    `json:"mounted"` // world: revisions set up and not removed, sorted
	Link       int      `json:"link"`    // world: revision the backend linked as current, 0 = none
}

// the SnapSetup fields of the change that doLinkSnap reads
type c10Sup struct {
	Rev        int    `json:"rev"`
	Chan       string `json:"chan"`
	DevMode    bool   `json:"devmode"`
	JailMode   bool   `json:"jailmode"`
	Classic    bool   `json:"classic"`
	TryMode    bool   `json:"trymode"`
	IgnoreVal  bool   `json:"ignore-validation"`
	Cohort     string `json:"cohort"`
	Revert     bool   `json:"revert"`
	NotBlocked bool   `json:"not-blocked"`
}

type c10Step struct {
	Op      c10Op     `json:"op"`
	Rev     int       `json:"rev"` // effective target revision
	Now     int       `json:"now"`
	RSet    string    `json:"rset"` // refresh.retain as set: `` unset, `n5` number, `s5` string
	Sup     *c10Sup   `json:"sup,omitempty"`
	HookCfg int       `json:"hookcfg"`
	Before  c10State  `json:"-"`
	Seed    *c10State `json:"seed,omitempty"` // first step of a seeded history only: the state the history starts from
	Retain  int       `json:"retain"`         // what refreshRetain answers before the operation
	Err     bool      `json:"err"`            // the entry point refused (no change created)
	ErrMsg  string    `json:"errmsg,omitempty"`
	Panic   string    `json:"panic,omitempty"` // the entry point of the real code panicked (reported as a refusal; the history stops)
	Kinds   []string  `json:"kinds,omitempty"`
	KRevs   []int     `json:"krevs,omitempty"` // revision of each task's own snap-setup
	K       int       `json:"k"`               // effective failure position (0 none)
	NPos    int       `json:"npos"`            // number of failure positions of the change (tasks + 1)
	Status  string    `json:"status,omitempty"`
	Copies  int       `json:"copies"` // copy-data backend operations during the change
	InUse   []int     `json:"inuse,omitempty"`
	Retried int       `json:"retried,omitempty"` // tasks that answered state.Retry and were run again
	After   c10State  `json:"after"`
}

func (s *verifC10Suite) observe(c *C, w *c10World) c10State {
	var o c10State
	var snapst snapstate.SnapState
	err := snapstate.Get(s.state, c10Snap, &snapst)
	if err != nil && !errors.Is(err, state.ErrNoState) {
		c.Fatalf("Get: %v", err)
	}
	o.Seq = []int{}
	for _, r := range snapst.Sequence.Revisions {
		o.Seq = append(o.Seq, r.Snap.Revision.N)
	}
	o.Current = snapst.Current.N
	o.Active = snapst.Active
	o.Chan = snapst.TrackingChannel
	o.DevMode, o.JailMode, o.Classic, o.TryMode = snapst.DevMode, snapst.JailMode, snapst.Classic, snapst.TryMode
	o.IgnoreVal = snapst.IgnoreValidation
	o.Cohort = snapst.CohortKey
	if snapst.LastRefreshTime != nil {
		o.LastRefr = int(snapst.LastRefreshTime.Unix() - c10Epoch)
	}
	if snapst.RefreshInhibitedTime != nil {
		o.Inhibited = int(snapst.RefreshInhibitedTime.Unix() - c10Epoch)
	}
	o.NotBlocked = []int{}
	for r, v := range snapst.RevertStatus {
		if v == snapstate.NotBlocked {
			o.NotBlocked = append(o.NotBlocked, r)
		} else {
			o.OtherRS++
		}
	}
	sort.Ints(o.NotBlocked)
	o.Block = []int{}
	for _, r := range snapst.Block() {
		o.Block = append(o.Block, r.N)
	}
	o.Cfg = c10CfgVal(c, s.state, c10Snap)
	o.RevCfg = [][2]int{}
	var revcfg map[string]map[string]*json.RawMessage
	if err := s.state.Get("revision-config", &revcfg); err == nil {
		for rs, raw := range revcfg[c10Snap] {
			r, _ := strconv.Atoi(rs)
			o.RevCfg = append(o.RevCfg, [2]int{r, c10RawVal(c, raw)})
		}
	}
	sort.Slice(o.RevCfg, func(i, j int) bool { return o.RevCfg[i][0] < o.RevCfg[j][0] })
	o.Mounted = []int{}
	for r := range w.mounted {
		o.Mounted = append(o.Mounted, r)
	}
	sort.Ints(o.Mounted)
	o.Link = w.link
	return o
}

func c10RawVal(c *C, raw *json.RawMessage) int {
	if raw == nil {
		return 0
	}
	var m map[string]interface{}
	if err := json.Unmarshal(*raw, &m); err != nil {
		c.Fatalf("config: %v", err)
	}
	if v, ok := m["k"].(float64); ok {
		return int(v)
	}
	return 0
}

func c10CfgVal(c *C, st *state.State, name string) int {
	raw, err := config.GetSnapConfig(st, name)
	if err != nil {
		c.Fatalf("GetSnapConfig: %v", err)
	}
	return c10RawVal(c, raw)
}

// world model derived from what snapd asks the backend to do
type c10World struct {
	mounted map[int]bool
	link    int
	copies  int
	seen    int
}

func c10RevOfPath(p string) (string, int) {
	// .../snap/<name>/<rev>
	rev, err := strconv.Atoi(filepath.Base(p))
	if err != nil {
		return "", 0
	}
	return filepath.Base(filepath.Dir(p)), rev
}

func (w *c10World) absorb(ops fakeOps) {
	for ; w.seen < len(ops); w.seen++ {
		op := ops[w.seen]
		switch op.op {
		case "setup-snap":
			if op.name == c10Snap {
				w.mounted[op.revno.N] = true
			}
		case "undo-setup-snap", "remove-snap-files":
			if n, r := c10RevOfPath(op.path); n == c10Snap {
				delete(w.mounted, r)
			}
		case "link-snap":
			if n, r := c10RevOfPath(op.path); n == c10Snap {
				w.link = r
			}
		case "unlink-snap":
			if n, _ := c10RevOfPath(op.path); n == c10Snap {
				w.link = 0
			}
		case "copy-data":
			if n, _ := c10RevOfPath(op.path); n == c10Snap {
				w.copies++
			}
		}
	}
}

const c10Epoch = 1600000000

// ---------------------------------------------------------------------------------------------- execution

func (s *verifC10Suite) retain() int { return snapstate.RefreshRetain(s.state) }

// per-history bookkeeping of the driver
type c10Run struct {
	w      *c10World
	now    int
	maxRev int    // highest revision ever asked for
	rset   string // refresh.retain as set by the history
	last   c10State
	seed   c10State
}

func (r *c10Run) kept(hint int) int {
	seq := r.last.Seq
	if hint <= 0 || len(seq) == 0 {
		return 99
	}
	return seq[(hint-1)%len(seq)]
}

func c10SnapID() string {
	if c10Snap == "core" {
		return "core-snap-id" // the id the suite's fake store knows for the core snap
	}
	return c10Snap + "-id"
}

// emulate the data directories the real backend manages: undoUnlinkSnap looks at them
func c10DataDirs(fop *fakeOp) {
	name, rev := c10RevOfPath(fop.path)
	if name != c10Snap {
		return
	}
	pi := snap.MinimalPlaceInfo(name, snap.R(rev))
	switch fop.op {
	case "copy-data":
		os.MkdirAll(pi.DataDir(), 0755)
		os.MkdirAll(pi.CommonDataDir(), 0755)
	case "remove-snap-data":
		os.RemoveAll(pi.DataDir())
	case "remove-snap-common-data":
		os.RemoveAll(pi.CommonDataDir())
	}
}

// the suite's settle gives up after 5 s, which a loaded machine can exceed for one change: same thing with a long timeout
func (s *verifC10Suite) settleLong(c *C) {
	s.state.Unlock()
	defer s.state.Lock()
	if err := s.o.Settle(2 * time.Minute); err != nil {
		s.state.Lock()
		defer s.state.Unlock()
		s.logTasks(c)
		c.Fatalf("settle: %v", err)
	}
}

// settle, running again the tasks that answered state.Retry (discard-snap after a failed RemoveSnapFiles asks to be retried
// in 3 minutes): their wait is cleared, as if the time had passed. Returns how many retries were released.
func (s *verifC10Suite) settleRetrying(c *C, chg *state.Change) int {
	released := 0
	for i := 0; i < 400 && !chg.IsReady(); i++ {
		s.state.Unlock()
		s.se.Ensure()
		s.se.Wait()
		s.state.Lock()
		for _, t := range chg.Tasks() {
			if t.Status() == state.DoingStatus && !t.AtTime().IsZero() {
				t.At(time.Time{})
				released++
			}
		}
	}
	s.settleLong(c) // cleanup handlers, pending ensures
	return released
}

// one operation = one change (or a refusal). State lock held by the caller.
func (s *verifC10Suite) runOp(c *C, op c10Op, run *c10Run, fail int) c10Step {
	st := s.state
	run.now++
	now := run.now
	step := c10Step{Op: op, Now: now, Retain: s.retain(), Before: run.last}
	var ts *state.TaskSet
	var err error
	flags := snapstate.Flags{DevMode: op.Flags&c10DevMode != 0, JailMode: op.Flags&c10JailMode != 0,
		IgnoreValidation: op.Flags&c10IgnoreValidation != 0}
	ropts := &snapstate.RevisionOptions{Channel: c10Chans[op.Chan%len(c10Chans)]}
	s.hookCfg = 0
	if op.Flags&c10HookCfg != 0 {
		s.hookCfg = 1000 + now
	}
	rev := op.Rev
	// the entry points run in this goroutine: a panic of the real code (e.g. CurrentSideInfo on a state whose current
	// revision is not kept) is recovered and reported as an observation instead of killing the driver
	func() {
		defer func() {
			if r := recover(); r != nil {
				step.Panic = fmt.Sprint(r)
				ts, err = nil, errors.New("panic: "+step.Panic)
			}
		}()
		switch op.Kind {
		case "install":
			if rev <= 0 {
				rev = 1
			}
			ropts.Revision = snap.R(rev)
			ts, err = snapstate.Install(context.Background(), st, c10Snap, ropts, s.user.ID, flags)
		case "refresh":
			if c10Snap == "core" {
				// what boot.InUse (snapstate's inUseFor) reads on the UC16 model: the revisions named by snap_core / snap_try_core
				use := op.InUse
				if len(use) == 0 {
					use = []int{run.last.Current}
				}
				vars := map[string]string{"snap_mode": "", "snap_core": "core_" + strconv.Itoa(use[0]) + ".snap", "snap_try_core": ""}
				if len(use) > 1 {
					vars["snap_try_core"] = "core_" + strconv.Itoa(use[1]) + ".snap"
				}
				s.bl.SetBootVars(vars)
				step.InUse = use
			}
			seq := run.last.Seq
			if op.Rev <= 0 || len(seq) <= 1 {
				rev = run.maxRev + 1
			} else {
				i := (op.Rev - 1) % len(seq)
				if seq[i] == run.last.Current {
					i = (i + 1) % len(seq)
				}
				rev = seq[i]
			}
			ropts.Revision = snap.R(rev)
			s.fakeStore.refreshRevnos = map[string]snap.Revision{c10SnapID(): snap.R(rev)}
			ts, err = snapstate.Update(st, c10Snap, ropts, s.user.ID, flags)
		case "refresh-path":
			// refresh from a local file (sideload: `snap install ./some-snap_N.snap` with store metadata for revision N):
			// always a revision never seen before. mksquashfs is not available offline: the local snap is a snap directory
			// (meta/snap.yaml), which backend.OpenSnapFile and the suite's fake OpenSnapFile both read
			rev = run.maxRev + 1
			dir := filepath.Join(c.MkDir(), c10Snap+"_"+strconv.Itoa(rev))
			if e := os.MkdirAll(filepath.Join(dir, "meta"), 0755); e != nil {
				c.Fatal(e)
			}
			if e := os.WriteFile(filepath.Join(dir, "meta", "snap.yaml"), []byte("name: "+c10Snap+"\nversion: 1.0\nepoch: 1*\n"), 0644); e != nil {
				c.Fatal(e)
			}
			si := &snap.SideInfo{RealName: c10Snap, SnapID: c10SnapID(), Revision: snap.R(rev)}
			ts, _, err = snapstate.InstallPath(st, si, dir, "", ropts.Channel, flags, nil)
		case "revert":
			rev = 0
			if op.Flags&c10NotBlocked != 0 {
				flags.RevertStatus = snapstate.NotBlocked
			}
			ts, err = snapstate.Revert(st, c10Snap, flags, "")
		case "revert-to":
			rev = run.kept(op.Rev)
			if op.Flags&c10NotBlocked != 0 {
				flags.RevertStatus = snapstate.NotBlocked
			}
			ts, err = snapstate.RevertToRevision(st, c10Snap, snap.R(rev), flags, "")
		case "remove":
			rev = 0
			ts, err = snapstate.Remove(st, c10Snap, snap.R(0), nil)
		case "remove-rev":
			rev = run.kept(op.Rev)
			ts, err = snapstate.Remove(st, c10Snap, snap.R(rev), nil)
		case "enable":
			ts, err = snapstate.Enable(st, c10Snap)
		case "disable":
			ts, err = snapstate.Disable(st, c10Snap)
		case "retain", "retain-str":
			tr := config.NewTransaction(st)
			if op.Kind == "retain" {
				tr.Set("core", "refresh.retain", op.Rev)
				run.rset = "n" + strconv.Itoa(op.Rev)
			} else {
				tr.Set("core", "refresh.retain", strconv.Itoa(op.Rev))
				run.rset = "s" + strconv.Itoa(op.Rev)
			}
			tr.Commit()
			step.Retain = s.retain()
		case "setcfg":
			// what `snap set some-snap k=<v>` leaves in the state (only on an installed snap)
			if len(run.last.Seq) > 0 {
				tr := config.NewTransaction(st)
				tr.Set(c10Snap, "k", op.Rev)
				tr.Commit()
			} else {
				err = errors.New("not installed")
			}
		case "inhibit":
			// what the refresh-app-awareness inhibition records on a running snap
			var snapst snapstate.SnapState
			if e := snapstate.Get(st, c10Snap, &snapst); e == nil {
				t := time.Unix(c10Epoch+int64(now), 0)
				snapst.RefreshInhibitedTime = &t
				snapstate.Set(st, c10Snap, &snapst)
			} else {
				err = e
			}
		default:
			c.Fatalf("unknown op kind %q", op.Kind)
		}
	}()
	if (op.Kind == "install" || op.Kind == "refresh" || op.Kind == "refresh-path") && rev > run.maxRev && rev != 99 {
		run.maxRev = rev
	}
	step.Rev = rev
	step.RSet = run.rset
	step.HookCfg = s.hookCfg
	if err != nil {
		step.Err = true
		step.ErrMsg = err.Error() // for the reader of a replay file; never compared
	}
	if ts != nil && err == nil {
		tasks := ts.Tasks()
		chg := st.NewChange("verif-"+op.Kind, "...")
		chg.AddAll(ts)
		// Update appends check-rerefresh, which insists on being the last task of its change: it is not a failure
		// position of its own (a failure `after the last task` runs before it) and it is not part of the compared chain
		var rerefresh *state.Task
		if n := len(tasks); n > 0 && tasks[n-1].Kind() == "check-rerefresh" {
			rerefresh = tasks[n-1]
			tasks = tasks[:n-1]
		}
		for _, t := range tasks {
			k := c10Kind(t)
			r := 0
			if sup, e := snapstate.TaskSnapSetup(t); e == nil && sup.SideInfo != nil {
				r = sup.Revision().N
			}
			step.Kinds = append(step.Kinds, k)
			step.KRevs = append(step.KRevs, r)
		}
		if sup, e := snapstate.TaskSnapSetup(tasks[0]); e == nil {
			step.Sup = &c10Sup{Rev: sup.Revision().N, Chan: sup.Channel, DevMode: sup.DevMode, JailMode: sup.JailMode,
				Classic: sup.Classic, TryMode: sup.TryMode, IgnoreVal: sup.IgnoreValidation, Cohort: sup.CohortKey,
				Revert: sup.Revert, NotBlocked: sup.RevertStatus == snapstate.NotBlocked}
		}
		step.NPos = len(tasks) + 1
		k := 0
		if fail > 0 {
			k = 1 + (fail-1)%(len(tasks)+1)
			terr := st.NewTask("error-trigger", "injected failure")
			for _, l := range tasks[0].Lanes() {
				if l != 0 {
					terr.JoinLane(l)
				}
			}
			if k <= len(tasks) {
				for _, wt := range tasks[k-1].WaitTasks() {
					terr.WaitFor(wt)
				}
				tasks[k-1].WaitFor(terr)
			} else {
				for _, t := range tasks {
					terr.WaitFor(t)
				}
				if rerefresh != nil {
					rerefresh.WaitFor(terr)
				}
			}
			chg.AddTask(terr)
		}
		step.K = k
		fired := false
		s.fakeBackend.maybeInjectErr = func(fop *fakeOp) error {
			if op.Inside != "" && op.Inside != "link-snap" && !fired && fop.op == op.Inside {
				if n, _ := c10RevOfPath(fop.path); n == c10Snap {
					fired = true
					fop.op += ".failed" // the call had no effect: not part of the world
					return errors.New("injected transient backend failure")
				}
			}
			c10DataDirs(fop)
			return nil
		}
		if op.Inside == "link-snap" && step.Sup != nil {
			s.fakeBackend.linkSnapFailTrigger = snap.MinimalPlaceInfo(c10Snap, snap.R(step.Sup.Rev)).MountDir()
		}
		if op.Inside == "remove-snap-files" {
			step.Retried = s.settleRetrying(c, chg)
		} else {
			s.settleLong(c)
		}
		s.fakeBackend.maybeInjectErr = nil
		s.fakeBackend.linkSnapFailTrigger = ""
		if op.Inside != "" && k == 0 && chg.Status() == state.ErrorStatus {
			// a task failed inside: report its position (the model's handlers have no recorded effect before their first
			// backend call, so this is a failure at that position)
			for i, t := range tasks {
				if t.Status() == state.ErrorStatus {
					k = i + 1
					break
				}
			}
			step.K = k
		}
		step.Status = chg.Status().String()
		if !chg.IsReady() {
			c.Fatalf("change not ready: %v", chg.Status())
		}
		// the order of ts.Tasks() is the order in which the tasks ran
		if k == 0 {
			for i := 1; i < len(tasks); i++ {
				if tasks[i].ReadyTime().Before(tasks[i-1].ReadyTime()) {
					c.Fatalf("tasks did not run in list order: %s before %s", tasks[i].Kind(), tasks[i-1].Kind())
				}
			}
		}
		// keep the state small: forget the finished change
		st.Prune(time.Now(), 0, time.Hour, 0)
	}
	c0 := run.w.copies
	run.w.absorb(s.fakeBackend.ops)
	step.Copies = run.w.copies - c0
	step.After = s.observe(c, run.w)
	run.last = step.After
	return step
}

// the kind of a task as the model sees it: run-hook tasks are told apart by their hook name
func c10Kind(t *state.Task) string {
	if t.Kind() == "run-hook" {
		var hs hookstate.HookSetup
		if err := t.Get("hook-setup", &hs); err == nil {
			return "hook:" + hs.Hook
		}
	}
	return t.Kind()
}

// the real code panicked, or left a state it panics on (current revision not among the kept ones): the history ends
// here; the monitors have their failing observation
func c10Broken(x c10Step) bool {
	if x.Panic != "" {
		return true
	}
	if len(x.After.Seq) == 0 {
		return false
	}
	for _, r := range x.After.Seq {
		if r == x.After.Current {
			return false
		}
	}
	return true
}

func (s *verifC10Suite) play(c *C, in c10In) ([]c10Step, c10State) {
	// gocheck has set the suite up once for the test method: every history gets a fresh overlord/state/backend
	s.TearDownTest(c)
	s.SetUpTest(c)
	c10Snap = "some-snap"
	if in.Snap != "" {
		c10Snap = in.Snap
	}
	s.AddCleanup(release.MockOnClassic(!in.Core))
	run := &c10Run{w: &c10World{mounted: map[int]bool{}}}
	run.last = c10State{Seq: []int{}, NotBlocked: []int{}, Block: []int{}, RevCfg: [][2]int{}, Mounted: []int{}}
	s.AddCleanup(snapstate.MockTimeNow(func() time.Time { return time.Unix(c10Epoch+int64(run.now), 0) }))
	// the configure hook of the real hook manager runs the snap's hook script, which may `snapctl set`: stand-in
	// that writes the configuration through the same config.Transaction the hook context commits
	s.o.TaskRunner().AddHandler("run-hook", func(t *state.Task, _ *tomb.Tomb) error {
		st := t.State()
		st.Lock()
		defer st.Unlock()
		var hs hookstate.HookSetup
		if err := t.Get("hook-setup", &hs); err != nil {
			return err
		}
		if hs.Snap == c10Snap && hs.Hook == "configure" && s.hookCfg > 0 {
			tr := config.NewTransaction(st)
			tr.Set(c10Snap, "k", s.hookCfg)
			tr.Commit()
		}
		return nil
	}, nil)

	s.state.Lock()
	defer s.state.Unlock()
	if in.Seed > 0 {
		// the history starts from an installed snap: the record is written as snapd would have left it, the world matches it
		var sis []*snap.SideInfo
		for r := 1; r <= in.Seed; r++ {
			sis = append(sis, &snap.SideInfo{RealName: c10Snap, SnapID: c10SnapID(), Revision: snap.R(r)})
			run.w.mounted[r] = true
			run.last.Seq = append(run.last.Seq, r)
			run.last.Mounted = append(run.last.Mounted, r)
		}
		typ := "app"
		if c10Snap == "core" {
			typ = "os"
		}
		snapstate.Set(s.state, c10Snap, &snapstate.SnapState{Active: true, Sequence: snapstatetest.NewSequenceFromSnapSideInfos(sis),
			Current: snap.R(in.Seed), SnapType: typ, TrackingChannel: "latest/stable"})
		run.w.link = in.Seed
		run.maxRev = in.Seed
		run.last = s.observe(c, run.w)
	}
	run.seed = run.last
	var steps []c10Step
	for _, op := range in.Ops {
		if op.Sweep {
			for k := 1; ; k++ {
				st := s.runOp(c, op, run, k)
				if c10Broken(st) {
					steps = append(steps, st)
					return steps, run.seed
				}
				// every executed step is recorded (with its effective position), also the one that ends the sweep
				steps = append(steps, st)
				if st.K != k { // refused, or k is past the last position of the (possibly shorter) chain
					break
				}
			}
			if n := len(steps); n > 0 && steps[n-1].Err {
				continue
			}
			steps = append(steps, s.runOp(c, op, run, 0))
			continue
		}
		steps = append(steps, s.runOp(c, op, run, op.Fail))
		if c10Broken(steps[len(steps)-1]) {
			break
		}
	}
	return steps, run.seed
}

// ---------------------------------------------------------------------------------------------- Coq rendering

var c10KindCoq = map[string]string{
	"prerequisites": "KPrereq", "prepare-snap": "KPrepare", "download-snap": "KDownload", "validate-snap": "KValidate",
	"mount-snap": "KMount", "hook:pre-refresh": "KPreRefresh", "stop-snap-services": "KStop", "remove-aliases": "KRemoveAliases",
	"unlink-current-snap": "KUnlinkCurrent", "copy-snap-data": "KCopyData", "setup-profiles": "KSetupProfiles",
	"link-snap": "KLink", "auto-connect": "KAutoConnect", "set-auto-aliases": "KSetAutoAliases", "setup-aliases": "KSetupAliases",
	"hook:post-refresh": "KPostRefresh", "hook:install": "KInstallHook", "hook:default-configure": "KDefaultConfigure",
	"start-snap-services": "KStart", "clear-snap": "KClear", "discard-snap": "KDiscard", "cleanup": "KCleanup",
	"hook:configure": "KConfigure", "hook:check-health": "KCheckHealth", "hook:remove": "KRemoveHook",
	"auto-disconnect": "KAutoDisconnect", "save-snapshot": "KSaveSnapshot", "unlink-snap": "KUnlinkSnap",
	"remove-profiles": "KRemoveProfiles",
}

var c10OpCoq = map[string]string{"install": "OInstall", "refresh": "ORefresh", "refresh-path": "ORefresh", "revert": "ORevert", "revert-to": "ORevert",
	"remove": "ORemove", "remove-rev": "ORemoveRev", "enable": "OEnable", "disable": "ODisable", "setcfg": "OSetCfg",
	"inhibit": "OInhibit", "retain": "ORetain", "retain-str": "ORetain"}

// SnapState.SetTrackingChannel stores channel.Full(name): the identifiers are those of the normalised names
func c10ChanID(ch string) uint64 {
	if ch != "" {
		if full, err := channel.Full(ch); err == nil {
			ch = full
		}
	}
	for i, x := range c10Chans {
		if x == ch {
			return uint64(i)
		}
	}
	return 99
}

func c10CohortID(k string) uint64 {
	if k == "" {
		return 0
	}
	return 99
}

func c10NList(xs []int) string {
	items := make([]string, len(xs))
	for i, x := range xs {
		items[i] = vh.CoqN(uint64(x))
	}
	return vh.CoqList(items)
}

func c10StateCoq(o c10State) string {
	rc := make([]string, len(o.RevCfg))
	for i, kv := range o.RevCfg {
		rc[i] = vh.CoqTuple(vh.CoqN(uint64(kv[0])), vh.CoqN(uint64(kv[1])))
	}
	return "(mkSt " + strings.Join([]string{c10NList(o.Seq), vh.CoqN(uint64(o.Current)), vh.CoqBool(o.Active),
		vh.CoqN(c10ChanID(o.Chan)), vh.CoqBool(o.DevMode), vh.CoqBool(o.JailMode), vh.CoqBool(o.Classic), vh.CoqBool(o.TryMode),
		vh.CoqBool(o.IgnoreVal), vh.CoqN(c10CohortID(o.Cohort)), vh.CoqN(uint64(o.LastRefr)), vh.CoqN(uint64(o.Inhibited)),
		c10NList(o.NotBlocked), vh.CoqN(uint64(o.Cfg)), vh.CoqList(rc), c10NList(o.Mounted), vh.CoqN(uint64(o.Link))}, " ") + ")"
}

func c10StepCoq(x c10Step, classic bool) string {
	sup := x.Sup
	if sup == nil {
		sup = &c10Sup{Rev: x.Rev}
	}
	rev := sup.Rev
	if x.Op.Kind == "remove-rev" || x.Op.Kind == "setcfg" {
		rev = x.Rev
	}
	if x.Op.Kind == "setcfg" {
		rev = x.Op.Rev
	}
	okind := c10OpCoq[x.Op.Kind]
	if x.Op.Kind == "refresh-path" && len(x.Before.Seq) == 0 {
		okind = "OInstall" // InstallPath on a snap that is not installed: an install from a local file
	}
	op := "(mkOp " + strings.Join([]string{okind, vh.CoqN(uint64(rev)), vh.CoqBool(x.Op.Kind == "revert"),
		vh.CoqN(c10ChanID(sup.Chan)), vh.CoqBool(sup.DevMode), vh.CoqBool(sup.JailMode), vh.CoqBool(sup.Classic),
		vh.CoqBool(sup.TryMode), vh.CoqBool(sup.IgnoreVal), vh.CoqN(c10CohortID(sup.Cohort)), vh.CoqBool(sup.NotBlocked),
		vh.CoqN(uint64(x.HookCfg)), vh.CoqN(uint64(x.Now)), vh.CoqBool(x.Op.Kind != "refresh-path")}, " ") + ")"
	rset := "RUnset"
	if len(x.RSet) > 1 {
		n, _ := strconv.Atoi(x.RSet[1:])
		if x.RSet[0] == 'n' {
			rset = "(RNum " + vh.CoqZ(int64(n)) + ")"
		} else {
			rset = "(RStr " + vh.CoqZ(int64(n)) + ")"
		}
	}
	chain := make([]string, len(x.Kinds))
	for i, k := range x.Kinds {
		ck, ok := c10KindCoq[k]
		if !ok {
			ck = "KOther"
		}
		chain[i] = vh.CoqTuple(ck, vh.CoqN(uint64(x.KRevs[i])))
	}
	return "(mkStep " + strings.Join([]string{op, vh.CoqNat(x.K), rset, vh.CoqBool(classic), vh.CoqZ(int64(x.Retain)),
		vh.CoqBool(x.Err), vh.CoqList(chain), c10NList(x.After.Block), vh.CoqN(uint64(x.Copies)), c10NList(x.InUse), c10StateCoq(x.After)}, " ") + ")"
}

// ---------------------------------------------------------------------------------------------- generation

func c10Pick3(r *vh.Rand, a, b, c int) int { return []int{a, b, c}[r.Intn(3)] }

func c10RandOp(r *vh.Rand, installed bool) c10Op {
	var op c10Op
	p := r.Intn(100)
	switch {
	case !installed && p < 80:
		op = c10Op{Kind: "install", Rev: r.Range(1, 3), Chan: r.Intn(4)}
	case p < 8:
		op = c10Op{Kind: "refresh-path", Chan: c10Pick3(r, 0, 0, r.Intn(4))}
	case p < 30:
		op = c10Op{Kind: "refresh", Rev: 0, Chan: c10Pick3(r, 0, 0, r.Intn(4))}
	case p < 45:
		op = c10Op{Kind: "refresh", Rev: r.Range(1, 6), Chan: c10Pick3(r, 0, 0, r.Intn(4))}
	case p < 55:
		op = c10Op{Kind: "revert"}
	case p < 65:
		op = c10Op{Kind: "revert-to", Rev: r.Range(0, 6)}
	case p < 69:
		op = c10Op{Kind: "remove"}
	case p < 75:
		op = c10Op{Kind: "remove-rev", Rev: r.Range(0, 6)}
	case p < 80:
		op = c10Op{Kind: "disable"}
	case p < 86:
		op = c10Op{Kind: "enable"}
	case p < 90:
		return c10Op{Kind: "retain", Rev: c10Pick3(r, 2, 3, r.Range(2, 6))}
	case p < 92:
		return c10Op{Kind: "retain-str", Rev: r.Range(2, 5)}
	case p < 96:
		return c10Op{Kind: "setcfg", Rev: r.Range(1, 9)}
	default:
		return c10Op{Kind: "inhibit"}
	}
	switch r.Intn(6) {
	case 0:
		op.Flags |= c10DevMode
	case 1:
		op.Flags |= c10JailMode
	}
	if r.Chance(1, 5) {
		op.Flags |= c10IgnoreValidation
	}
	if r.Chance(1, 2) {
		op.Flags |= c10NotBlocked
	}
	if r.Chance(1, 3) {
		op.Flags |= c10HookCfg
	}
	if r.Chance(1, 2) {
		op.Fail = r.Range(1, 60)
	} else if r.Chance(1, 6) {
		op.Inside = r.Pick([]string{"remove-snap-files", "remove-snap-files", "unlink-snap", "link-snap", "remove-snap-data", "copy-data"})
	}
	return op
}

// base histories whose last operation is swept over every failure position
func c10Sweeps(tier string) []c10In {
	inst := c10Op{Kind: "install", Rev: 1, Chan: 1}
	newr := c10Op{Kind: "refresh", Rev: 0}
	hook := c10HookCfg
	sw := func(op c10Op) c10Op { op.Sweep = true; return op }
	ins := []c10In{
		{Ops: []c10Op{sw(c10Op{Kind: "install", Rev: 1, Chan: 2, Flags: c10DevMode | hook})}},
		{Ops: []c10Op{inst, {Kind: "setcfg", Rev: 5}, sw(c10Op{Kind: "refresh", Chan: 2, Flags: c10JailMode | hook})}},
		// refresh with garbage collection (retain 2: the oldest of [1,2] goes)
		{Ops: []c10Op{inst, newr, {Kind: "setcfg", Rev: 5}, sw(c10Op{Kind: "refresh", Flags: hook})}},
		// refresh back to a kept revision, the sequence is reordered and put back
		{Core: true, Ops: []c10Op{inst, newr, newr, {Kind: "setcfg", Rev: 5}, sw(c10Op{Kind: "refresh", Rev: 2})}},
		// revert (blocking and not blocking)
		{Core: true, Ops: []c10Op{inst, newr, {Kind: "setcfg", Rev: 5}, newr, {Kind: "inhibit"}, sw(c10Op{Kind: "revert", Flags: hook})}},
		{Core: true, Ops: []c10Op{inst, newr, newr, {Kind: "setcfg", Rev: 5}, sw(c10Op{Kind: "revert-to", Rev: 1, Flags: c10NotBlocked})}},
		// finding 6 and 7: current 1 after a not-blocking revert from 3, refresh to the kept revision 3
		{Core: true, Ops: []c10Op{inst, newr, newr, {Kind: "revert-to", Rev: 1, Flags: c10NotBlocked}, sw(c10Op{Kind: "refresh", Rev: 3})}},
		// a snap without configuration whose configure hook writes some
		{Ops: []c10Op{inst, sw(c10Op{Kind: "refresh", Flags: hook})}},
		// undo of a refresh to a KEPT revision after several discards (countMissingRevs with a non-zero count): the snap holds
		// more revisions than retain because the setting was lowered; target in the middle, some of the revisions before it go
		{Core: true, Ops: []c10Op{{Kind: "retain", Rev: 6}, inst, newr, newr, newr, newr, {Kind: "retain", Rev: 2},
			sw(c10Op{Kind: "refresh", Rev: 4})}},
		{Core: true, Ops: []c10Op{{Kind: "retain", Rev: 5}, inst, newr, newr, newr, {Kind: "revert"}, {Kind: "retain", Rev: 2},
			sw(c10Op{Kind: "refresh", Rev: 2, Flags: hook})}},
		// C13: reverts in both directions with both flags: a not-blocking revert 3->2 marks 3, a forward revert-to 3 keeps the
		// mark, a plain revert 3->2 must drop it again (Block() = [3]); and the other way round
		{Core: true, Ops: []c10Op{inst, newr, newr, {Kind: "revert", Flags: c10NotBlocked}, {Kind: "revert-to", Rev: 3},
			{Kind: "revert"}, {Kind: "revert-to", Rev: 3, Flags: c10NotBlocked}, {Kind: "revert-to", Rev: 1},
			{Kind: "revert-to", Rev: 3}, {Kind: "revert", Flags: c10NotBlocked}, {Kind: "revert"}, {Kind: "revert-to", Rev: 2},
			{Kind: "revert-to", Rev: 1, Flags: c10NotBlocked}}},
		// C12: refresh from a LOCAL file (InstallPath) on a snap that already holds retain revisions: default 2 (classic),
		// default 3 (core), configured number, legacy string; one slot is reserved for the new revision whatever its source
		{Ops: []c10Op{inst, newr, {Kind: "refresh-path"}, {Kind: "refresh-path", Fail: 30}, {Kind: "refresh-path"}, newr}},
		{Core: true, Ops: []c10Op{inst, newr, newr, {Kind: "refresh-path"}, {Kind: "retain", Rev: 2}, {Kind: "refresh-path"}}},
		{Ops: []c10Op{{Kind: "retain-str", Rev: 3}, inst, {Kind: "refresh-path"}, {Kind: "refresh-path"}, sw(c10Op{Kind: "refresh-path", Flags: hook})}},
		// C12: two kept revisions after the current one (reverted twice), refresh to the first of them: the other goes
		{Core: true, Ops: []c10Op{inst, newr, newr, {Kind: "revert"}, {Kind: "revert"}, {Kind: "refresh", Rev: 2}}},
		{Core: true, Ops: []c10Op{{Kind: "retain", Rev: 5}, inst, newr, newr, newr, {Kind: "revert-to", Rev: 1, Flags: c10NotBlocked},
			sw(c10Op{Kind: "refresh", Rev: 3})}},
		// C11: nothing is left of a removed snap, also when its revisions have saved configuration snapshots
		// (revision-config): config set, refresh (snapshot of 1), revert (snapshot of 2, current 1 has one), remove
		{Ops: []c10Op{inst, {Kind: "setcfg", Rev: 5}, newr, {Kind: "revert"}, {Kind: "remove"}}},
		// ... config written by the configure hook; remove --revision of revisions with snapshots, the last one removes the snap;
		// then the same revision is installed again, refreshed and reverted
		{Core: true, Ops: []c10Op{{Kind: "install", Rev: 1, Chan: 1, Flags: hook}, newr, newr, {Kind: "revert-to", Rev: 1},
			{Kind: "remove-rev", Rev: 3}, {Kind: "remove-rev", Rev: 2}, {Kind: "disable"}, {Kind: "remove-rev", Rev: 1},
			inst, newr, {Kind: "revert"}}},
		{Ops: []c10Op{inst, {Kind: "setcfg", Rev: 6}, newr, {Kind: "revert"}, {Kind: "disable"}, {Kind: "remove"}}},
		// C11: handlers that fail midway. A transient RemoveSnapFiles failure makes discard-snap answer state.Retry: it is run
		// again (remove --revision with exactly two kept revisions, garbage collection, remove of the whole snap)
		{Ops: []c10Op{inst, newr, {Kind: "remove-rev", Rev: 1, Inside: "remove-snap-files"}, newr,
			{Kind: "refresh", Inside: "remove-snap-files"}, {Kind: "revert"}, {Kind: "remove", Inside: "remove-snap-files"}}},
		{Ops: []c10Op{inst, newr, {Kind: "disable"}, {Kind: "remove-rev", Rev: 2, Inside: "remove-snap-files"}, {Kind: "enable"}}},
		// ... and backend calls of link-snap / unlink-current-snap / unlink-snap / clear-snap that fail: the task fails, the change is undone
		{Ops: []c10Op{inst, newr, {Kind: "refresh", Inside: "link-snap"}, {Kind: "refresh", Inside: "unlink-snap"},
			{Kind: "disable", Inside: "unlink-snap"}, {Kind: "remove", Inside: "remove-snap-data"}, {Kind: "remove", Inside: "unlink-snap"},
			{Kind: "install", Rev: 9, Inside: "link-snap"}, {Kind: "revert", Inside: "link-snap"},
			{Kind: "refresh", Inside: "copy-data"}, {Kind: "refresh-path", Inside: "copy-data"}}},
		// C12: the boot base `core` of the UC16 model: revisions named by snap_core / snap_try_core are in use and are never
		// garbage-collected (boot.InUse through snapstate's inUseFor); retain 3 (default) and lowered to 2
		// (refresh.retain is configuration OF the core snap: setting it would give the snap under test a configuration entry
		// the projection does not describe, so these histories run with the default 3 of a core device)
		{Core: true, Snap: "core", Seed: 4, Ops: []c10Op{{Kind: "refresh", InUse: []int{2, 1}}, {Kind: "refresh", InUse: []int{5}},
			{Kind: "refresh", InUse: []int{4, 6}}, {Kind: "refresh", InUse: []int{4}}, {Kind: "refresh", Rev: 1, InUse: []int{6, 8}}}},
		// ... a seeded history whose FIRST operation fails after three completed discards (the recorded fail-after-discard
		// class met from the seeded start state), and a second failing refresh on the already garbage-collected state
		{Core: true, Snap: "core", Seed: 6, Ops: []c10Op{{Kind: "refresh", Fail: 23, InUse: []int{4, 5}},
			{Kind: "refresh", Fail: 20, InUse: []int{6}}, {Kind: "refresh", InUse: []int{5}}}},
		{Core: true, Snap: "core", Seed: 5, Ops: []c10Op{{Kind: "refresh", InUse: []int{1, 3}},
			{Kind: "refresh", InUse: []int{3}, Fail: 19}, {Kind: "refresh", InUse: []int{6, 3}}, {Kind: "refresh", InUse: []int{2}}}},
		// C11: failures at every task of remove / disable / enable changes (what the completed tasks' undo leaves)
		{Core: true, Ops: []c10Op{inst, {Kind: "setcfg", Rev: 3}, newr, newr, {Kind: "revert"}, sw(c10Op{Kind: "remove"})}},
		{Ops: []c10Op{inst, newr, sw(c10Op{Kind: "disable"}), sw(c10Op{Kind: "remove-rev", Rev: 1}), sw(c10Op{Kind: "enable"}),
			{Kind: "disable"}, sw(c10Op{Kind: "remove"})}},
		// C11: remove --revision of a disabled snap: the current one when it is not the last kept one (after a revert), a
		// non-current one, then the current one again, enable
		{Core: true, Ops: []c10Op{inst, newr, newr, {Kind: "revert"}, {Kind: "disable"}, {Kind: "remove-rev", Rev: 2},
			{Kind: "remove-rev", Rev: 2}, {Kind: "enable"}, {Kind: "refresh"}, {Kind: "disable"}, {Kind: "remove-rev", Rev: 1},
			{Kind: "remove-rev", Rev: 1}, {Kind: "enable"}}},
		// C11: remove the current revision of a disabled snap (Current moves to the last kept one), enable, remove all
		{Core: true, Ops: []c10Op{inst, newr, newr, {Kind: "disable"}, {Kind: "remove-rev", Rev: 3}, {Kind: "enable"},
			{Kind: "remove-rev", Rev: 1}, {Kind: "setcfg", Rev: 4}, {Kind: "remove", Fail: 9}, {Kind: "remove"}}},
	}
	if tier == "thorough" {
		ins = append(ins,
			c10In{Core: true, Ops: []c10Op{inst, newr, newr, {Kind: "revert"}, {Kind: "disable"}, sw(c10Op{Kind: "enable"})}},
			c10In{Core: true, Ops: []c10Op{inst, newr, newr, {Kind: "revert"}, sw(c10Op{Kind: "refresh"})}},
		)
	}
	return ins
}

func c10Gen(r *vh.Rand, tier string, n int) []c10In {
	ins := c10Sweeps(tier)
	if n == 0 {
		n = 40
	}
	for i := 0; i < n; i++ {
		in := c10In{Core: r.Chance(1, 2)}
		installed := false
		for j, m := 0, r.Range(3, 9); j < m; j++ {
			op := c10RandOp(r, installed)
			if op.Kind == "install" && op.Fail == 0 {
				installed = true
			}
			if op.Kind == "remove" && op.Fail == 0 {
				installed = false
			}
			in.Ops = append(in.Ops, op)
		}
		ins = append(ins, in)
	}
	// deep histories: more kept revisions than the (lowered) retain value, then refreshes to kept revisions in the middle that
	// fail late (after their discards), so that undoLinkSnap has to account for several missing revisions
	for i := 0; i < (n+2)/3; i++ {
		in := c10In{Core: r.Chance(1, 2), Ops: []c10Op{{Kind: "retain", Rev: r.Range(4, 6)}, {Kind: "install", Rev: 1, Chan: 1}}}
		for j, m := 0, r.Range(3, 5); j < m; j++ {
			in.Ops = append(in.Ops, c10Op{Kind: []string{"refresh", "refresh", "refresh-path"}[r.Intn(3)]})
		}
		if r.Chance(1, 3) {
			in.Ops = append(in.Ops, c10Op{Kind: "revert", Flags: c10Pick3(r, 0, c10NotBlocked, 0)})
		}
		in.Ops = append(in.Ops, c10Op{Kind: "retain", Rev: r.Range(2, 3)})
		for j, m := 0, r.Range(1, 3); j < m; j++ {
			op := c10Op{Kind: "refresh", Rev: r.Range(1, 6), Fail: r.Range(14, 40)}
			if r.Chance(1, 4) {
				op.Fail = 0
			}
			in.Ops = append(in.Ops, op)
		}
		in.Ops = append(in.Ops, c10RandOp(r, true))
		ins = append(ins, in)
	}
	// revert histories: several kept revisions, then reverts / revert-to in both directions, blocking and not, now and then a
	// refresh to one of the revisions after the current one
	for i := 0; i < (n+2)/3; i++ {
		in := c10In{Core: true, Ops: []c10Op{{Kind: "retain", Rev: r.Range(3, 5)}, {Kind: "install", Rev: 1, Chan: 1}}}
		if r.Chance(2, 3) { // with configuration, so that the reverts below leave revision-config snapshots
			in.Ops = append(in.Ops, c10Op{Kind: "setcfg", Rev: r.Range(1, 9)})
		}
		for j, m := 0, r.Range(2, 4); j < m; j++ {
			in.Ops = append(in.Ops, c10Op{Kind: "refresh"})
		}
		for j, m := 0, r.Range(4, 8); j < m; j++ {
			op := c10Op{Kind: "revert-to", Rev: r.Range(1, 5)}
			switch r.Intn(8) {
			case 0, 1, 2:
				op = c10Op{Kind: "revert"}
			case 3:
				op = c10Op{Kind: "refresh", Rev: r.Range(1, 5)}
			}
			if op.Kind != "refresh" && r.Chance(1, 2) {
				op.Flags |= c10NotBlocked
			}
			if r.Chance(1, 6) {
				op.Fail = r.Range(1, 40)
			}
			in.Ops = append(in.Ops, op)
		}
		if r.Chance(1, 2) { // the whole snap goes: nothing may be left, snapshots included
			in.Ops = append(in.Ops, c10Op{Kind: "remove"})
		}
		ins = append(ins, in)
	}
	// the boot base: refreshes with boot in-use revisions chosen at random among the kept ones
	for i := 0; i < (n+3)/4; i++ {
		seed := r.Range(3, 6)
		in := c10In{Core: true, Snap: "core", Seed: seed}
		next := seed
		for j, m := 0, r.Range(3, 6); j < m; j++ {
			op := c10Op{Kind: "refresh", InUse: []int{r.Range(1, next)}}
			if r.Chance(1, 2) {
				op.InUse = append(op.InUse, r.Range(1, next))
			}
			if r.Chance(1, 5) {
				op.Rev = r.Range(1, 5) // to a kept revision
			} else {
				next++
			}
			if r.Chance(1, 5) {
				op.Fail = r.Range(1, 40)
			}
			in.Ops = append(in.Ops, op)
		}
		ins = append(ins, in)
	}
	return ins
}

func (s *verifC10Suite) exec(c *C, in c10In) vh.Out {
	steps, seed := s.play(c, in)
	if in.Seed > 0 && len(steps) > 0 {
		steps[0].Seed = &seed // readers of the JSON record (classify) need the start state of a seeded history
	}
	coq := make([]string, len(steps))
	tagset := map[string]bool{}
	nontrivial := false
	for i, x := range steps {
		coq[i] = c10StepCoq(x, !in.Core)
		tagset["op:"+x.Op.Kind] = true
		if x.Err {
			tagset["refused:"+x.Op.Kind] = true
		}
		if x.Panic != "" {
			tagset["panic:"+x.Op.Kind] = true
		}
		if x.K > 0 {
			pos := "after-last"
			if x.K <= len(x.Kinds) {
				pos = x.Kinds[x.K-1]
			}
			tagset["fail-at:"+pos] = true
			for j := 0; j < x.K-1 && j < len(x.Kinds); j++ {
				if x.Kinds[j] == "link-snap" {
					nontrivial = true
					tagset["undone-past-link"] = true
				}
				if x.Kinds[j] == "discard-snap" {
					tagset["undone-past-discard"] = true
				}
			}
		}
	}
	var tags []string
	for t := range tagset {
		tags = append(tags, t)
	}
	sort.Strings(tags)
	return vh.Out{Observed: steps, Coq: "(mkCase " + c10StateCoq(seed) + " " + vh.CoqList(coq) + ")", NonTrivial: nontrivial, Tags: tags}
}

func (s *verifC10Suite) TestVerifC10Driver(c *C) {
	if os.Getenv("VERIF_OUT") == "" && os.Getenv("VERIF_C10_PROBE") == "" {
		c.Skip("driver of the /verif checks; runs only under ./check")
	}
	if p := os.Getenv("VERIF_C10_PROBE"); p != "" {
		var in c10In
		if err := json.Unmarshal([]byte(p), &in); err != nil {
			c.Fatal(err)
		}
		steps, _ := s.play(c, in)
		for _, st := range steps {
			b, _ := json.Marshal(st)
			fmt.Println(string(b))
		}
		return
	}
	vh.Run(c10Gen, func(in c10In) vh.Out { return s.exec(c, in) })
}

var _ = filepath.Join
