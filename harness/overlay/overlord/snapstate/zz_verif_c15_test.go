//go:build verif

package snapstate

// C15 driver: runs histories of hold / proceed / refresh / clock operations against the real
// HoldRefresh, HoldRefreshesBySystem, ProceedWithRefresh, resetGatingForRefreshed and HeldSnaps, with the package clock
// (timeNow) set by the driver, and records after every operation the snaps-hold table and HeldSnaps at both levels.

import (
	"fmt"
	"math/big"
	"sort"
	"strings"
	"testing"
	"time"

	"github.com/snapcore/snapd/overlord/configstate/config"
	"github.com/snapcore/snapd/overlord/snapstate/sequence"
	"github.com/snapcore/snapd/overlord/state"
	"github.com/snapcore/snapd/snap"
	"github.com/snapcore/snapd/zzverif/vh"
)

type c15Op struct {
	K     string `json:"k"` // hold syshold proceed reset refreshed tick phase2 allhold snapholds gate
	// allhold: the option core refresh.hold: "unset", "forever" or "time" (T = offset from the base time)
	Mode string `json:"mode,omitempty"`
	Level int    `json:"level,omitempty"`
	G     int    `json:"g,omitempty"`
	Dur   int64  `json:"dur,omitempty"`
	Snaps []int  `json:"snaps,omitempty"`
	// syshold: end of the hold as an offset (ns) from the base time; Forever for "forever"
	T       int64 `json:"t,omitempty"`
	Forever bool  `json:"forever,omitempty"`
	S       int   `json:"s,omitempty"`
	D       int64 `json:"d,omitempty"` // tick
}

type c15In struct {
	N   int     `json:"n"`
	LR  []int64 `json:"lr"` // last refresh of snap i+1 as an offset (ns) from the base time
	Ops []c15Op `json:"ops"`
}

type c15Step struct {
	Res   string   `json:"res"`
	Table []string `json:"table"`
	Held0 []string `json:"held0"`
	Held1 []string `json:"held1"`
}

var c15Base = time.Date(2024, 3, 1, 0, 0, 0, 0, time.UTC)

const (
	c15H = int64(time.Hour)
	c15D = 24 * int64(time.Hour)
)

func c15Name(i int) string {
	if i == 0 {
		return "system"
	}
	return fmt.Sprintf("snap-%d", i)
}

func c15ID(name string) int {
	if name == "system" {
		return 0
	}
	var i int
	if _, err := fmt.Sscanf(name, "snap-%d", &i); err != nil {
		panic("unexpected snap name " + name)
	}
	return i
}

func c15Abs(t time.Time) *big.Int {
	z := new(big.Int).Mul(big.NewInt(t.Unix()), big.NewInt(1000000000))
	return z.Add(z, big.NewInt(int64(t.Nanosecond())))
}

func c15Z(z *big.Int) string {
	if z.Sign() < 0 {
		return "(" + z.String() + ")%Z"
	}
	return z.String() + "%Z"
}

func c15Ns(l []int) string {
	var xs []string
	for _, x := range l {
		xs = append(xs, vh.CoqN(uint64(x)))
	}
	return vh.CoqList(xs)
}

// ---------------------------------------------------------------- generator

func c15Pick(r *vh.Rand, xs []int64) int64 { return xs[r.Intn(len(xs))] }

var c15Bounds = []int64{48 * c15H, 90 * c15D, 95 * c15D}
var c15Ticks = []int64{1, int64(time.Second), c15H, 23 * c15H, 24 * c15H, 47 * c15H, 48*c15H - 1, 48 * c15H, 48*c15H + 1,
	5 * c15D, 10 * c15D, 30 * c15D, 88 * c15D, 90*c15D - 1, 90 * c15D, 90*c15D + 1, 95 * c15D, 95*c15D + 1}
var c15LR0 = []int64{-c15H, -10 * c15D, -42 * c15D, -88 * c15D, -90*c15D + 47*c15H, -90*c15D + 1, -90 * c15D, -93 * c15D, -95 * c15D, -100 * c15D}

type c15Gen struct {
	r      *vh.Rand
	now    int64
	events []int64 // times of holds and refreshes (offsets from base)
}

func (g *c15Gen) tick() int64 {
	r := g.r
	if len(g.events) > 0 && r.Chance(1, 2) {
		// land exactly on / next to a bound counted from an earlier event
		for try := 0; try < 4; try++ {
			e := g.events[r.Intn(len(g.events))]
			t := e + c15Bounds[r.Intn(len(c15Bounds))] + int64(r.Range(-1, 1))
			if t > g.now {
				return t - g.now
			}
		}
	}
	return c15Ticks[r.Intn(len(c15Ticks))]
}

func (g *c15Gen) subset(n int, lo int) []int {
	var out []int
	for len(out) < lo {
		out = nil
		for i := 1; i <= n; i++ {
			if g.r.Chance(1, 2) {
				out = append(out, i)
			}
		}
		if lo == 0 {
			break
		}
	}
	if g.r.Chance(1, 10) && len(out) > 0 {
		out = append(out, out[0]) // a duplicate
	}
	return out
}

func c15Random(r *vh.Rand, explicit bool) c15In {
	n := r.Range(2, 4)
	in := c15In{N: n}
	for i := 0; i < n; i++ {
		in.LR = append(in.LR, c15LR0[r.Intn(len(c15LR0))])
	}
	g := &c15Gen{r: r}
	for _, lr := range in.LR {
		g.events = append(g.events, lr)
	}
	nops := r.Range(6, 22)
	for i := 0; i < nops; i++ {
		switch x := r.Intn(100); {
		case x < 36:
			op := c15Op{K: "hold", G: r.Range(1, n), Snaps: g.subset(n, 1)}
			if r.Chance(1, 8) {
				op.Level = 1
			}
			if explicit && r.Chance(1, 2) {
				op.Dur = c15Pick(r, []int64{-c15H, 1, c15H, 47 * c15H, 48 * c15H, 48*c15H + 1, 30 * c15D, 90 * c15D, 90*c15D + 1})
			}
			if explicit && r.Chance(1, 12) {
				op.G = 0 // HoldRefresh called directly with the holder system
			}
			in.Ops = append(in.Ops, op)
			g.events = append(g.events, g.now)
		case x < 46:
			op := c15Op{K: "syshold", Level: r.Intn(2), Snaps: g.subset(n, 1)}
			if r.Chance(1, 3) {
				op.Forever = true
			} else {
				d := c15Pick(r, []int64{-c15H, -1, 0, 1, c15H, 48 * c15H, 49 * c15H, 91 * c15D, 96 * c15D, 200 * c15D})
				op.T = g.now + d // d = 0: a hold ending at the current instant is expired at once
				g.events = append(g.events, op.T-48*c15H)
			}
			in.Ops = append(in.Ops, op)
		case x < 54:
			op := c15Op{K: "proceed", G: r.Range(0, n)}
			if r.Chance(1, 2) {
				op.Snaps = g.subset(n, 0)
			}
			in.Ops = append(in.Ops, op)
		case x < 64:
			s := r.Range(1, n)
			in.Ops = append(in.Ops, c15Op{K: "reset", S: s}, c15Op{K: "refreshed", S: s})
			g.events = append(g.events, g.now)
		case x < 66:
			in.Ops = append(in.Ops, c15Op{K: "reset", S: r.Range(1, n)})
		case x < 67+5:
			in.Ops = append(in.Ops, c15Op{K: "phase2"})
			if r.Chance(1, 2) {
				// the system-wide hold; times far in the past or the future, so that the auto-refresh gate (which reads the real
				// clock, not the package clock) agrees with the history's clock
				op := c15Op{K: "allhold", Mode: []string{"unset", "forever", "time", "time"}[r.Intn(4)]}
				if op.Mode == "time" {
					op.T = c15Pick(r, []int64{-c15H, 36500 * c15D})
				}
				in.Ops = append(in.Ops, op, c15Op{K: "gate"}, c15Op{K: "snapholds"})
			}
		case x < 75:
			in.Ops = append(in.Ops, c15Op{K: "refreshed", S: r.Range(1, n)})
			g.events = append(g.events, g.now)
		default:
			d := g.tick()
			g.now += d
			in.Ops = append(in.Ops, c15Op{K: "tick", D: d})
		}
	}
	return in
}

// deterministic small scope: snap 1 holds itself and snap 2, waits t1, holds again, waits t2, holds again
func c15Scoped() []c15In {
	ts := []int64{1, 47 * c15H, 48*c15H - 1, 48 * c15H, 48*c15H + 1, 10 * c15D}
	lrs := []int64{-c15H, -88 * c15D, -90*c15D + 47*c15H}
	var out []c15In
	for _, lr := range lrs {
		for _, t1 := range ts {
			for _, t2 := range ts {
				h := c15Op{K: "hold", G: 1, Snaps: []int{1, 2}}
				out = append(out, c15In{N: 2, LR: []int64{lr, lr}, Ops: []c15Op{h, {K: "tick", D: t1}, h, {K: "tick", D: t2}, h,
					{K: "tick", D: 90 * c15D}}})
			}
		}
	}
	// self hold up to the 90 day bound
	for _, t1 := range []int64{89 * c15D, 90*c15D - c15H - 1, 90*c15D - c15H, 90*c15D - c15H + 1, 90 * c15D, 95 * c15D, 95*c15D + 1} {
		h := c15Op{K: "hold", G: 1, Snaps: []int{1}}
		out = append(out, c15In{N: 2, LR: []int64{-c15H, -c15H}, Ops: []c15Op{h, {K: "tick", D: t1}, h, {K: "tick", D: 1}, h}})
	}
	// system holds survive refreshes and last until the requested time
	for _, forever := range []bool{false, true} {
		out = append(out, c15In{N: 2, LR: []int64{-c15H, -c15H}, Ops: []c15Op{
			{K: "syshold", Level: 1, Snaps: []int{1, 2}, T: 100 * c15D, Forever: forever},
			{K: "hold", G: 2, Snaps: []int{1}}, {K: "reset", S: 1}, {K: "refreshed", S: 1}, {K: "tick", D: 100*c15D - 1}, {K: "tick", D: 1},
			{K: "tick", D: 1}, {K: "proceed", G: 0, Snaps: []int{2}}, {K: "tick", D: 200 * c15D}}})
	}
	// the system-wide hold core refresh.hold: SnapHolds around its end (package clock), the auto-refresh gate
	for _, mode := range []string{"forever", "time"} {
		out = append(out, c15In{N: 2, LR: []int64{-c15H, -c15H}, Ops: []c15Op{{K: "snapholds"}, {K: "gate"},
			{K: "syshold", Level: 1, Snaps: []int{1}, T: 5 * c15H}, {K: "allhold", Mode: mode, T: 10 * c15H}, {K: "snapholds"}, {K: "phase2"},
			{K: "tick", D: 10*c15H - 1}, {K: "snapholds"}, {K: "tick", D: 1}, {K: "snapholds"}, {K: "tick", D: 1}, {K: "snapholds"},
			{K: "allhold", Mode: "unset"}, {K: "snapholds"}, {K: "gate"}}})
	}
	out = append(out, c15In{N: 2, LR: []int64{-c15H, -c15H}, Ops: []c15Op{{K: "allhold", Mode: "forever"}, {K: "gate"}, {K: "tick", D: 200 * c15D}, {K: "gate"},
		{K: "snapholds"}, {K: "phase2"}, {K: "allhold", Mode: "time", T: 36500 * c15D}, {K: "gate"}, {K: "allhold", Mode: "time", T: -c15H}, {K: "gate"}, {K: "snapholds"}}})
	// the witness of C15_explicit_duration_refuted: explicit durations are not bounded by 48 h per episode
	out = append(out, c15In{N: 2, LR: []int64{-c15H, -c15H}, Ops: []c15Op{{K: "hold", G: 1, Snaps: []int{2}}, {K: "tick", D: 47 * c15H},
		{K: "hold", G: 1, Dur: 47 * c15H, Snaps: []int{2}}, {K: "tick", D: 2 * c15H}}})
	return out
}

// regression case of a repaired defect (KNOWN_FINDINGS `fixed:` line, /repo commit c2c6542): a system hold whose end is
// exactly the current time used to become a hold forever, because HoldRefresh reads the zero duration as "maximum"; it
// must be expired at once
func c15Finding() c15In {
	return c15In{N: 1, LR: []int64{-c15H}, Ops: []c15Op{{K: "tick", D: c15H}, {K: "syshold", Snaps: []int{1}, T: c15H}, {K: "tick", D: c15D}}}
}

func c15GenAll(r *vh.Rand, tier string, n int) []c15In {
	if n == 0 {
		n = 120
	}
	ins := []c15In{c15Finding()}
	ins = append(ins, c15Scoped()...)
	for i := 0; i < n; i++ {
		ins = append(ins, c15Random(r, i%5 == 4))
	}
	return ins
}

// ---------------------------------------------------------------- execution

func c15Held(st *state.State, level HoldLevel) ([]string, []string) {
	held, err := HeldSnaps(st, level)
	if err != nil {
		panic(err)
	}
	var coq, js []string
	var keys []string
	for k := range held {
		keys = append(keys, k)
	}
	sort.Strings(keys)
	for _, k := range keys {
		hs := append([]string(nil), held[k]...)
		sort.Strings(hs)
		for _, h := range hs {
			coq = append(coq, vh.CoqTuple(vh.CoqN(uint64(c15ID(k))), vh.CoqN(uint64(c15ID(h)))))
			js = append(js, k+"<-"+h)
		}
	}
	return coq, js
}

func c15Exec(in c15In) vh.Out {
	st := state.New(nil)
	st.Lock()
	defer st.Unlock()
	now := c15Base
	oldNow := timeNow
	timeNow = func() time.Time { return now }
	defer func() { timeNow = oldNow }()

	// every time value of the observations is written once (list `times` of the case) and referred to by its index
	var times []string
	timeIdx := map[string]int{}
	tix := func(t time.Time) string {
		z := c15Z(c15Abs(t))
		i, ok := timeIdx[z]
		if !ok {
			i = len(times)
			timeIdx[z] = i
			times = append(times, z)
		}
		return vh.CoqN(uint64(i))
	}
	now0 := tix(c15Base)
	var lrs []string
	for i := 1; i <= in.N; i++ {
		name := c15Name(i)
		si := &snap.SideInfo{RealName: name, SnapID: name + "-id", Revision: snap.R(1)}
		lr := c15Base.Add(time.Duration(in.LR[i-1]))
		Set(st, name, &SnapState{
			Active:          true,
			Sequence:        sequence.SnapSequence{Revisions: []*sequence.RevisionSideState{sequence.NewRevisionSideState(si, nil)}},
			Current:         si.Revision,
			SnapType:        "app",
			LastRefreshTime: &lr,
		})
		lrs = append(lrs, vh.CoqTuple(vh.CoqN(uint64(i)), tix(lr)))
	}
	names := func(l []int) []string {
		var out []string
		for _, x := range l {
			out = append(out, c15Name(x))
		}
		return out
	}

	var steps []string
	var obs []c15Step
	tags := map[string]bool{}
	sawHeld, sawRefused := false, false
	for _, op := range in.Ops {
		var coqOp string
		res := "(Some 0%Z)"
		jsRes := "ok"
		tags[op.K] = true
		switch op.K {
		case "hold":
			coqOp = fmt.Sprintf("(Hold %s %s %s %s)", vh.CoqN(uint64(op.Level)), vh.CoqN(uint64(op.G)), vh.CoqZ(op.Dur), c15Ns(op.Snaps))
			left, err := HoldRefresh(st, HoldLevel(op.Level), c15Name(op.G), time.Duration(op.Dur), names(op.Snaps)...)
			if err != nil {
				if _, ok := err.(*HoldError); !ok {
					panic(err)
				}
				res, jsRes = "None", "refused"
				sawRefused = true
				tags["refused"] = true
			} else {
				res, jsRes = "(Some "+vh.CoqZ(int64(left))+")", "ok "+left.String()
			}
			if op.Dur != 0 {
				tags["explicit-duration"] = true
			}
		case "syshold":
			holdTime := "forever"
			t := "None"
			if !op.Forever {
				u := c15Base.Add(time.Duration(op.T))
				holdTime = u.Format(time.RFC3339Nano)
				t = "(Some " + c15Z(c15Abs(u)) + ")"
				if u.Equal(now) {
					tags["system-hold-until-now"] = true
				}
			}
			coqOp = fmt.Sprintf("(SysHold %s %s %s)", vh.CoqN(uint64(op.Level)), t, c15Ns(op.Snaps))
			if err := HoldRefreshesBySystem(st, HoldLevel(op.Level), holdTime, names(op.Snaps)); err != nil {
				panic(err)
			}
			// HoldRefreshesBySystem drops the remaining duration: the effect is compared through the table only
		case "proceed":
			coqOp = fmt.Sprintf("(Proceed %s %s)", vh.CoqN(uint64(op.G)), c15Ns(op.Snaps))
			if err := ProceedWithRefresh(st, c15Name(op.G), names(op.Snaps)); err != nil {
				panic(err)
			}
		case "reset":
			coqOp = fmt.Sprintf("(Reset %s)", vh.CoqN(uint64(op.S)))
			if err := resetGatingForRefreshed(st, c15Name(op.S)); err != nil {
				panic(err)
			}
		case "refreshed":
			coqOp = fmt.Sprintf("(Refreshed %s)", vh.CoqN(uint64(op.S)))
			var snapst SnapState
			if err := Get(st, c15Name(op.S), &snapst); err != nil {
				panic(err)
			}
			t := now
			snapst.LastRefreshTime = &t
			Set(st, c15Name(op.S), &snapst)
		case "phase2":
			// auto-refresh phase 2: which of all the snaps (every one has an update) does snapsToRefresh go on with
			task := st.NewTask("conditional-auto-refresh", "verif")
			cands := map[string]*refreshCandidate{}
			var all []int
			for i := 1; i <= in.N; i++ {
				cands[c15Name(i)] = &refreshCandidate{SnapSetup: SnapSetup{SideInfo: &snap.SideInfo{RealName: c15Name(i), Revision: snap.R(9)}}}
				all = append(all, i)
			}
			task.Set("snaps", cands)
			sel, err := snapsToRefresh(task)
			if err != nil {
				panic(err)
			}
			var ids []int
			for _, c := range sel {
				ids = append(ids, c15ID(c.InstanceName()))
			}
			sort.Ints(ids)
			coqOp = fmt.Sprintf("(AutoFilter %s %s)", c15Ns(all), c15Ns(ids))
			jsRes = fmt.Sprintf("selected %v", ids)
		case "allhold":
			tr := config.NewTransaction(st)
			switch op.Mode {
			case "unset":
				tr.Set("core", "refresh.hold", nil)
				coqOp = "(SetAllHold None)"
			case "forever":
				tr.Set("core", "refresh.hold", "forever")
				coqOp = "(SetAllHold (Some None))"
			default:
				u := c15Base.Add(time.Duration(op.T))
				tr.Set("core", "refresh.hold", u.Format(time.RFC3339Nano))
				coqOp = "(SetAllHold (Some (Some " + c15Z(c15Abs(u)) + ")))"
			}
			tr.Commit()
		case "snapholds":
			var all []int
			var names []string
			for i := 1; i <= in.N; i++ {
				all = append(all, i)
				names = append(names, c15Name(i))
			}
			holds, err := SnapHolds(st, names)
			if err != nil {
				panic(err)
			}
			var sys []int
			for _, i := range all {
				for _, h := range holds[c15Name(i)] {
					if h == "system" {
						sys = append(sys, i)
						break
					}
				}
			}
			coqOp = fmt.Sprintf("(SnapHoldsQuery %s %s)", c15Ns(all), c15Ns(sys))
			jsRes = fmt.Sprintf("system holds %v", sys)
		case "gate":
			held, _, err := newAutoRefresh(st).isRefreshHeld()
			if err != nil {
				panic(err)
			}
			coqOp = fmt.Sprintf("(GateQuery %s)", vh.CoqBool(held))
			jsRes = fmt.Sprintf("auto-refresh held back: %v", held)
		case "tick":
			if op.D < 0 {
				panic("negative tick")
			}
			coqOp = fmt.Sprintf("(Tick %s)", vh.CoqN(uint64(op.D)))
			now = now.Add(time.Duration(op.D))
		default:
			panic("unknown op " + op.K)
		}

		gating, err := refreshGating(st)
		if err != nil {
			panic(err)
		}
		var table, jsTable []string
		var helds []string
		for h := range gating {
			helds = append(helds, h)
		}
		sort.Strings(helds)
		for _, h := range helds {
			var holders []string
			for g := range gating[h] {
				holders = append(holders, g)
			}
			sort.Strings(holders)
			for _, g := range holders {
				hs := gating[h][g]
				table = append(table, vh.CoqTuple(vh.CoqN(uint64(c15ID(h))), vh.CoqN(uint64(c15ID(g))), tix(hs.FirstHeld),
					tix(hs.HoldUntil), vh.CoqN(uint64(hs.Level))))
				jsTable = append(jsTable, fmt.Sprintf("%s<-%s first=%s until=%s level=%d", h, g, hs.FirstHeld.Format(time.RFC3339Nano),
					hs.HoldUntil.Format(time.RFC3339Nano), hs.Level))
			}
		}
		h0, j0 := c15Held(st, HoldAutoRefresh)
		h1, j1 := c15Held(st, HoldGeneral)
		for _, x := range j0 {
			if !strings.HasSuffix(x, "<-system") {
				sawHeld = true
			}
		}
		steps = append(steps, fmt.Sprintf("(mkRObs %s %s %s %s %s %s)", coqOp, res, vh.CoqList(table), vh.CoqList(h0), vh.CoqList(h1),
			tix(now)))
		obs = append(obs, c15Step{Res: jsRes, Table: jsTable, Held0: j0, Held1: j1})
	}
	coq := fmt.Sprintf("(mkCase %s %s %s %s %s)", vh.CoqN(uint64(in.N)), vh.CoqList(times), vh.CoqList(lrs), now0, vh.CoqList(steps))
	var tl []string
	for t := range tags {
		tl = append(tl, t)
	}
	sort.Strings(tl)
	tl = append(tl, fmt.Sprintf("snaps%d", in.N))
	return vh.Out{Observed: obs, Coq: coq, NonTrivial: sawHeld && sawRefused, Tags: tl}
}

func TestVerifC15Holds(t *testing.T) { vh.Run(c15GenAll, c15Exec) }
