//go:build verif

package snapstate_test

// C14 driver, history part: sequences of requests through the public snapstate API (Remove, Disable, Enable, Revert,
// Switch, Update, Install) on overlapping snaps, with the suite's fake store and backend, interleaved with progress
// events (tasks of a change set to Done / back to Do). After every step the driver records whether the request was
// rejected with a conflict error, how many changes and change tasks exist, and which in-progress non-exempt changes
// have a task affecting each snap (computed with snapstate.SnapsAffectedByTask over all tasks of the state).

import (
	"context"
	"fmt"
	"sort"

	. "gopkg.in/check.v1"

	"github.com/snapcore/snapd/overlord/snapstate"
	"github.com/snapcore/snapd/overlord/snapstate/snapstatetest"
	"github.com/snapcore/snapd/overlord/state"
	"github.com/snapcore/snapd/snap"
	"github.com/snapcore/snapd/zzverif/vh"
)

type verifC14Suite struct {
	snapmgrBaseTest
	used bool
}

var _ = Suite(&verifC14Suite{})

type c14Op struct {
	K    string `json:"k"` // request finish partial undo
	API  string `json:"api,omitempty"`
	Snap int    `json:"snap,omitempty"`
	Chg  int    `json:"chg,omitempty"` // n-th accepted change (1-based)
	Task int    `json:"task,omitempty"`
}

type c14Hist struct {
	Ops []c14Op `json:"ops"`
}

// snaps: 1 some-snap (two revisions, active), 2 some-other-snap (active), 3 services-snap (installed, disabled),
// 4 some-base (not installed)
var c14apiNames = []string{"", "some-snap", "some-other-snap", "services-snap", "some-base"}

// which API can be asked for which snap without failing for a reason other than a conflict
var c14apiFor = map[string][]int{
	"remove":  {1, 2, 3},
	"disable": {1, 2},
	"enable":  {3},
	"revert":  {1},
	"switch":  {1, 2, 3},
	"update":  {1, 2},
	"install": {4},
	// the alias entry points (snapstate.Alias / DisableAllAliases / Prefer)
	"alias":   {1, 2},
	"unalias": {1, 3},
	"prefer":  {2, 3},
}
var c14apiKinds = map[string]string{"remove": "remove-snap", "disable": "disable-snap", "enable": "enable-snap", "revert": "revert-snap",
	"switch": "switch-snap", "update": "refresh-snap", "install": "install-snap", "alias": "alias", "unalias": "unalias", "prefer": "prefer"}

func c14apiGen(r *vh.Rand, tier string, n int) []c14Hist {
	if n == 0 {
		n = 60
	}
	var apis []string
	for a := range c14apiFor {
		apis = append(apis, a)
	}
	sort.Strings(apis)
	var out []c14Hist
	// every ordered pair of requests, without and with the first change finished in between
	for _, a1 := range apis {
		for _, s1 := range c14apiFor[a1] {
			for _, a2 := range apis {
				for _, s2 := range c14apiFor[a2] {
					if tier != "thorough" && s1 != s2 && (a1 > "b" || a2 > "e") {
						continue // quick tier: all same-snap pairs, a sample of different-snap pairs
					}
					r1, r2 := c14Op{K: "request", API: a1, Snap: s1}, c14Op{K: "request", API: a2, Snap: s2}
					out = append(out, c14Hist{Ops: []c14Op{r1, r2, {K: "partial", Chg: 1, Task: 0}, r2, {K: "finish", Chg: 1}, r2}})
				}
			}
		}
	}
	for i := 0; i < n; i++ {
		var h c14Hist
		accepted := 0
		nops := r.Range(4, 14)
		for j := 0; j < nops; j++ {
			switch x := r.Intn(10); {
			case x < 6 || accepted == 0:
				a := apis[r.Intn(len(apis))]
				ss := c14apiFor[a]
				h.Ops = append(h.Ops, c14Op{K: "request", API: a, Snap: ss[r.Intn(len(ss))]})
				accepted++ // an upper bound; indices beyond the accepted changes are no-ops
			case x < 8:
				h.Ops = append(h.Ops, c14Op{K: "finish", Chg: r.Range(1, accepted)})
			case x < 9:
				h.Ops = append(h.Ops, c14Op{K: "partial", Chg: r.Range(1, accepted), Task: r.Intn(3)})
			default:
				h.Ops = append(h.Ops, c14Op{K: "undo", Chg: r.Range(1, accepted), Task: r.Intn(3)})
			}
		}
		out = append(out, h)
	}
	return out
}

func (s *verifC14Suite) reset(c *C) {
	if s.used {
		s.TearDownTest(c)
		s.SetUpTest(c)
	}
	s.used = true
}

func (s *verifC14Suite) request(op c14Op) (*state.TaskSet, error) {
	st := s.state
	name := c14apiNames[op.Snap]
	switch op.API {
	case "remove":
		return snapstate.Remove(st, name, snap.R(0), nil)
	case "disable":
		return snapstate.Disable(st, name)
	case "enable":
		return snapstate.Enable(st, name)
	case "revert":
		return snapstate.Revert(st, name, snapstate.Flags{}, "")
	case "switch":
		return snapstate.Switch(st, name, &snapstate.RevisionOptions{Channel: "some-channel"})
	case "update":
		return snapstate.Update(st, name, &snapstate.RevisionOptions{Channel: "some-channel"}, s.user.ID, snapstate.Flags{})
	case "install":
		return snapstate.Install(context.Background(), st, name, &snapstate.RevisionOptions{Channel: "some-channel"}, s.user.ID, snapstate.Flags{})
	}
	switch op.API {
	case "alias":
		return snapstate.Alias(st, name, "cmd", "verif-alias")
	case "unalias":
		return snapstate.DisableAllAliases(st, name)
	case "prefer":
		return snapstate.Prefer(st, name)
	}
	panic("unknown api " + op.API)
}

func c14apiNs(l []int) string {
	var xs []string
	for _, x := range l {
		xs = append(xs, vh.CoqN(uint64(x)))
	}
	return vh.CoqList(xs)
}

func (s *verifC14Suite) exec(c *C, in c14Hist) vh.Out {
	s.reset(c)
	st := s.state
	st.Lock()
	defer st.Unlock()

	seq := func(name string, revs ...int) snapstate.SnapState {
		var sis []*snap.SideInfo
		for _, r := range revs {
			sis = append(sis, &snap.SideInfo{RealName: name, SnapID: name + "-id", Revision: snap.R(r)})
		}
		return snapstate.SnapState{Sequence: snapstatetest.NewSequenceFromSnapSideInfos(sis), Current: snap.R(revs[len(revs)-1]),
			Active: true, SnapType: "app", TrackingChannel: "latest/stable"}
	}
	s1 := seq("some-snap", 1, 2)
	s2 := seq("some-other-snap", 1)
	s3 := seq("services-snap", 1)
	s3.Active = false
	snapstate.Set(st, "some-snap", &s1)
	snapstate.Set(st, "some-other-snap", &s2)
	snapstate.Set(st, "services-snap", &s3)
	idOf := map[string]int{"some-snap": 1, "some-other-snap": 2, "services-snap": 3, "some-base": 4}

	var accepted []*state.Change
	var steps []string
	var obs []map[string]interface{}
	tags := map[string]bool{}
	nRejected, nAccepted := 0, 0
	for _, op := range in.Ops {
		var coqOp string
		rejected := false
		switch op.K {
		case "request":
			ts, err := s.request(op)
			var tasks []string
			if err != nil {
				if _, ok := err.(*snapstate.ChangeConflictError); !ok {
					panic(fmt.Sprintf("%s %s: %v", op.API, c14apiNames[op.Snap], err))
				}
				rejected = true
				nRejected++
				tags["rejected"] = true
			} else {
				chg := st.NewChange(c14apiKinds[op.API], "verif")
				chg.AddAll(ts)
				accepted = append(accepted, chg)
				nAccepted++
				for _, t := range chg.Tasks() {
					names, err := snapstate.SnapsAffectedByTask(t)
					if err != nil {
						panic(err)
					}
					var l []int
					for _, n := range names {
						l = append(l, idOf[n])
					}
					tasks = append(tasks, fmt.Sprintf("(mkTask %s false)", c14apiNs(l)))
				}
			}
			tags["api-"+op.API] = true
			coqOp = fmt.Sprintf("(Request %s false false None true %s %s)", vh.CoqBytes(c14apiKinds[op.API]), c14apiNs([]int{op.Snap}), vh.CoqList(tasks))
		case "finish", "partial", "undo":
			if op.Chg < 1 || op.Chg > len(accepted) {
				continue
			}
			chg := accepted[op.Chg-1]
			id := 0
			fmt.Sscanf(chg.ID(), "%d", &id)
			tasks := chg.Tasks()
			if chg.IsReady() {
				continue // a finished change gets no more progress events
			}
			set := func(i int, ready bool) {
				if i >= len(tasks) {
					return
				}
				if ready {
					tasks[i].SetStatus(state.DoneStatus)
				} else {
					tasks[i].SetStatus(state.DoStatus)
				}
				o := s.observe(idOf)
				steps = append(steps, fmt.Sprintf("(mkHobs (Progress %d%%N %d%%N %s) false %s)", id, i, vh.CoqBool(ready), o))
				obs = append(obs, map[string]interface{}{"op": op.K, "chg": id, "task": i, "ready": ready, "obs": o})
			}
			switch op.K {
			case "finish":
				for i := range tasks {
					if chg.IsReady() {
						break
					}
					set(i, true)
				}
			case "partial":
				set(op.Task, true)
			case "undo":
				set(op.Task, false)
			}
			tags[op.K] = true
			continue
		default:
			panic("unknown op " + op.K)
		}
		o := s.observe(idOf)
		steps = append(steps, fmt.Sprintf("(mkHobs %s %s %s)", coqOp, vh.CoqBool(rejected), o))
		obs = append(obs, map[string]interface{}{"op": op.API, "snap": op.Snap, "rejected": rejected, "obs": o})
	}
	var tl []string
	for t := range tags {
		tl = append(tl, t)
	}
	sort.Strings(tl)
	return vh.Out{Observed: obs, Coq: fmt.Sprintf("(History 4%%N %s)", vh.CoqList(steps)), NonTrivial: nRejected > 0 && nAccepted > 1, Tags: tl}
}

// number of changes, number of tasks that belong to a change, and per snap the in-progress non-exempt changes touching it
func (s *verifC14Suite) observe(idOf map[string]int) string {
	st := s.state
	nch := len(st.Changes())
	nt := 0
	touching := map[int]map[int]bool{}
	for _, t := range st.Tasks() {
		chg := t.Change()
		if chg == nil {
			continue
		}
		nt++
		if chg.IsReady() || chg.Kind() == "pre-download" || chg.Kind() == "become-operational" {
			continue
		}
		names, err := snapstate.SnapsAffectedByTask(t)
		if err != nil {
			panic(err)
		}
		id := 0
		fmt.Sscanf(chg.ID(), "%d", &id)
		for _, n := range names {
			if touching[idOf[n]] == nil {
				touching[idOf[n]] = map[int]bool{}
			}
			touching[idOf[n]][id] = true
		}
	}
	var entries []string
	for x := 1; x <= 4; x++ {
		var ids []int
		for id := range touching[x] {
			ids = append(ids, id)
		}
		sort.Ints(ids)
		if len(ids) > 0 {
			entries = append(entries, vh.CoqTuple(vh.CoqN(uint64(x)), c14apiNs(ids)))
		}
	}
	return fmt.Sprintf("%d%%N %d%%N %s", nch, nt, vh.CoqList(entries))
}

func (s *verifC14Suite) TestVerifC14History(c *C) {
	vh.Run(c14apiGen, func(in c14Hist) vh.Out { return s.exec(c, in) })
}
