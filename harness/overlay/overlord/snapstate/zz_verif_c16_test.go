//go:build verif

// Driver for C16, manager level: plays histories (set refresh.timer / set last-refresh / Ensure) against the real
// autoRefresh manager with the fixtures of autoRefreshTestSuite (fake store that records "list-refresh") and prints
// them as Coq terms of type V.models.AutoRefresh.mcase. autoRefresh.Ensure reads the real clock (time.Now), so timers
// are written RELATIVE to the time the history starts: `{+90}` is the HH:MM ninety minutes from now (UTC), `{d+1}`
// tomorrow's weekday name. timeutil's and snapstate's timeNow hooks are pinned to the current whole second.
package snapstate_test

import (
	"fmt"
	"regexp"
	"strconv"
	"strings"
	"testing"
	"time"

	"github.com/snapcore/snapd/asserts"
	"github.com/snapcore/snapd/asserts/snapasserts"
	"github.com/snapcore/snapd/dirs"
	"github.com/snapcore/snapd/interfaces"
	"github.com/snapcore/snapd/overlord/configstate/config"
	"github.com/snapcore/snapd/overlord/ifacestate/ifacerepo"
	"github.com/snapcore/snapd/overlord/snapstate"
	"github.com/snapcore/snapd/overlord/snapstate/snapstatetest"
	"github.com/snapcore/snapd/overlord/state"
	"github.com/snapcore/snapd/snap"
	"github.com/snapcore/snapd/timeutil"
	"github.com/snapcore/snapd/zzverif/vh"
)

type c16Step struct {
	Timer   *string `json:"timer,omitempty"`    // set refresh.timer to this template ("" = unset); nil = leave
	LastAgo *int64  `json:"last_ago,omitempty"` // set last-refresh to now - N seconds; negative = clear; nil = leave
}

type c16Hist struct {
	Steps []c16Step `json:"steps"` // every step ends with an Ensure
}

var c16Tok = regexp.MustCompile(`\{(d?)\+(\d+)\}`)

func c16Expand(tmpl string, t0 time.Time) string {
	return c16Tok.ReplaceAllStringFunc(tmpl, func(m string) string {
		sm := c16Tok.FindStringSubmatch(m)
		n, _ := strconv.Atoi(sm[2])
		if sm[1] == "d" {
			return strings.ToLower(t0.AddDate(0, 0, n).Weekday().String()[:3])
		}
		t := t0.Add(time.Duration(n) * time.Minute)
		return fmt.Sprintf("%02d:%02d", t.Hour(), t.Minute())
	})
}

func c16mZ(n int64) string { return vh.CoqZ(n) }
func c16mSched(s *timeutil.Schedule) string {
	var ws, cs []string
	for _, w := range s.WeekSpans {
		ws = append(ws, fmt.Sprintf("mkWS (mkWeek %s %s) (mkWeek %s %s)", c16mZ(int64(w.Start.Weekday)), c16mZ(int64(w.Start.Pos)), c16mZ(int64(w.End.Weekday)), c16mZ(int64(w.End.Pos))))
	}
	for _, c := range s.ClockSpans {
		cs = append(cs, fmt.Sprintf("mkCS (mkClock %s %s) (mkClock %s %s) %s %s", c16mZ(int64(c.Start.Hour)), c16mZ(int64(c.Start.Minute)),
			c16mZ(int64(c.End.Hour)), c16mZ(int64(c.End.Minute)), c16mZ(int64(c.Split)), vh.CoqBool(c.Spread)))
	}
	return "(mkSched " + vh.CoqList(ws) + " " + vh.CoqList(cs) + ")"
}
func c16mOptZ(ok bool, n int64) string { return vh.CoqOpt(ok, c16mZ(n)) }

func c16Play(h c16Hist) vh.Out {
	dirs.SetRootDir(c16Root)
	defer dirs.SetRootDir("")
	st := state.New(nil)
	store := &autoRefreshStore{}
	st.Lock()
	snapstate.ReplaceStore(st, store)
	ifacerepo.Replace(st, interfaces.NewRepository())
	snapstate.Set(st, "some-snap", &snapstate.SnapState{
		Active:   true,
		Sequence: snapstatetest.NewSequenceFromSnapSideInfos([]*snap.SideInfo{{RealName: "some-snap", Revision: snap.R(5), SnapID: "some-snap-id"}}),
		Current:  snap.R(5), SnapType: "app", UserID: 1,
	})
	st.Set("seeded", true)
	st.Set("seed-time", time.Now())
	st.Set("refresh-privacy-key", "privacy-key")
	st.Unlock()
	oldCan, oldAliases, oldMetered := snapstate.CanAutoRefresh, snapstate.AutoAliases, snapstate.IsOnMeteredConnection
	snapstate.CanAutoRefresh = func(*state.State) (bool, error) { return true, nil }
	snapstate.AutoAliases = func(*state.State, *snap.Info) (map[string]string, error) { return nil, nil }
	snapstate.IsOnMeteredConnection = func() (bool, error) { return false, nil }
	defer func() {
		snapstate.CanAutoRefresh, snapstate.AutoAliases, snapstate.IsOnMeteredConnection = oldCan, oldAliases, oldMetered
	}()
	defer snapstatetest.MockDeviceModel(DefaultModel())()
	defer snapstate.MockEnforcedValidationSets(func(st *state.State, extraVss ...*asserts.ValidationSet) (*snapasserts.ValidationSets, error) {
		return snapasserts.NewValidationSets(), nil
	})()

	af := snapstate.NewAutoRefresh(st)
	t0 := time.Now().UTC()
	timer := ""
	var stepsCoq []string
	var obs []map[string]interface{}
	tags := []string{fmt.Sprintf("steps-%d", len(h.Steps))}
	attempts, planned, replanned := 0, 0, 0
	var prevNext time.Time
	for _, sp := range h.Steps {
		nowS := time.Now().UTC().Truncate(time.Second)
		st.Lock()
		if sp.Timer != nil {
			timer = c16Expand(*sp.Timer, t0)
			tr := config.NewTransaction(st)
			if timer == "" {
				tr.Set("core", "refresh.timer", nil)
			} else {
				tr.Set("core", "refresh.timer", timer)
			}
			tr.Commit()
		}
		if sp.LastAgo != nil {
			if *sp.LastAgo < 0 {
				st.Set("last-refresh", nil)
			} else {
				st.Set("last-refresh", nowS.Add(-time.Duration(*sp.LastAgo)*time.Second))
			}
		}
		var last time.Time
		st.Get("last-refresh", &last)
		st.Unlock()

		// the schedules of the currently configured timer, as the real parser sees it (default when unset / rejected)
		var scheds []*timeutil.Schedule
		kind := "timer-valid"
		switch {
		case timer == "managed":
			kind = "timer-managed"
		case timer == "":
			kind = "timer-unset"
			scheds, _ = timeutil.ParseSchedule("00:00~24:00/4")
		default:
			var err error
			if scheds, err = timeutil.ParseSchedule(timer); err != nil {
				kind = "timer-invalid"
				scheds, _ = timeutil.ParseSchedule("00:00~24:00/4")
			}
		}
		r1 := timeutil.MockTimeNow(func() time.Time { return nowS })
		r2 := snapstate.MockTimeNow(func() time.Time { return nowS })
		before := len(store.ops)
		err := af.Ensure()
		r1()
		r2()
		attempted := len(store.ops) > before
		next := af.NextRefresh()
		if attempted {
			attempts++
		}
		if !next.IsZero() {
			planned++
			if !prevNext.IsZero() && !next.Equal(prevNext) {
				replanned++
			}
		}
		prevNext = next
		var schedsCoq []string
		for _, s := range scheds {
			schedsCoq = append(schedsCoq, c16mSched(s))
		}
		stepsCoq = append(stepsCoq, fmt.Sprintf("MObs %s %s %s %s %s %s", vh.CoqBytes(timer), vh.CoqList(schedsCoq),
			c16mOptZ(!last.IsZero(), last.Unix()), c16mZ(nowS.Unix()), c16mOptZ(!next.IsZero(), next.Unix()), vh.CoqBool(attempted)))
		o := map[string]interface{}{"timer": timer, "now": nowS.Format(time.RFC3339), "attempted": attempted, "kind": kind}
		if !last.IsZero() {
			o["last"] = last.UTC().Format(time.RFC3339)
		}
		if !next.IsZero() {
			o["next"] = next.UTC().Format(time.RFC3339)
		}
		if err != nil {
			o["error"] = err.Error()
		}
		obs = append(obs, o)
		tags = append(tags, kind)
	}
	if attempts > 0 {
		tags = append(tags, "attempted")
	}
	if replanned > 0 {
		tags = append(tags, "replanned")
	}
	return vh.Out{Observed: map[string]interface{}{"steps": obs}, Coq: "(MHist " + vh.CoqList(stepsCoq) + ")", NonTrivial: planned > 0 || attempts > 0, Tags: tags}
}

var c16Root string

func c16mGen(r *vh.Rand, tier string, n int) []c16Hist {
	if n <= 0 {
		n = 150
	}
	sp := func(s string) *string { return &s }
	ip := func(i int64) *int64 { return &i }
	var out []c16Hist
	// planned under A, timer changed to B, Ensure again (B before A, B after A, B = unset/managed/invalid, A again)
	for _, ab := range [][2]string{{"{+240}", "{+60}-{+120}"}, {"{+60}-{+120}", "{+240}"}, {"{+240}", ""}, {"{+240}", "managed"}, {"{+240}", "no-such-timer"},
		{"", "{+90}"}, {"{d+1},{+30}", "{d+2},{+30}"}, {"{+200}~{+260}", "{+20}~{+50}"}, {"{+240}", "{+240}-{+241}"}, {"managed", "{+45}"}} {
		out = append(out, c16Hist{[]c16Step{{Timer: sp(ab[0]), LastAgo: ip(3600)}, {Timer: sp(ab[1])}, {}, {Timer: sp(ab[0])}, {}}})
	}
	// first refresh ever, overdue, limit
	out = append(out, c16Hist{[]c16Step{{Timer: sp("{+240}")}, {}, {Timer: sp("{+300}")}, {}}})
	out = append(out, c16Hist{[]c16Step{{Timer: sp("{+240}"), LastAgo: ip(96 * 86400)}, {}, {}}})
	out = append(out, c16Hist{[]c16Step{{Timer: sp("{+240}"), LastAgo: ip(95*86400 - 1800)}, {Timer: sp("{+120}")}, {}}})
	out = append(out, c16Hist{[]c16Step{{Timer: sp("{d+3},{+10}"), LastAgo: ip(95*86400 - 86400)}, {}, {Timer: sp("{d+4},{+10}")}}})
	genTimer := func() string {
		switch r.Intn(12) {
		case 0:
			return ""
		case 1:
			return "managed"
		case 2:
			return r.Str("montue0123456789:-~/,", 1, 10)
		}
		var frags []string
		if r.Chance(1, 4) {
			frags = append(frags, fmt.Sprintf("{d+%d}", r.Intn(7)))
		}
		for k := 1 + r.Intn(2); k > 0; k-- {
			a := 5 + r.Intn(1400)
			f := fmt.Sprintf("{+%d}", a)
			if r.Chance(2, 3) {
				f += r.Pick([]string{"-", "~"}) + fmt.Sprintf("{+%d}", a+1+r.Intn(600))
				if r.Chance(1, 4) {
					f += "/" + fmt.Sprint(1+r.Intn(4))
				}
			}
			frags = append(frags, f)
		}
		return strings.Join(frags, ",")
	}
	for len(out) < n {
		var steps []c16Step
		for k := 2 + r.Intn(5); k > 0; k-- {
			var s c16Step
			if len(steps) == 0 || r.Chance(1, 2) {
				s.Timer = sp(genTimer())
			}
			// last-refresh is an initial condition only: afterwards it changes through attempts (which reset nextRefresh)
			if len(steps) == 0 {
				switch r.Intn(10) {
				case 0:
					s.LastAgo = ip(-1)
				case 1, 2:
					s.LastAgo = ip(int64(r.Intn(86400)))
				case 3:
					s.LastAgo = ip(int64(95*86400 - 7200 + r.Intn(14400)))
				case 4:
					s.LastAgo = ip(int64(r.Intn(100 * 86400)))
				default:
					s.LastAgo = ip(int64(60 + r.Intn(7200)))
				}
			}
			steps = append(steps, s)
		}
		out = append(out, c16Hist{steps})
	}
	return out
}

func TestVerifC16Manager(t *testing.T) {
	c16Root = t.TempDir()
	vh.Run(c16mGen, c16Play)
}
