//go:build verif

// Driver for C22: plays connect / disconnect changes (with a failure injected at a chosen task) through the real
// InterfaceManager, hook manager and task runner, using the fixtures of interfaceManagerSuite, and prints the persisted
// `conns`, the repository connections and the connection sets the security profiles were last generated for, before
// and after every change, as Coq terms of type V.models.Conns.case.
package ifacestate_test

import (
	"errors"
	"fmt"
	"sort"
	"strings"

	. "gopkg.in/check.v1"
	"gopkg.in/tomb.v2"

	"github.com/snapcore/snapd/asserts/assertstest"
	"github.com/snapcore/snapd/interfaces"
	"github.com/snapcore/snapd/interfaces/ifacetest"
	"github.com/snapcore/snapd/overlord/hookstate"
	"github.com/snapcore/snapd/overlord/ifacestate"
	"github.com/snapcore/snapd/overlord/snapstate"
	"github.com/snapcore/snapd/overlord/state"
	"github.com/snapcore/snapd/snap"
	"github.com/snapcore/snapd/zzverif/vh"
)

const c22ConsumerYaml = `
name: consumer
version: 1
plugs:
 plug:
  interface: test
  attr1: value1
 plug2:
  interface: test
  attr1: value1
hooks:
 prepare-plug-plug:
 unprepare-plug-plug:
 connect-plug-plug:
 disconnect-plug-plug:
`
const c22ProducerYaml = `
name: producer
version: 1
slots:
 slot:
  interface: test
  attr2: value2
 slot2:
  interface: test
  attr2: value2
hooks:
 prepare-slot-slot:
 unprepare-slot-slot:
 connect-slot-slot:
 disconnect-slot-slot:
`

var c22Plugs = []string{"plug", "plug2"}
var c22Slots = []string{"slot", "slot2"}

func c22ID(id int) string {
	return fmt.Sprintf("consumer:%s producer:%s", c22Plugs[id/2], c22Slots[id%2])
}
func c22Num(connID string) int {
	for i := 0; i < 4; i++ {
		if c22ID(i) == connID {
			return i
		}
	}
	return 99
}

type c22Conn struct {
	ID          int  `json:"id"`
	Auto        bool `json:"auto,omitempty"`
	ByGadget    bool `json:"by-gadget,omitempty"`
	Undesired   bool `json:"undesired,omitempty"`
	HotplugGone bool `json:"hotplug-gone,omitempty"`
	Attrs       bool `json:"attrs,omitempty"`
}

type c22Op struct {
	Kind      string `json:"kind"` // connect | disconnect | autoconnect (setup-profiles + auto-connect of the plug snap)
	ID        int    `json:"id"`
	Auto      bool   `json:"auto,omitempty"`
	ByGadget  bool   `json:"by-gadget,omitempty"`
	Forget    bool   `json:"forget,omitempty"`
	AutoDisc  bool   `json:"auto-disconnect,omitempty"`
	ByHotplug bool   `json:"by-hotplug,omitempty"`
	Fail      string `json:"fail"` // none | before | main | after
	K         int    `json:"k,omitempty"`
}

type c22In struct {
	Init []c22Conn `json:"init"`
	Ops  []c22Op   `json:"ops"`
}

type c22Snap struct {
	Conns []c22Conn `json:"conns"`
	Repo  []int     `json:"repo"`
	ProfC []int     `json:"prof-consumer"`
	ProfP []int     `json:"prof-producer"`
}

type c22Step struct {
	Op      c22Op   `json:"op"`
	Pre     c22Snap `json:"pre"`
	Post    c22Snap `json:"post"`
	Created bool    `json:"created"`
	Failed  bool    `json:"failed"`
	Viol    string  `json:"viol,omitempty"`
}

func c22CoqBoolN(l []int) string {
	items := make([]string, len(l))
	for i, x := range l {
		items[i] = vh.CoqN(uint64(x))
	}
	return vh.CoqList(items)
}
func c22CoqConns(l []c22Conn) string {
	items := make([]string, len(l))
	for i, x := range l {
		items[i] = "(" + vh.CoqN(uint64(x.ID)) + ", mkC " + vh.CoqBool(x.Auto) + " " + vh.CoqBool(x.ByGadget) + " " +
			vh.CoqBool(x.Undesired) + " " + vh.CoqBool(x.HotplugGone) + " " + vh.CoqBool(x.Attrs) + ")"
	}
	return vh.CoqList(items)
}
func c22CoqSnap(s c22Snap) string {
	return "(mkSt " + c22CoqConns(s.Conns) + " " + c22CoqBoolN(s.Repo) + " " + c22CoqBoolN(s.ProfC) + " " + c22CoqBoolN(s.ProfP) + ")"
}
func c22CoqOp(o c22Op) string {
	f := "NoFail"
	switch o.Fail {
	case "before":
		f = "FailBefore"
	case "main":
		f = "(FailMain " + vh.CoqN(uint64(o.K)) + ")"
	case "after":
		f = "FailAfter"
	}
	if o.Kind == "autoconnect" {
		return "(OAutoConnect, " + f + ")"
	}
	if o.Kind == "remove" {
		return "(ORemove, " + f + ")"
	}
	if o.Kind == "connect" {
		return "(OConnect " + vh.CoqN(uint64(o.ID)) + " " + vh.CoqBool(o.Auto) + " " + vh.CoqBool(o.ByGadget) + ", " + f + ")"
	}
	return "(ODisconnect " + vh.CoqN(uint64(o.ID)) + " " + vh.CoqBool(o.Forget) + " " + vh.CoqBool(o.AutoDisc) + " " + vh.CoqBool(o.ByHotplug) + ", " + f + ")"
}

func intsEq(a, b []int) bool {
	if len(a) != len(b) {
		return false
	}
	for i := range a {
		if a[i] != b[i] {
			return false
		}
	}
	return true
}
func (s c22Snap) active() []int {
	var l []int
	for _, c := range s.Conns {
		if !c.Undesired && !c.HotplugGone {
			l = append(l, c.ID)
		}
	}
	return l
}
func (s c22Snap) agree() bool {
	return intsEq(s.active(), s.Repo) && intsEq(s.ProfC, s.Repo) && intsEq(s.ProfP, s.Repo)
}
func (s c22Snap) same(o c22Snap) bool {
	if len(s.Conns) != len(o.Conns) {
		return false
	}
	for i := range s.Conns {
		if s.Conns[i] != o.Conns[i] {
			return false
		}
	}
	return intsEq(s.Repo, o.Repo) && intsEq(s.ProfC, o.ProfC) && intsEq(s.ProfP, o.ProfP)
}

type c22World struct {
	s        *interfaceManagerSuite
	c        *C
	prof     map[string][]int
	setupN   int
	failK    int
	failHook string
}

func (w *c22World) repoIDs(repo *interfaces.Repository, snapName string) []int {
	var l []int
	if snapName == "" {
		for _, cr := range repo.Interfaces().Connections {
			l = append(l, c22Num(cr.ID()))
		}
	} else {
		crs, err := repo.Connections(snapName)
		w.c.Assert(err, IsNil)
		for _, cr := range crs {
			l = append(l, c22Num(cr.ID()))
		}
	}
	sort.Ints(l)
	return l
}

func (w *c22World) snapshot() c22Snap {
	st := w.s.state
	st.Lock()
	defer st.Unlock()
	conns, err := ifacestate.GetConns(st)
	w.c.Assert(err, IsNil)
	var snap c22Snap
	for id, cs := range conns {
		snap.Conns = append(snap.Conns, c22Conn{ID: c22Num(id), Auto: cs.Auto, ByGadget: cs.ByGadget, Undesired: cs.Undesired,
			HotplugGone: cs.HotplugGone, Attrs: len(cs.StaticPlugAttrs) > 0 || len(cs.StaticSlotAttrs) > 0})
	}
	sort.Slice(snap.Conns, func(i, j int) bool { return snap.Conns[i].ID < snap.Conns[j].ID })
	snap.Repo = w.repoIDs(w.s.manager(w.c).Repository(), "")
	snap.ProfC = append([]int{}, w.prof["consumer"]...)
	snap.ProfP = append([]int{}, w.prof["producer"]...)
	return snap
}

func (w *c22World) runOp(op c22Op) (created, failed bool) {
	s, c := w.s, w.c
	st := s.state
	repo := s.manager(c).Repository()
	plug, slot := c22Plugs[op.ID/2], c22Slots[op.ID%2]
	ref := &interfaces.ConnRef{PlugRef: interfaces.PlugRef{Snap: "consumer", Name: plug}, SlotRef: interfaces.SlotRef{Snap: "producer", Name: slot}}

	st.Lock()
	var ts *state.TaskSet
	var err error
	mainKind := op.Kind
	switch op.Kind {
	case "connect":
		if op.Auto {
			ts, err = ifacestate.ConnectPriv(st, "consumer", plug, "producer", slot, ifacestate.NewConnectOptsWithAutoSet())
		} else {
			ts, err = ifacestate.Connect(st, "consumer", plug, "producer", slot)
		}
		if err == nil && op.ByGadget {
			for _, t := range ts.Tasks() {
				if t.Kind() == "connect" {
					t.Set("by-gadget", true)
				}
			}
		}
	case "autoconnect":
		// what a refresh of the plug snap does at the interface level: setup-profiles, then auto-connect (which injects
		// connect tasks with delayed-setup-profiles and a second setup-profiles)
		snapsup := &snapstate.SnapSetup{SideInfo: &snap.SideInfo{RealName: "consumer", Revision: snap.R(1)}}
		sp := st.NewTask("setup-profiles", "")
		sp.Set("snap-setup", snapsup)
		ac := st.NewTask("auto-connect", "")
		ac.Set("snap-setup", snapsup)
		ac.WaitFor(sp)
		ts = state.NewTaskSet(sp, ac)
		mainKind = "setup-profiles"
	case "remove":
		// removal of the plug snap at the interface level: auto-disconnect (injects the real disconnect tasks with the
		// auto-disconnect flag), the snap leaves snapstate (stand-in for unlink-snap .. discard-snap), remove-profiles,
		// discard-conns
		snapsup := &snapstate.SnapSetup{SideInfo: &snap.SideInfo{RealName: "consumer", Revision: snap.R(1)}}
		var prev *state.Task
		ts = state.NewTaskSet()
		for _, kind := range []string{"auto-disconnect", "verif-c22-unlink", "remove-profiles", "discard-conns"} {
			t := st.NewTask(kind, "")
			t.Set("snap-setup", snapsup)
			if prev != nil {
				t.WaitFor(prev)
			}
			ts.AddTask(t)
			prev = t
		}
		mainKind = "auto-disconnect"
	case "disconnect":
		conn, cerr := repo.Connection(ref)
		switch {
		case op.Forget:
			ts, err = ifacestate.Forget(st, repo, ref)
		case cerr != nil:
			err = cerr
		case op.AutoDisc:
			ts, err = ifacestate.DisconnectPriv(st, conn, ifacestate.NewDisconnectOptsWithAutoSet())
		case op.ByHotplug:
			ts, err = ifacestate.DisconnectPriv(st, conn, ifacestate.NewDisconnectOptsWithByHotplugSet())
		default:
			ts, err = ifacestate.Disconnect(st, conn)
		}
	}
	if err != nil {
		st.Unlock()
		return false, false
	}
	chg := st.NewChange("verif-"+op.Kind, "...")
	chg.AddAll(ts)
	// where is the main task, and are there hook tasks around it?
	var pre, post []*state.Task
	seenMain := false
	for _, t := range ts.Tasks() {
		switch {
		case t.Kind() == mainKind:
			seenMain = true
		case !seenMain:
			pre = append(pre, t)
		default:
			post = append(post, t)
		}
	}
	if op.Kind == "autoconnect" || op.Kind == "remove" {
		pre, post = nil, nil // no hook tasks yet: auto-connect injects them later; failures are injected with error-trigger tasks
	}
	hookOf := func(t *state.Task) string {
		var hs hookstate.HookSetup
		c.Assert(t.Get("hook-setup", &hs), IsNil)
		return hs.Hook
	}
	w.setupN, w.failK, w.failHook = 0, 0, ""
	switch op.Fail {
	case "before":
		// the hooks of an auto-disconnect (snap removal) carry IgnoreError: their failure does not fail the change
		if len(pre) > 0 && !op.AutoDisc {
			w.failHook = hookOf(pre[(op.K)%len(pre)])
		} else {
			terr := st.NewTask("error-trigger", "fail before the main task")
			for _, t := range ts.Tasks() {
				t.WaitFor(terr)
			}
			chg.AddTask(terr)
		}
	case "main":
		w.failK = op.K
	case "after":
		if len(post) > 0 {
			w.failHook = hookOf(post[(op.K)%len(post)])
		} else {
			terr := st.NewTask("error-trigger", "fail after the main task")
			terr.WaitAll(ts)
			chg.AddTask(terr)
		}
	}
	st.Unlock()

	s.settle(c)

	st.Lock()
	defer st.Unlock()
	c.Assert(chg.IsReady(), Equals, true)
	w.failK, w.failHook = 0, ""
	return true, chg.Err() != nil
}

func (s *interfaceManagerSuite) c22Exec(c *C, in c22In) vh.Out {
	w := &c22World{s: s, c: c, prof: map[string][]int{}}
	s.mockIfaces(&ifacetest.TestInterface{InterfaceName: "test"})
	s.mockSnap(c, c22ConsumerYaml)
	s.mockSnap(c, c22ProducerYaml)
	restoreDecl := assertstest.MockBuiltinBaseDeclaration([]byte(`
type: base-declaration
authority-id: canonical
series: 16
slots:
  test:
    allow-auto-connection:
      slots-per-plug: *
`))
	defer restoreDecl()
	restore := hookstate.MockRunHook(func(ctx *hookstate.Context, tomb *tomb.Tomb) ([]byte, error) {
		if w.failHook != "" && ctx.HookName() == w.failHook {
			return []byte("injected hook failure"), errors.New("injected hook failure")
		}
		return nil, nil
	})
	defer restore()

	init := map[string]interface{}{}
	for _, ic := range in.Init {
		e := map[string]interface{}{"interface": "test"}
		if ic.Auto {
			e["auto"] = true
		}
		if ic.ByGadget {
			e["by-gadget"] = true
		}
		if ic.Undesired {
			e["undesired"] = true
		}
		if ic.HotplugGone {
			e["hotplug-gone"] = true
		}
		if ic.Attrs {
			e["plug-static"] = map[string]interface{}{"attr1": "value1"}
			e["slot-static"] = map[string]interface{}{"attr2": "value2"}
		}
		init[c22ID(ic.ID)] = e
	}
	s.state.Lock()
	s.state.Set("conns", init)
	s.state.Unlock()

	mgr := s.manager(c) // registers the snaps, reloads the connections
	var savedSnapst snapstate.SnapState
	s.o.TaskRunner().AddHandler("verif-c22-unlink", func(t *state.Task, _ *tomb.Tomb) error {
		s.state.Lock()
		defer s.state.Unlock()
		if err := snapstate.Get(s.state, "consumer", &savedSnapst); err != nil {
			return err
		}
		snapstate.Set(s.state, "consumer", nil)
		return nil
	}, func(t *state.Task, _ *tomb.Tomb) error {
		s.state.Lock()
		defer s.state.Unlock()
		snapstate.Set(s.state, "consumer", &savedSnapst)
		return nil
	})
	s.secBackend.RemoveCallback = func(snapName string) error {
		w.prof[snapName] = nil
		return nil
	}
	repo := mgr.Repository()
	s.secBackend.SetupCallback = func(appSet *interfaces.SnapAppSet, opts interfaces.ConfinementOptions, r *interfaces.Repository) error {
		w.setupN++
		if w.failK != 0 && w.setupN == w.failK {
			return errors.New("injected setup failure")
		}
		w.prof[appSet.InstanceName()] = w.repoIDs(r, appSet.InstanceName())
		return nil
	}
	startup := w.repoIDs(repo, "")
	// the profiles the start-up generated are for the reloaded connections
	w.prof["consumer"] = append([]int{}, startup...)
	w.prof["producer"] = append([]int{}, startup...)

	var steps []c22Step
	viol := ""
	for _, op := range in.Ops {
		pre := w.snapshot()
		created, failed := w.runOp(op)
		post := w.snapshot()
		stp := c22Step{Op: op, Pre: pre, Post: post, Created: created, Failed: failed}
		// the driver's own, deliberately simple, reading of the property: classification of known findings only
		if pre.agree() && ((failed && !post.same(pre)) || !post.agree()) {
			e := "absent"
			for _, cs := range pre.Conns {
				if cs.ID == op.ID {
					switch {
					case cs.HotplugGone:
						e = "hotplug-gone"
					case cs.Undesired:
						e = "undesired"
					default:
						e = "active"
					}
				}
			}
			stp.Viol = op.Kind + "/" + op.Fail + "/" + e
			if op.Kind == "autoconnect" || op.Kind == "remove" {
				stp.Viol = op.Kind + "/" + op.Fail
			}
			if op.Kind == "disconnect" && op.Forget {
				stp.Viol = "forget/" + op.Fail + "/" + e
			}
			viol = stp.Viol
		}
		steps = append(steps, stp)
		if viol != "" {
			break // at most one violating step per history, the last one
		}
		if op.Kind == "remove" && created && !failed {
			break // the plug snap is gone: the model's world (both snaps installed) ends here
		}
	}

	items := make([]string, len(steps))
	tags := []string{}
	nontrivial := false
	for i, stp := range steps {
		items[i] = "(mkStep " + c22CoqOp(stp.Op) + " " + c22CoqSnap(stp.Pre) + " " + c22CoqSnap(stp.Post) + " " +
			vh.CoqBool(stp.Created) + " " + vh.CoqBool(stp.Failed) + ")"
		t := stp.Op.Kind + "-" + stp.Op.Fail
		if !stp.Created {
			t = stp.Op.Kind + "-rejected"
		} else if stp.Failed {
			nontrivial = true
		}
		tags = append(tags, t)
	}
	coq := "(CHist " + c22CoqConns(in.Init) + " " + c22CoqBoolN(startup) + " " + vh.CoqList(items) + ")"
	return vh.Out{Observed: map[string]interface{}{"startup": startup, "steps": steps, "viol": viol}, Coq: coq, NonTrivial: nontrivial, Tags: tags}
}

func c22RandConn(r *vh.Rand, id int) c22Conn {
	cs := c22Conn{ID: id, Attrs: true}
	switch r.Intn(8) {
	case 0, 1:
	case 2, 3:
		cs.Auto = true
	case 4:
		cs.Auto, cs.ByGadget = true, true
	case 5, 6:
		cs.Auto, cs.Undesired, cs.Attrs = true, true, false
	case 7:
		cs.HotplugGone = true
		cs.Auto = r.Bool()
	}
	return cs
}

func c22RandOp(r *vh.Rand) c22Op {
	op := c22Op{ID: r.Intn(4)}
	if r.Intn(5) < 2 {
		op.ID = 0 // the pair with hooks on both sides
	}
	if r.Chance(1, 8) {
		op.Kind = "remove"
		op.ID = 0
	} else if r.Chance(1, 5) {
		op.Kind = "autoconnect"
		op.ID = 0
	} else if r.Bool() {
		op.Kind = "connect"
		switch r.Intn(5) {
		case 0, 1:
			op.Auto = true
		case 2:
			op.Auto, op.ByGadget = true, true
		}
	} else {
		op.Kind = "disconnect"
		switch r.Intn(6) {
		case 0:
			op.Forget = true
		case 1:
			op.AutoDisc = true
		case 2:
			op.ByHotplug = true
		}
	}
	switch r.Intn(8) {
	case 0, 1, 2:
		op.Fail = "none"
	case 3:
		op.Fail = "before"
		op.K = r.Intn(2)
	case 4, 5:
		op.Fail = "main"
		op.K = r.Range(1, 2)
	default:
		op.Fail = "after"
		op.K = r.Intn(2)
	}
	if op.Kind == "remove" && op.Fail == "main" {
		op.Fail = "after" // failure points of a removal: before / after (security setup failures inside it are not modelled)
	}
	return op
}

func c22Gen(r *vh.Rand, tier string, n int) []c22In {
	if n == 0 {
		n = 60
	}
	var ins []c22In
	// regression cases for the repaired finding 8 (/repo commit 63d7dd9), always first: an active connection, the disconnect
	// (resp. forget) task fails in its first security setup; conns AND repository must be as before
	ins = append(ins, c22In{Init: []c22Conn{{ID: 0, Attrs: true}}, Ops: []c22Op{{Kind: "disconnect", ID: 0, Fail: "main", K: 1}}})
	ins = append(ins, c22In{Init: []c22Conn{{ID: 0, Auto: true, Attrs: true}}, Ops: []c22Op{{Kind: "disconnect", ID: 0, Forget: true, Fail: "main", K: 1}}})
	// every (entry state, operation, failure point) for the pair with hooks, one change each
	entries := []*c22Conn{nil, {Attrs: true}, {Auto: true, Attrs: true}, {Auto: true, Undesired: true}, {HotplugGone: true, Attrs: true}}
	ops := []c22Op{{Kind: "connect"}, {Kind: "connect", Auto: true}, {Kind: "disconnect"}, {Kind: "disconnect", Forget: true},
		{Kind: "disconnect", AutoDisc: true}, {Kind: "disconnect", ByHotplug: true}}
	fails := []c22Op{{Fail: "none"}, {Fail: "before"}, {Fail: "main", K: 1}, {Fail: "main", K: 2}, {Fail: "after"}, {Fail: "after", K: 1}}
	if tier == "thorough" || n >= 60 {
		for _, e := range entries {
			for _, o := range ops {
				for _, f := range fails {
					op := o
					op.Fail, op.K = f.Fail, f.K
					in := c22In{Ops: []c22Op{op}}
					if e != nil {
						in.Init = []c22Conn{*e}
					}
					ins = append(ins, in)
				}
			}
		}
	}
	if tier == "thorough" || n >= 60 {
		for _, e := range entries {
			for _, f := range fails {
				if f.Fail != "main" {
					rin := c22In{Ops: []c22Op{{Kind: "remove", Fail: f.Fail, K: f.K}}}
					if e != nil {
						y := *e
						y.ID = 2
						rin.Init = []c22Conn{*e, y}
						if f.K == 1 {
							rin.Init = []c22Conn{*e}
						}
					}
					ins = append(ins, rin)
				}
				in := c22In{Ops: []c22Op{{Kind: "autoconnect", Fail: f.Fail, K: f.K}}}
				if e != nil {
					in.Init = []c22Conn{*e}
					x := *e
					x.ID = 3
					if f.K == 1 {
						in.Init = append(in.Init, x)
					}
				}
				ins = append(ins, in)
			}
		}
	}
	for k := 0; k < n; k++ {
		var in c22In
		for id := 0; id < 4; id++ {
			if r.Chance(1, 2) {
				in.Init = append(in.Init, c22RandConn(r, id))
			}
		}
		for j := r.Range(1, 4); j > 0; j-- {
			in.Ops = append(in.Ops, c22RandOp(r))
		}
		ins = append(ins, in)
	}
	return ins
}

func (s *interfaceManagerSuite) TestVerifC22(c *C) {
	used := false
	vh.Run(c22Gen, func(in c22In) vh.Out {
		if used {
			s.TearDownTest(c)
			s.SetUpTest(c)
		}
		used = true
		return s.c22Exec(c, in)
	})
	_ = strings.TrimSpace
}
