//go:build verif

package ifacestate_test

// C14 driver, interface side: the entry points ifacestate.Connect, Disconnect and Forget (the latter on an active
// connection, on a connection remembered in the state but not active in the repository, and on an unknown one) asked
// while another change on the plug snap, the slot snap or an unrelated snap is in progress or finished. Same case
// type as the snapstate history driver (Conflict.History): after every step the driver records refused or not, the
// numbers of changes and of change tasks, and per snap the in-progress non-exempt changes having a task that affects
// it (snapstate.SnapsAffectedByTask); the operation written for the model names the two snaps of the connection as the
// snaps checked and carries the affected snaps of the tasks actually created.

import (
	"fmt"
	"sort"

	. "gopkg.in/check.v1"

	"github.com/snapcore/snapd/interfaces"
	"github.com/snapcore/snapd/interfaces/ifacetest"
	"github.com/snapcore/snapd/overlord/ifacestate"
	"github.com/snapcore/snapd/overlord/snapstate"
	"github.com/snapcore/snapd/overlord/state"
	"github.com/snapcore/snapd/snap"
	"github.com/snapcore/snapd/zzverif/vh"
)

type verifC14IfaceSuite struct {
	interfaceManagerSuite
	used bool
}

var _ = Suite(&verifC14IfaceSuite{})

type c14iOp struct {
	K string `json:"k"` // other finish connect disconnect forget-active forget-inactive forget-unknown
	// other: a change of the given kind with one task on the given snap
	Kind string `json:"kind,omitempty"`
	Snap int    `json:"snap,omitempty"`
	Chg  int    `json:"chg,omitempty"` // finish: n-th change created by this history (1-based)
}

type c14iIn struct {
	Ops []c14iOp `json:"ops"`
}

// snaps: 1 consumer, 2 producer, 3 consumer2 (plug not connected), 4 producer2 (unrelated)
var c14iNames = []string{"", "consumer", "producer", "consumer2", "producer2"}
var c14iIDs = map[string]int{"consumer": 1, "producer": 2, "consumer2": 3, "producer2": 4}

var c14iRequests = []string{"connect", "disconnect", "forget-active", "forget-inactive", "forget-unknown"}

func c14iGen(r *vh.Rand, tier string, n int) []c14iIn {
	if n == 0 {
		n = 30
	}
	var out []c14iIn
	kinds := []string{"enable-snap", "pre-download", "remodel"}
	// every request x other change on {none, plug snap, slot snap, unrelated snap} x in progress / finished
	for _, req := range c14iRequests {
		out = append(out, c14iIn{Ops: []c14iOp{{K: req}, {K: req}, {K: "finish", Chg: 1}, {K: req}}})
		for _, kind := range kinds {
			for _, sn := range []int{1, 2, 3, 4} {
				if tier != "thorough" && kind != "enable-snap" && sn > 2 {
					continue
				}
				other := c14iOp{K: "other", Kind: kind, Snap: sn}
				out = append(out, c14iIn{Ops: []c14iOp{other, {K: req}, {K: "finish", Chg: 1}, {K: req}, {K: req}}})
			}
		}
	}
	for i := 0; i < n; i++ {
		var h c14iIn
		created := 0
		nops := r.Range(3, 9)
		for j := 0; j < nops; j++ {
			switch x := r.Intn(10); {
			case x < 3:
				h.Ops = append(h.Ops, c14iOp{K: "other", Kind: kinds[r.Intn(len(kinds)*2)%len(kinds)], Snap: r.Range(1, 4)})
				created++
			case x < 5 && created > 0:
				h.Ops = append(h.Ops, c14iOp{K: "finish", Chg: r.Range(1, created)})
			default:
				h.Ops = append(h.Ops, c14iOp{K: c14iRequests[r.Intn(len(c14iRequests))]})
				created++
			}
		}
		out = append(out, h)
	}
	return out
}

func c14iNs(l []int) string {
	var xs []string
	for _, x := range l {
		xs = append(xs, vh.CoqN(uint64(x)))
	}
	return vh.CoqList(xs)
}

func (s *verifC14IfaceSuite) observe() string {
	st := s.state
	nch := len(st.Changes())
	nt := 0
	touching := map[int]map[int]bool{}
	for _, t := range st.Tasks() {
		chg := t.Change()
		if chg == nil {
			continue
		}
		nt++
		if chg.IsReady() || chg.Kind() == "pre-download" || chg.Kind() == "become-operational" {
			continue
		}
		names, err := snapstate.SnapsAffectedByTask(t)
		if err != nil {
			panic(err)
		}
		id := 0
		fmt.Sscanf(chg.ID(), "%d", &id)
		for _, n := range names {
			if touching[c14iIDs[n]] == nil {
				touching[c14iIDs[n]] = map[int]bool{}
			}
			touching[c14iIDs[n]][id] = true
		}
	}
	var entries []string
	for x := 1; x <= 4; x++ {
		var ids []int
		for id := range touching[x] {
			ids = append(ids, id)
		}
		sort.Ints(ids)
		if len(ids) > 0 {
			entries = append(entries, vh.CoqTuple(vh.CoqN(uint64(x)), c14iNs(ids)))
		}
	}
	return fmt.Sprintf("%d%%N %d%%N %s", nch, nt, vh.CoqList(entries))
}

func (s *verifC14IfaceSuite) exec(c *C, in c14iIn) vh.Out {
	if s.used {
		s.TearDownTest(c)
		s.SetUpTest(c)
	}
	s.used = true

	s.mockIfaces(&ifacetest.TestInterface{InterfaceName: "test"}, &ifacetest.TestInterface{InterfaceName: "test2"})
	for _, y := range []string{consumerYaml, producerYaml, consumer2Yaml, producer2Yaml} {
		s.mockSnap(c, y)
	}
	s.state.Lock()
	s.state.Set("conns", map[string]interface{}{
		"consumer:plug producer:slot":   map[string]interface{}{"interface": "test"},
		"consumer:plug2 producer:slot2": map[string]interface{}{"interface": "test2"}, // remembered, not active: no such plug/slot
	})
	s.state.Unlock()
	mgr := s.manager(c)
	repo := mgr.Repository()

	st := s.state
	st.Lock()
	defer st.Unlock()
	// the changes of the manager's own start-up do not count
	base := len(st.Changes())
	if base != 0 {
		panic("unexpected changes after start-up")
	}

	ref := func(plugSnap, plug, slotSnap, slot string) *interfaces.ConnRef {
		return &interfaces.ConnRef{PlugRef: interfaces.PlugRef{Snap: plugSnap, Name: plug}, SlotRef: interfaces.SlotRef{Snap: slotSnap, Name: slot}}
	}
	var created []*state.Change
	var steps []string
	var obs []map[string]interface{}
	tags := map[string]bool{}
	nRejected, nAccepted := 0, 0
	for _, op := range in.Ops {
		tags[op.K] = true
		switch op.K {
		case "other":
			chg := st.NewChange(op.Kind, "verif")
			t := st.NewTask("verif-c14-task", "verif")
			t.Set("snap-setup", &snapstate.SnapSetup{SideInfo: &snap.SideInfo{RealName: c14iNames[op.Snap]}})
			chg.AddTask(t)
			created = append(created, chg)
			// another subsystem's change, put into the state without a conflict check (model op Inject)
			o := s.observe()
			steps = append(steps, fmt.Sprintf("(mkHobs (Inject %s %s) false %s)", vh.CoqBytes(op.Kind), c14iNs([]int{op.Snap}), o))
			obs = append(obs, map[string]interface{}{"op": "other", "kind": op.Kind, "snap": op.Snap, "obs": o})
			continue
		case "finish":
			if op.Chg < 1 || op.Chg > len(created) {
				continue
			}
			chg := created[op.Chg-1]
			if chg.IsReady() {
				continue
			}
			id := 0
			fmt.Sscanf(chg.ID(), "%d", &id)
			for i, t := range chg.Tasks() {
				if chg.IsReady() {
					break
				}
				t.SetStatus(state.DoneStatus)
				o := s.observe()
				steps = append(steps, fmt.Sprintf("(mkHobs (Progress %d%%N %d%%N true) false %s)", id, i, o))
				obs = append(obs, map[string]interface{}{"op": "finish", "chg": id, "task": i, "obs": o})
			}
			continue
		}
		var ts *state.TaskSet
		var err error
		snaps := []int{1, 2}
		kind := "disconnect-snap"
		switch op.K {
		case "connect":
			snaps = []int{3, 2}
			kind = "connect-snap"
			ts, err = ifacestate.Connect(st, "consumer2", "plug", "producer", "slot")
		case "disconnect":
			conn, cerr := repo.Connection(ref("consumer", "plug", "producer", "slot"))
			if cerr != nil {
				panic(cerr)
			}
			ts, err = ifacestate.Disconnect(st, conn)
		case "forget-active":
			ts, err = ifacestate.Forget(st, repo, ref("consumer", "plug", "producer", "slot"))
		case "forget-inactive":
			ts, err = ifacestate.Forget(st, repo, ref("consumer", "plug2", "producer", "slot2"))
		case "forget-unknown":
			ts, err = ifacestate.Forget(st, repo, ref("consumer", "nope", "producer", "nope"))
		default:
			panic("unknown op " + op.K)
		}
		rejected := false
		var tasks []string
		if err != nil {
			if _, ok := err.(*snapstate.ChangeConflictError); !ok {
				panic(fmt.Sprintf("%s: %T %v", op.K, err, err))
			}
			rejected = true
			nRejected++
			tags["rejected"] = true
		} else {
			chg := st.NewChange(kind, "verif")
			chg.AddAll(ts)
			created = append(created, chg)
			nAccepted++
			for _, t := range chg.Tasks() {
				names, err := snapstate.SnapsAffectedByTask(t)
				if err != nil {
					panic(err)
				}
				var l []int
				for _, n := range names {
					l = append(l, c14iIDs[n])
				}
				tasks = append(tasks, fmt.Sprintf("(mkTask %s false)", c14iNs(l)))
			}
		}
		o := s.observe()
		steps = append(steps, fmt.Sprintf("(mkHobs (Request %s false false None true %s %s) %s %s)", vh.CoqBytes(kind), c14iNs(snaps), vh.CoqList(tasks),
			vh.CoqBool(rejected), o))
		obs = append(obs, map[string]interface{}{"op": op.K, "rejected": rejected, "obs": o})
	}
	var tl []string
	for t := range tags {
		tl = append(tl, t)
	}
	sort.Strings(tl)
	return vh.Out{Observed: obs, Coq: fmt.Sprintf("(History 4%%N %s)", vh.CoqList(steps)), NonTrivial: nRejected > 0 && nAccepted > 0, Tags: tl}
}

func (s *verifC14IfaceSuite) TestVerifC14Iface(c *C) {
	vh.Run(c14iGen, func(in c14iIn) vh.Out { return s.exec(c, in) })
}
