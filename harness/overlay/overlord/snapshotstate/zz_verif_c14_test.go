//go:build verif

package snapshotstate

// C14 driver, snapshot side: the entry points Save, Restore, Check and Forget of overlord/snapshotstate asked while
// another change on one of the snaps or on an unrelated snap is in progress or finished. Same case type and
// observations as the snapstate history driver (Conflict.History). Save and Restore check the snaps they operate on
// (snapstate.CheckChangeConflictMany); Check and Forget make no snap conflict check at all (only a per-snapshot-set
// check) and are written as the model operation Unchecked with the snaps their tasks are observed to affect (none: the
// manager's affected-snaps function only counts save and restore tasks; if that changes, the monitor judges the
// crowding). The driver also verifies by itself that a refused Save does not allocate a snapshot set id.

import (
	"context"
	"fmt"
	"os"
	"sort"
	"testing"

	"github.com/snapcore/snapd/client"
	"github.com/snapcore/snapd/dirs"
	"github.com/snapcore/snapd/overlord/snapshotstate/backend"
	"github.com/snapcore/snapd/overlord/snapstate"
	"github.com/snapcore/snapd/overlord/snapstate/snapstatetest"
	"github.com/snapcore/snapd/overlord/state"
	"github.com/snapcore/snapd/snap"
	"github.com/snapcore/snapd/zzverif/vh"
)

type c14sOp struct {
	K     string `json:"k"` // other finish save restore check forget
	Kind  string `json:"kind,omitempty"`
	Snap  int    `json:"snap,omitempty"`
	Snaps []int  `json:"snaps,omitempty"`
	Chg   int    `json:"chg,omitempty"`
}

type c14sIn struct {
	Ops []c14sOp `json:"ops"`
}

// snaps 1 and 2 are in snapshot set 42; snap 3 is installed, not in the set
var c14sNames = []string{"", "snap-one", "snap-two", "snap-three"}
var c14sIDs = map[string]int{"snap-one": 1, "snap-two": 2, "snap-three": 3}

func c14sGen(r *vh.Rand, tier string, n int) []c14sIn {
	if n == 0 {
		n = 20
	}
	var out []c14sIn
	reqs := []c14sOp{{K: "save", Snaps: []int{1}}, {K: "save", Snaps: []int{1, 2}}, {K: "restore"}, {K: "restore", Snaps: []int{1}}}
	for _, req := range reqs {
		out = append(out, c14sIn{Ops: []c14sOp{req, req, {K: "finish", Chg: 1}, req}})
		for _, kind := range []string{"install-snap", "pre-download", "remodel"} {
			for _, sn := range []int{1, 2, 3} {
				if kind != "install-snap" && sn != 1 {
					continue
				}
				out = append(out, c14sIn{Ops: []c14sOp{{K: "other", Kind: kind, Snap: sn}, req, {K: "finish", Chg: 1}, req}})
			}
		}
	}
	// Check / Forget on a free snap, and after each other where the per-set check allows it
	out = append(out, c14sIn{Ops: []c14sOp{{K: "check", Snaps: []int{1}}, {K: "finish", Chg: 1}, {K: "forget", Snaps: []int{1}}, {K: "finish", Chg: 2}, {K: "save", Snaps: []int{1}}}})
	// Check / Forget while another change on the snap, or an exclusive change, is in progress: accepted, and their tasks
	// are observed to affect no snap
	for _, k := range []string{"check", "forget"} {
		out = append(out, c14sIn{Ops: []c14sOp{{K: "other", Kind: "remove-snap", Snap: 1}, {K: k, Snaps: []int{1}}}})
		out = append(out, c14sIn{Ops: []c14sOp{{K: "other", Kind: "remodel", Snap: 3}, {K: k, Snaps: []int{1}}}})
	}
	for i := 0; i < n; i++ {
		var h c14sIn
		created := 0
		for j, nops := 0, r.Range(3, 8); j < nops; j++ {
			switch x := r.Intn(10); {
			case x < 3:
				h.Ops = append(h.Ops, c14sOp{K: "other", Kind: []string{"install-snap", "pre-download", "remodel", "refresh-snap"}[r.Intn(4)], Snap: r.Range(1, 3)})
				created++
			case x < 5 && created > 0:
				h.Ops = append(h.Ops, c14sOp{K: "finish", Chg: r.Range(1, created)})
			default:
				h.Ops = append(h.Ops, reqs[r.Intn(len(reqs))])
				created++
			}
		}
		out = append(out, h)
	}
	return out
}

func c14sNs(l []int) string {
	var xs []string
	for _, x := range l {
		xs = append(xs, vh.CoqN(uint64(x)))
	}
	return vh.CoqList(xs)
}

func c14sObserve(st *state.State) string {
	nch := len(st.Changes())
	nt := 0
	touching := map[int]map[int]bool{}
	for _, t := range st.Tasks() {
		chg := t.Change()
		nt++
		if chg.IsReady() || chg.Kind() == "pre-download" || chg.Kind() == "become-operational" {
			continue
		}
		names, err := snapstate.SnapsAffectedByTask(t)
		if err != nil {
			panic(err)
		}
		id := 0
		fmt.Sscanf(chg.ID(), "%d", &id)
		for _, n := range names {
			if touching[c14sIDs[n]] == nil {
				touching[c14sIDs[n]] = map[int]bool{}
			}
			touching[c14sIDs[n]][id] = true
		}
	}
	var entries []string
	for x := 1; x <= 3; x++ {
		var ids []int
		for id := range touching[x] {
			ids = append(ids, id)
		}
		sort.Ints(ids)
		if len(ids) > 0 {
			entries = append(entries, vh.CoqTuple(vh.CoqN(uint64(x)), c14sNs(ids)))
		}
	}
	return fmt.Sprintf("%d%%N %d%%N %s", nch, nt, vh.CoqList(entries))
}

func c14sExec(in c14sIn) vh.Out {
	tmp, err := os.MkdirTemp("", "verif-c14s")
	if err != nil {
		panic(err)
	}
	defer os.RemoveAll(tmp)
	dirs.SetRootDir(tmp)
	defer dirs.SetRootDir("")
	shot, err := os.Create(tmp + "/shot.zip")
	if err != nil {
		panic(err)
	}
	defer shot.Close()

	oldIter, oldAll := backendIter, snapstateAll
	defer func() { backendIter, snapstateAll = oldIter, oldAll }()
	backendIter = func(_ context.Context, f func(*backend.Reader) error) error {
		for _, name := range []string{"snap-one", "snap-two"} {
			if err := f(&backend.Reader{Snapshot: client.Snapshot{SetID: 42, Snap: name}, File: shot}); err != nil {
				return err
			}
		}
		return nil
	}
	// Restore only uses the installed snaps to compare epoch / snap id with the snapshot: not the subject here
	snapstateAll = func(*state.State) (map[string]*snapstate.SnapState, error) { return map[string]*snapstate.SnapState{}, nil }

	st := state.New(nil)
	Manager(st, state.NewTaskRunner(st)) // registers the affected-snaps function of tasks with snapshot-setup
	st.Lock()
	defer st.Unlock()
	for i := 1; i <= 3; i++ {
		si := &snap.SideInfo{RealName: c14sNames[i], Revision: snap.R(1)}
		snapstate.Set(st, c14sNames[i], &snapstate.SnapState{Active: true, Current: si.Revision,
			Sequence: snapstatetest.NewSequenceFromSnapSideInfos([]*snap.SideInfo{si})})
	}
	names := func(l []int) []string {
		var out []string
		for _, x := range l {
			out = append(out, c14sNames[x])
		}
		return out
	}
	lastSetID := func() uint64 {
		var id uint64
		st.Get("last-snapshot-set-id", &id)
		return id
	}

	var created []*state.Change
	var steps []string
	var obs []map[string]interface{}
	tags := map[string]bool{}
	nRejected, nAccepted := 0, 0
	for _, op := range in.Ops {
		tags[op.K] = true
		switch op.K {
		case "other":
			chg := st.NewChange(op.Kind, "verif")
			t := st.NewTask("verif-c14-task", "verif")
			t.Set("snap-setup", &snapstate.SnapSetup{SideInfo: &snap.SideInfo{RealName: c14sNames[op.Snap]}})
			chg.AddTask(t)
			created = append(created, chg)
			o := c14sObserve(st)
			steps = append(steps, fmt.Sprintf("(mkHobs (Inject %s %s) false %s)", vh.CoqBytes(op.Kind), c14sNs([]int{op.Snap}), o))
			obs = append(obs, map[string]interface{}{"op": "other", "kind": op.Kind, "snap": op.Snap, "obs": o})
			continue
		case "finish":
			if op.Chg < 1 || op.Chg > len(created) || created[op.Chg-1].IsReady() {
				continue
			}
			chg := created[op.Chg-1]
			id := 0
			fmt.Sscanf(chg.ID(), "%d", &id)
			for i, t := range chg.Tasks() {
				if chg.IsReady() {
					break
				}
				t.SetStatus(state.DoneStatus)
				o := c14sObserve(st)
				steps = append(steps, fmt.Sprintf("(mkHobs (Progress %d%%N %d%%N true) false %s)", id, i, o))
				obs = append(obs, map[string]interface{}{"op": "finish", "chg": id, "task": i, "obs": o})
			}
			continue
		}
		var ts *state.TaskSet
		var err error
		checked := op.Snaps
		kind := op.K + "-snapshot"
		before := lastSetID()
		switch op.K {
		case "save":
			_, _, ts, err = Save(st, names(op.Snaps), nil, nil)
		case "restore":
			if len(op.Snaps) == 0 {
				checked = []int{1, 2}
			}
			_, ts, err = Restore(st, 42, names(op.Snaps), nil)
		case "check":
			_, ts, err = Check(st, 42, names(op.Snaps), nil)
		case "forget":
			_, ts, err = Forget(st, 42, names(op.Snaps))
		default:
			panic("unknown op " + op.K)
		}
		rejected := false
		same := true
		var tasks []string
		var affectedAll []int
		if err != nil {
			rejected = true
			nRejected++
			if _, ok := err.(*snapstate.ChangeConflictError); ok {
				tags["rejected"] = true
			} else {
				// refused for a reason outside the conflict matrix (the per-snapshot-set check): written as a request the
				// model refuses unconditionally
				same = false
				tags["rejected-set-check"] = true
			}
			if lastSetID() != before {
				panic(fmt.Sprintf("a refused %s request allocated a snapshot set id", op.K))
			}
		} else {
			chg := st.NewChange(kind, "verif")
			chg.AddAll(ts)
			created = append(created, chg)
			nAccepted++
			for _, t := range chg.Tasks() {
				affected, err := snapstate.SnapsAffectedByTask(t)
				if err != nil {
					panic(err)
				}
				var l []int
				for _, n := range affected {
					l = append(l, c14sIDs[n])
					affectedAll = append(affectedAll, c14sIDs[n])
				}
				tasks = append(tasks, fmt.Sprintf("(mkTask %s false)", c14sNs(l)))
			}
		}
		o := c14sObserve(st)
		var coqOp string
		if (op.K == "check" || op.K == "forget") && !rejected {
			if len(tasks) != 1 {
				panic("check/forget of one snap is expected to create one task")
			}
			coqOp = fmt.Sprintf("(Unchecked %s %s)", vh.CoqBytes(kind), c14sNs(affectedAll))
		} else {
			if op.K == "check" || op.K == "forget" {
				checked = nil
			}
			coqOp = fmt.Sprintf("(Request %s false false None %s %s %s)", vh.CoqBytes(kind), vh.CoqBool(same), c14sNs(checked), vh.CoqList(tasks))
		}
		steps = append(steps, fmt.Sprintf("(mkHobs %s %s %s)", coqOp, vh.CoqBool(rejected), o))
		obs = append(obs, map[string]interface{}{"op": op.K, "snaps": op.Snaps, "rejected": rejected, "obs": o})
	}
	var tl []string
	for t := range tags {
		tl = append(tl, t)
	}
	sort.Strings(tl)
	return vh.Out{Observed: obs, Coq: fmt.Sprintf("(History 3%%N %s)", vh.CoqList(steps)), NonTrivial: nRejected > 0 && nAccepted > 0, Tags: tl}
}

func TestVerifC14Snapshots(t *testing.T) { vh.Run(c14sGen, c14sExec) }
