//go:build verif

// C32 driver: runs the real backend.Import on generated tar streams (watching the tree outside the snapshots
// directory) and the real backend.Open + Reader.Restore (+ RestoreState.Cleanup / Revert) with the system tar on
// generated snapshot archives, some corrupted, over pre-existing data; prints each run as a Coq term Snapshot.case.
// In-package only to (a) replace backendOpen in the import runs by a recorder (the members are not real
// snapshots), (b) point userLookup at temporary homes and run tar directly instead of through runuser/sudo.
package backend

import (
	"archive/tar"
	"archive/zip"
	"bytes"
	"compress/gzip"
	"context"
	"crypto"
	"crypto/sha1"
	"encoding/json"
	"fmt"
	"io"
	"os"
	"os/exec"
	"os/user"
	"path/filepath"
	"regexp"
	"sort"
	"strings"
	"syscall"
	"testing"
	"time"

	"github.com/snapcore/snapd/client"
	"github.com/snapcore/snapd/dirs"
	"github.com/snapcore/snapd/snap"
	"github.com/snapcore/snapd/zzverif/vh"
)

// ------------------------------------------------------------------ inputs

type c32Member struct {
	Name string `json:"name"`
	Kind string `json:"kind"` // file | dir | symlink
	Body string `json:"body"`
}

type c32Import struct {
	ID           uint64      `json:"id"`
	Members      []c32Member `json:"members"`
	GarbageAfter int         `json:"garbage_after"` // -1: well-formed stream; k: junk header after k members
}

type c32Tree map[string]string // relative file path -> content (directories implied); empty map = empty directory

type c32Entry struct {
	Name    string             `json:"name"`    // archive.tgz | user/<name>.tgz
	Init    map[string]c32Tree `json:"init"`    // nil: parent directory missing
	Archive map[string]c32Tree `json:"archive"` // top-level directories in the archive
	Corrupt string             `json:"corrupt"` // "" | digest | tar | missing | crc
	CutAt   int                `json:"cut_at"`  // tar: percentage of the gzip stream that is kept
}

type c32Restore struct {
	SnapRev int        `json:"snap_rev"`
	Cur     int        `json:"cur"` // 0: unset
	Entries []c32Entry `json:"entries"`
	After   string     `json:"after"` // none | cleanup | revert
	// usernames handed to Reader.Check (nil: all entries are checked)
	CheckUsers []string `json:"check_users"`
}

type c32In struct {
	Import  *c32Import  `json:"import,omitempty"`
	Restore *c32Restore `json:"restore,omitempty"`
	Round   *c32Round   `json:"round,omitempty"`
}

// export -> import round trip over real snapshot files
type c32Round struct {
	From  uint64     `json:"from"`
	To    uint64     `json:"to"`
	Snaps []c32RSnap `json:"snaps"`
}

type c32RSnap struct {
	Name    string             `json:"name"`
	Version string             `json:"version"`
	Rev     int                `json:"rev"`
	Archive map[string]c32Tree `json:"archive"`
}

func c32ExecRound(in *c32Round) vh.Out {
	root, err := os.MkdirTemp(os.Getenv("VERIF_SCRATCH_DIR"), "c32x-")
	if err != nil {
		panic(err)
	}
	defer os.RemoveAll(root)
	dirs.SetRootDir(root)
	defer dirs.SetRootDir("/")
	S := dirs.SnapshotsDir
	os.MkdirAll(S, 0700)
	sdir := c32Comps(S)
	fileOf := map[string]string{} // rest -> Coq pair
	var files []string
	for _, sn := range in.Snaps {
		data := c32Tgz(sn.Archive)
		meta := client.Snapshot{SetID: in.From, Time: time.Unix(1700000000, 0), Snap: sn.Name, Revision: snap.R(sn.Rev), Version: sn.Version,
			SHA3_384: map[string]string{archiveName: c32Sha3(data)}}
		fn := Filename(&meta)
		zf, _ := os.Create(fn)
		zw := zip.NewWriter(zf)
		w, _ := zw.CreateHeader(&zip.FileHeader{Name: archiveName, Method: zip.Store})
		w.Write(data)
		metaBytes, _ := json.Marshal(&meta)
		w, _ = zw.Create(metadataName)
		w.Write(metaBytes)
		w, _ = zw.Create(metaHashName)
		io.WriteString(w, c32Sha3(metaBytes))
		zw.Close()
		zf.Close()
		content, _ := os.ReadFile(fn)
		rest := strings.TrimPrefix(filepath.Base(fn), fmt.Sprintf("%d_", in.From))
		fileOf[rest] = "(" + vh.CoqBytes(rest) + ", " + vh.CoqBytes(string(content)) + ")"
	}
	se, err := NewSnapshotExport(context.Background(), in.From)
	if err != nil {
		panic(fmt.Sprintf("export: %v", err))
	}
	var buf bytes.Buffer
	if err := se.StreamTo(&buf); err != nil {
		panic(fmt.Sprintf("stream: %v", err))
	}
	se.Close()
	// what is in the stream
	var members []string
	tr := tar.NewReader(bytes.NewReader(buf.Bytes()))
	for {
		hdr, err := tr.Next()
		if err != nil {
			break
		}
		body, _ := io.ReadAll(tr)
		kind := "MFile"
		if hdr.Typeflag == tar.TypeDir {
			kind = "MDir"
		}
		members = append(members, fmt.Sprintf("{| m_name := %s; m_kind := %s; m_body := %s; m_valid := true |}", vh.CoqBytes(hdr.Name), kind, vh.CoqBytes(string(body))))
		// the snapshot files are exported in the order Iter meets them (readdir order): list them in that order
		if pair, ok := fileOf[strings.TrimPrefix(hdr.Name, fmt.Sprintf("%d_", in.From))]; ok {
			files = append(files, pair)
			delete(fileOf, strings.TrimPrefix(hdr.Name, fmt.Sprintf("%d_", in.From)))
		}
	}
	for _, pair := range fileOf { // not exported at all: keep them so that the model disagrees
		files = append(files, pair)
	}
	var ws []string
	recording := true
	oldOpen := backendOpen
	backendOpen = func(fn string, setID uint64) (*Reader, error) {
		if recording {
			data, _ := os.ReadFile(fn)
			ws = append(ws, "("+c32CoqPath(c32Comps(fn))+", "+vh.CoqBytes(string(data))+")")
		}
		return Open(fn, setID) // the real thing: the imported files are real snapshots
	}
	defer func() { backendOpen = oldOpen }()
	names, ierr := Import(context.Background(), in.To, bytes.NewReader(buf.Bytes()), &ImportFlags{NoDuplicatedImportCheck: true})
	recording = false
	var finals []string
	filepath.Walk(S, func(p string, fi os.FileInfo, err error) error {
		if err == nil && fi.Mode().IsRegular() {
			data, _ := os.ReadFile(p)
			finals = append(finals, "("+c32CoqPath(c32Comps(p))+", "+vh.CoqBytes(string(data))+")")
		}
		return nil
	})
	coq := fmt.Sprintf("(RoundTripCase %s %s %s %s %s %s %s %s)", c32CoqPath(sdir), vh.CoqBytes(fmt.Sprint(in.From)), vh.CoqBytes(fmt.Sprint(in.To)),
		vh.CoqList(files), vh.CoqList(members), vh.CoqList(ws), vh.CoqBool(ierr == nil), vh.CoqList(finals))
	tags := []string{"roundtrip", fmt.Sprintf("roundtrip-snaps-%d", len(in.Snaps))}
	if ierr != nil {
		tags = append(tags, "ROUNDTRIP-FAILED")
	}
	return vh.Out{Observed: map[string]interface{}{"ok": ierr == nil, "names": names, "members": len(members)}, Coq: coq, NonTrivial: true, Tags: tags}
}

// ------------------------------------------------------------------ tree digests

func c32Walk(root string, skip string) string {
	h := sha1.New()
	filepath.Walk(root, func(p string, fi os.FileInfo, err error) error {
		if err != nil {
			fmt.Fprintf(h, "ERR %s\n", p)
			return nil
		}
		if skip != "" && (p == skip || strings.HasPrefix(p, skip+"/")) {
			if fi.IsDir() {
				return filepath.SkipDir
			}
			return nil
		}
		rel, _ := filepath.Rel(root, p)
		switch {
		case fi.IsDir():
			fmt.Fprintf(h, "d %s %o\n", rel, fi.Mode().Perm())
		case fi.Mode()&os.ModeSymlink != 0:
			l, _ := os.Readlink(p)
			fmt.Fprintf(h, "l %s %s\n", rel, l)
		default:
			data, _ := os.ReadFile(p)
			fmt.Fprintf(h, "f %s %o %x\n", rel, fi.Mode().Perm(), sha1.Sum(data))
		}
		return nil
	})
	return fmt.Sprintf("%x", h.Sum(nil))
}

func c32Materialise(root string, t c32Tree) {
	os.MkdirAll(root, 0755)
	os.Chmod(root, 0755)
	for rel, content := range t {
		p := filepath.Join(root, rel)
		os.MkdirAll(filepath.Dir(p), 0755)
		if err := os.WriteFile(p, []byte(content), 0644); err != nil {
			panic(err)
		}
	}
}

// ------------------------------------------------------------------ import

func c32Comps(p string) []string {
	var out []string
	for _, c := range strings.Split(p, "/") {
		if c != "" {
			out = append(out, c)
		}
	}
	return out
}

func c32CoqPath(comps []string) string {
	var items []string
	for _, c := range comps {
		items = append(items, vh.CoqBytes(c))
	}
	return vh.CoqList(items)
}

func c32ExecImport(in *c32Import) vh.Out {
	root, err := os.MkdirTemp(os.Getenv("VERIF_SCRATCH_DIR"), "c32i-")
	if err != nil {
		panic(err)
	}
	defer os.RemoveAll(root)
	dirs.SetRootDir(root)
	defer dirs.SetRootDir("/")
	S := dirs.SnapshotsDir
	os.MkdirAll(S, 0700)
	// things an escaping member could hit
	for _, p := range []string{"etc/passwd", "var/lib/snapd/state.json", "var/lib/snapd/x", "var/lib/x", "x", "var/lib/snapd/snapshots_x"} {
		os.MkdirAll(filepath.Dir(filepath.Join(root, p)), 0755)
		os.WriteFile(filepath.Join(root, p), []byte("precious"), 0644)
	}
	sub := fmt.Sprintf("%d_d", in.ID)
	os.MkdirAll(filepath.Join(S, sub), 0755)
	os.WriteFile(filepath.Join(S, fmt.Sprintf("%d_old.zip", in.ID)), []byte("old"), 0600)
	os.WriteFile(filepath.Join(S, "9_other_1.0_1.zip"), []byte("other"), 0600)
	before := c32Walk(root, S)

	var buf bytes.Buffer
	tw := tar.NewWriter(&buf)
	var members []string
	for i, m := range in.Members {
		if in.GarbageAfter >= 0 && i == in.GarbageAfter {
			break
		}
		hdr := &tar.Header{Name: m.Name, Mode: 0644, Size: int64(len(m.Body)), Typeflag: tar.TypeReg}
		kind := "MFile"
		switch m.Kind {
		case "dir":
			hdr.Typeflag, hdr.Size, kind = tar.TypeDir, 0, "MDir"
		case "symlink":
			hdr.Typeflag, hdr.Size, hdr.Linkname = tar.TypeSymlink, 0, "/etc/passwd"
		}
		body := m.Body
		if m.Name == "content.json" || m.Name == "export.json" {
			body = "{}"
			hdr.Size = 2
		}
		if hdr.Typeflag == tar.TypeReg && strings.HasSuffix(m.Name, "/") {
			// archive/tar cannot write this; its reader reports such an entry as a directory
			hdr.Typeflag, hdr.Size, kind = tar.TypeDir, 0, "MDir"
		}
		if err := tw.WriteHeader(hdr); err != nil {
			continue // not expressible with archive/tar: the member is left out of the case
		}
		if hdr.Typeflag == tar.TypeReg {
			tw.Write([]byte(body))
		}
		if hdr.Typeflag != tar.TypeReg {
			body = ""
		}
		// the recorder standing in for Open + Check rejects a written file whose path (below the snapshots dir) contains BAD
		members = append(members, fmt.Sprintf("{| m_name := %s; m_kind := %s; m_body := %s; m_valid := %s |}", vh.CoqBytes(m.Name), kind, vh.CoqBytes(body),
			vh.CoqBool(!strings.Contains(m.Name, "BAD"))))
	}
	tw.Flush()
	stream := buf.Bytes()
	if in.GarbageAfter >= 0 && in.GarbageAfter <= len(in.Members) {
		stream = append(append([]byte{}, stream...), bytes.Repeat([]byte{0xff}, 512)...)
		members = append(members, "{| m_name := []; m_kind := MTarErr; m_body := []; m_valid := true |}")
	} else {
		tw.Close()
		stream = buf.Bytes()
	}

	var written [][]string
	var contents []string
	oldOpen := backendOpen
	backendOpen = func(fn string, setID uint64) (*Reader, error) {
		written = append(written, c32Comps(fn))
		data, _ := os.ReadFile(fn)
		contents = append(contents, string(data))
		if strings.Contains(strings.TrimPrefix(fn, S), "BAD") {
			return nil, fmt.Errorf("not a snapshot")
		}
		f, err := os.Open(fn)
		if err != nil {
			return nil, err
		}
		return &Reader{File: f}, nil // no hashes recorded: Check has nothing to verify
	}
	defer func() { backendOpen = oldOpen }()

	_, ierr := Import(context.Background(), in.ID, bytes.NewReader(stream), &ImportFlags{NoDuplicatedImportCheck: true})
	after := c32Walk(root, S)

	var ws []string
	for i, w := range written {
		ws = append(ws, "("+c32CoqPath(w)+", "+vh.CoqBytes(contents[i])+")")
	}
	sdir := c32Comps(S)
	files := fmt.Sprintf("[(%s, %s); (%s, %s)]",
		c32CoqPath(append(append([]string{}, sdir...), fmt.Sprintf("%d_old.zip", in.ID))), vh.CoqBytes("old"),
		c32CoqPath(append(append([]string{}, sdir...), "9_other_1.0_1.zip")), vh.CoqBytes("other"))
	// the regular files below the snapshots directory after Import returned
	var finals []string
	finalObs := map[string]string{}
	filepath.Walk(S, func(p string, fi os.FileInfo, err error) error {
		if err == nil && fi.Mode().IsRegular() {
			data, _ := os.ReadFile(p)
			finals = append(finals, "("+c32CoqPath(c32Comps(p))+", "+vh.CoqBytes(string(data))+")")
			finalObs[strings.TrimPrefix(p, S)] = string(data)
		}
		return nil
	})
	coq := fmt.Sprintf("(ImportCase %s %s [%s] %s %s %s %s %s "+vh.CoqList(finals)+")", c32CoqPath(sdir), vh.CoqBytes(fmt.Sprint(in.ID)),
		c32CoqPath(append(append([]string{}, sdir...), sub)), files, vh.CoqList(members), vh.CoqList(ws), vh.CoqBool(ierr == nil), vh.CoqBool(before == after))
	var rel []string
	for _, w := range written {
		rel = append(rel, strings.TrimPrefix("/"+strings.Join(w, "/"), S))
	}
	tags := []string{"import", fmt.Sprintf("import-written-%d", len(written))}
	seenPath := map[string]bool{}
	for i, r := range rel {
		if seenPath[r] || (strings.HasSuffix(r, "_old.zip") && i >= 0) {
			tags = append(tags, "import-overwrite")
			break
		}
		seenPath[r] = true
	}
	if ierr == nil {
		tags = append(tags, "import-ok")
	} else {
		tags = append(tags, "import-err")
	}
	if before != after {
		tags = append(tags, "OUTSIDE-CHANGED")
	}
	return vh.Out{Observed: map[string]interface{}{"ok": ierr == nil, "written": rel, "contents": contents, "outside_unchanged": before == after, "final": finalObs},
		Coq: coq, NonTrivial: len(written) > 0 || (ierr != nil && len(in.Members) > 0), Tags: tags}
}

// ------------------------------------------------------------------ restore

var c32BackupRx = regexp.MustCompile(`^(.*)\.~[a-zA-Z0-9]{9}~$`)

type c32Names struct {
	ids  map[string]uint64
	next uint64
}

func (n *c32Names) real(name string) uint64 {
	if name == "common" {
		return 0
	}
	if id, ok := n.ids[name]; ok {
		return id
	}
	n.next += 2
	n.ids[name] = n.next
	return n.next
}

// name seen in a parent after the run: known real names keep their id, fresh backups are base+1
func (n *c32Names) final(name string) uint64 {
	if name == "common" {
		return 0
	}
	if id, ok := n.ids[name]; ok {
		return id
	}
	if m := c32BackupRx.FindStringSubmatch(name); m != nil {
		return n.real(m[1]) + 1
	}
	return n.real(name)
}

type c32Interner struct{ ids map[string]uint64 }

func (t *c32Interner) id(d string) uint64 {
	if id, ok := t.ids[d]; ok {
		return id
	}
	id := uint64(len(t.ids) + 1)
	t.ids[d] = id
	return id
}

func c32Tgz(top map[string]c32Tree) []byte {
	var raw bytes.Buffer
	gz := gzip.NewWriter(&raw)
	tw := tar.NewWriter(gz)
	var names []string
	for n := range top {
		names = append(names, n)
	}
	sort.Strings(names)
	for _, n := range names {
		seen := map[string]bool{}
		mkdir := func(d string) {
			if !seen[d] {
				seen[d] = true
				tw.WriteHeader(&tar.Header{Name: d + "/", Typeflag: tar.TypeDir, Mode: 0755})
			}
		}
		mkdir(n)
		var files []string
		for f := range top[n] {
			files = append(files, f)
		}
		sort.Strings(files)
		for _, f := range files {
			parts := strings.Split(f, "/")
			for i := 1; i < len(parts); i++ {
				mkdir(n + "/" + strings.Join(parts[:i], "/"))
			}
			tw.WriteHeader(&tar.Header{Name: n + "/" + f, Typeflag: tar.TypeReg, Mode: 0644, Size: int64(len(top[n][f]))})
			tw.Write([]byte(top[n][f]))
		}
	}
	tw.Close()
	gz.Close()
	return raw.Bytes()
}

func c32Sha3(b []byte) string {
	h := crypto.SHA3_384.New()
	h.Write(b)
	return fmt.Sprintf("%x", h.Sum(nil))
}

func c32ListParent(parent string, names *c32Names, trees *c32Interner) (string, interface{}) {
	ents, err := os.ReadDir(parent)
	if err != nil {
		return "None", nil
	}
	var items []string
	obs := map[string]uint64{}
	for _, e := range ents {
		id := names.final(e.Name())
		t := trees.id(c32Walk(filepath.Join(parent, e.Name()), ""))
		items = append(items, fmt.Sprintf("(%s, %s)", vh.CoqN(id), vh.CoqN(t)))
		obs[e.Name()] = t
	}
	return "(Some " + vh.CoqList(items) + ")", obs
}

func c32ExecRestore(in *c32Restore) vh.Out {
	root, err := os.MkdirTemp(os.Getenv("VERIF_SCRATCH_DIR"), "c32r-")
	if err != nil {
		panic(err)
	}
	defer os.RemoveAll(root)
	dirs.SetRootDir(root)
	defer dirs.SetRootDir("/")
	scratch := filepath.Join(root, "scratch")

	oldLookup, oldTar := userLookup, tarAsUser
	userLookup = func(name string) (*user.User, error) {
		return &user.User{Uid: "0", Gid: "0", Username: name, HomeDir: filepath.Join(root, "home", name)}, nil
	}
	tarAsUser = func(username string, args ...string) *exec.Cmd { return exec.Command("tar", args...) } // as when no wrapper is on PATH
	defer func() { userLookup, tarAsUser = oldLookup, oldTar }()

	names := &c32Names{ids: map[string]uint64{}}
	trees := &c32Interner{ids: map[string]uint64{}}
	revName := fmt.Sprint(in.SnapRev)
	names.real(revName)
	cur := "None"
	if in.Cur != 0 {
		cur = "(Some " + vh.CoqN(names.real(fmt.Sprint(in.Cur))) + ")"
	}

	// the snapshot file
	zipPath := filepath.Join(root, "snap.zip")
	zf, _ := os.Create(zipPath)
	zw := zip.NewWriter(zf)
	hashes := map[string]string{}
	var parents []string
	var esCoq []string
	var zsCoq []string
	var crcNames []string
	blobs := &c32Interner{ids: map[string]uint64{}}
	for k, e := range in.Entries {
		parent := filepath.Join(dirs.SnapDataDir, "foo")
		if e.Name != "archive.tgz" {
			uname := strings.TrimSuffix(strings.TrimPrefix(e.Name, "user/"), ".tgz")
			home := filepath.Join(root, "home", uname)
			os.MkdirAll(home, 0755)
			parent = filepath.Join(home, "snap", "foo")
		}
		parents = append(parents, parent)
		init := "None"
		if e.Init != nil {
			os.MkdirAll(parent, 0755)
			var items []string
			var ns []string
			for n := range e.Init {
				ns = append(ns, n)
			}
			sort.Strings(ns)
			for _, n := range ns {
				c32Materialise(filepath.Join(parent, n), e.Init[n])
				items = append(items, fmt.Sprintf("(%s, %s)", vh.CoqN(names.real(n)), vh.CoqN(trees.id(c32Walk(filepath.Join(parent, n), "")))))
			}
			init = "(Some " + vh.CoqList(items) + ")"
		}
		// what tar will put into the temporary directory
		var ext []string
		var ns []string
		for n := range e.Archive {
			ns = append(ns, n)
		}
		sort.Strings(ns)
		for _, n := range ns {
			p := filepath.Join(scratch, fmt.Sprint(k), n)
			c32Materialise(p, e.Archive[n])
			ext = append(ext, fmt.Sprintf("(%s, %s)", vh.CoqN(names.real(n)), vh.CoqN(trees.id(c32Walk(p, "")))))
		}
		data := c32Tgz(e.Archive)
		extractOK, digestOK := true, true
		switch e.Corrupt {
		case "missing", "crc":
			extractOK = false
			ext = nil
		case "tar":
			cut := len(data) * e.CutAt / 100
			if cut >= len(data)-8 {
				cut = len(data) - 9
			}
			if cut < 0 {
				cut = 0
			}
			data = data[:cut]
			extractOK = false
			ext = nil
		}
		hashes[e.Name] = c32Sha3(data)
		if e.Corrupt == "digest" {
			hashes[e.Name] = c32Sha3(append([]byte("x"), data...))
			digestOK = false
		}
		if e.Corrupt != "missing" {
			w, _ := zw.CreateHeader(&zip.FileHeader{Name: e.Name, Method: zip.Store})
			w.Write(data)
		}
		if e.Corrupt == "crc" {
			crcNames = append(crcNames, e.Name)
		}
		zuser := "None"
		if e.Name != "archive.tgz" {
			zuser = "(Some " + vh.CoqBytes(strings.TrimSuffix(strings.TrimPrefix(e.Name, "user/"), ".tgz")) + ")"
		}
		recorded := blobs.id(string(data))
		if e.Corrupt == "digest" {
			recorded = blobs.id("x" + string(data))
		}
		zsCoq = append(zsCoq, fmt.Sprintf("{| z_user := %s; z_present := %s; z_read_ok := %s; z_reported := %s; z_read := %s; z_actual := %s; z_recorded := %s |}",
			zuser, vh.CoqBool(e.Corrupt != "missing"), vh.CoqBool(e.Corrupt != "crc"), vh.CoqN(uint64(len(data))), vh.CoqN(uint64(len(data))),
			vh.CoqN(blobs.id(string(data))), vh.CoqN(recorded)))
		esCoq = append(esCoq, fmt.Sprintf("(%s, {| e_rev := %s; e_extract_ok := %s; e_extracted := %s; e_digest_ok := %s |})",
			init, vh.CoqN(names.real(revName)), vh.CoqBool(extractOK), vh.CoqList(ext), vh.CoqBool(digestOK)))
	}
	meta := client.Snapshot{SetID: 5, Time: time.Unix(1700000000, 0), Snap: "foo", Revision: snap.R(in.SnapRev), Version: "1", SHA3_384: hashes}
	metaBytes, _ := json.Marshal(&meta)
	w, _ := zw.Create(metadataName)
	w.Write(metaBytes)
	w, _ = zw.Create(metaHashName)
	io.WriteString(w, c32Sha3(metaBytes))
	zw.Close()
	zf.Close()
	os.RemoveAll(scratch)
	if len(crcNames) > 0 {
		// flip one byte of the stored member data: the zip reader reports a checksum error at the end of the member
		raw, _ := os.ReadFile(zipPath)
		zr, err := zip.NewReader(bytes.NewReader(raw), int64(len(raw)))
		if err != nil {
			panic(err)
		}
		for _, f := range zr.File {
			for _, n := range crcNames {
				if f.Name == n {
					off, _ := f.DataOffset()
					raw[off+int64(f.UncompressedSize64)/2] ^= 0x55
				}
			}
		}
		os.WriteFile(zipPath, raw, 0600)
	}

	r, err := Open(zipPath, 5)
	if err != nil {
		panic(fmt.Sprintf("cannot open generated snapshot: %v", err))
	}
	defer r.Close()
	cerr := r.Check(context.Background(), append([]string{}, in.CheckUsers...))
	curRev := snap.R(in.Cur)
	rs, rerr := r.Restore(context.Background(), curRev, nil, func(string, ...interface{}) {}, nil)
	if rerr == nil {
		switch in.After {
		case "cleanup":
			rs.Cleanup()
		case "revert":
			rs.Revert()
		}
	}
	var finals []string
	obsFinal := []interface{}{}
	for _, p := range parents {
		c, o := c32ListParent(p, names, trees)
		finals = append(finals, c)
		obsFinal = append(obsFinal, o)
	}
	after := map[string]string{"none": "ANone", "cleanup": "ACleanup", "revert": "ARevert"}[in.After]
	var us []string
	for _, u := range in.CheckUsers {
		us = append(us, vh.CoqBytes(u))
	}
	coq := fmt.Sprintf("(RestoreCase %s %s %s %s %s %s %s %s)", cur, vh.CoqList(esCoq), after, vh.CoqBool(rerr == nil), vh.CoqList(finals),
		vh.CoqList(us), vh.CoqList(zsCoq), vh.CoqBool(cerr == nil))
	tags := []string{"restore", "after-" + in.After, fmt.Sprintf("entries-%d", len(in.Entries))}
	corrupt := false
	for _, e := range in.Entries {
		if e.Corrupt != "" {
			corrupt = true
			tags = append(tags, "corrupt-"+e.Corrupt)
		}
		if e.Init == nil {
			tags = append(tags, "parent-missing")
		}
	}
	if cerr == nil {
		tags = append(tags, "check-ok")
	} else {
		tags = append(tags, "check-err")
	}
	if len(in.CheckUsers) > 0 {
		tags = append(tags, "check-with-users")
	}
	if rerr == nil {
		tags = append(tags, "restore-ok")
	} else {
		tags = append(tags, "restore-err")
	}
	if in.Cur != 0 && in.Cur != in.SnapRev {
		tags = append(tags, "other-current-revision")
	}
	return vh.Out{Observed: map[string]interface{}{"ok": rerr == nil, "final": obsFinal, "check_ok": cerr == nil}, Coq: coq,
		NonTrivial: corrupt || len(in.Entries) > 1 || in.After == "revert", Tags: tags}
}

// ------------------------------------------------------------------ generators

func c32GenName(r *vh.Rand) string {
	pre := r.Pick([]string{"1", "5", "12", "", "/1", "../1", "a/1", "/etc/passwd", "x"})
	rest := r.Pick([]string{"foo_1.0_3.zip", "foo.zip", "BAD_1_2.zip", "fooBAD.zip", "a.zip", "b_1_1.zip", ".zip", "x.zip.bak", "zip", "..", "../x", "d/x", "d/..", "d/../..", "d/../../x", "/etc/passwd", "/../../x", "d/../../x", "d/../../../x", "d/../../state.json",
		"a/b", "", ".", "./x", "d//x", "d/./x", "..zip", "...", ".../x", "d/..x", "d/x..", "x/", "importing", "old.zip", "d", "d/", "..\\x"})
	switch r.Intn(8) {
	case 0:
		return pre // no underscore at all (unless pre has one)
	case 1:
		return r.Str("ab._/", 0, 8)
	case 2:
		return pre + "_" + r.Str("ad._/", 0, 7)
	}
	return pre + "_" + rest
}

func c32GenImport(r *vh.Rand) *c32Import {
	in := &c32Import{ID: uint64(r.Range(1, 30)), GarbageAfter: -1}
	if in.ID == 9 {
		in.ID = 19
	}
	n := r.Range(1, 5)
	for i := 0; i < n; i++ {
		m := c32Member{Name: c32GenName(r), Kind: "file", Body: r.Str("xyz", 0, 5)}
		switch r.Intn(12) {
		case 0:
			m.Kind = "dir"
		case 1:
			m.Kind = "symlink"
		case 2:
			m.Name = "content.json"
		case 3, 4:
			m.Name = "export.json"
		}
		if len(in.Members) > 0 && r.Chance(1, 4) {
			// duplicate target: same name (or same rest under another old set id), another body
			prev := in.Members[r.Intn(len(in.Members))]
			m.Name, m.Kind = prev.Name, "file"
			if i := strings.Index(prev.Name, "_"); i >= 0 && r.Bool() {
				m.Name = "77" + prev.Name[i:]
			}
		}
		in.Members = append(in.Members, m)
	}
	if r.Chance(1, 2) {
		in.Members = append(in.Members, c32Member{Name: "export.json", Kind: "file"})
	}
	if r.Chance(1, 8) {
		in.GarbageAfter = r.Intn(len(in.Members) + 1)
	}
	return in
}

func c32GenTree(r *vh.Rand) c32Tree {
	t := c32Tree{}
	n := r.Intn(4)
	for i := 0; i < n; i++ {
		t[r.Pick([]string{"a", "b", "s/a", "s/t/b", "c.txt"})] = r.Str("01", 0, 4)
	}
	return t
}

func c32GenRestore(r *vh.Rand) *c32Restore {
	in := &c32Restore{SnapRev: r.Range(1, 3), After: r.Pick([]string{"none", "cleanup", "revert", "none"})}
	switch r.Intn(3) {
	case 0:
		in.Cur = in.SnapRev
	case 1:
		in.Cur = r.Range(1, 4)
	}
	enames := []string{"archive.tgz", "user/u1.tgz", "user/u2.tgz"}
	ne := r.Range(1, 3)
	for i := 0; i < ne; i++ {
		e := c32Entry{Name: enames[i], Archive: map[string]c32Tree{}}
		if r.Chance(4, 5) {
			e.Init = map[string]c32Tree{}
			for _, n := range []string{"common", fmt.Sprint(in.SnapRev), fmt.Sprint(in.Cur), "other", "common.~abcdefghi~", "7"} {
				if n != "0" && r.Chance(1, 2) {
					e.Init[n] = c32GenTree(r)
				}
			}
		}
		for _, n := range []string{"common", fmt.Sprint(in.SnapRev)} {
			if r.Chance(5, 6) {
				e.Archive[n] = c32GenTree(r)
			}
		}
		if r.Chance(1, 8) {
			e.Archive[r.Pick([]string{"extra", fmt.Sprint(in.Cur), "9"})] = c32GenTree(r)
			delete(e.Archive, "0")
		}
		switch r.Intn(10) {
		case 0:
			e.Corrupt = "digest"
		case 1:
			e.Corrupt, e.CutAt = "tar", r.Range(0, 95)
		case 2:
			e.Corrupt = r.Pick([]string{"missing", "crc"})
		}
		in.Entries = append(in.Entries, e)
	}
	if r.Chance(1, 3) {
		in.CheckUsers = [][]string{{"u1"}, {"u2"}, {"u1", "u2"}, {"nobody"}}[r.Intn(4)]
	}
	return in
}

func c32Gen(r *vh.Rand, tier string, n int) []c32In {
	if n == 0 {
		n = 300
	}
	var ins []c32In
	// fixed import corner cases
	for _, nm := range []string{"1_foo_1.0_3.zip", "1_../x", "1_d/..", "1_..", "1_d/../..", "/etc/passwd", "/etc_/passwd", "1_/etc/passwd", "1_d/x", "1_nodir/x", "noscore", "1_", "1_d/.", "1_d",
		"1_d/../../x", "1_/../../x", "1_d/../../snapshots_x", "1_d/../../../x", "1_d/../../../../../etc/passwd", "1_d/../../state.json", "a/../1_d/../../x", "1_d/x/../../../x"} {
		ins = append(ins, c32In{Import: &c32Import{ID: 7, GarbageAfter: -1, Members: []c32Member{{Name: nm, Kind: "file", Body: "x"}, {Name: "export.json", Kind: "file"}}}})
	}
	ins = append(ins,
		c32In{Import: &c32Import{ID: 7, GarbageAfter: -1, Members: []c32Member{{Name: "1_a.zip", Kind: "file", Body: "xyzxyz"}, {Name: "2_a.zip", Kind: "file", Body: "zz"}, {Name: "export.json", Kind: "file"}}}},
		c32In{Import: &c32Import{ID: 7, GarbageAfter: -1, Members: []c32Member{{Name: "1_a.zip", Kind: "file", Body: "z"}, {Name: "1_a.zip", Kind: "file", Body: "xyzxyz"}, {Name: "1_old.zip", Kind: "file", Body: "y"}, {Name: "export.json", Kind: "file"}}}})
	// commit / cancel: a rejected member after accepted ones (everything <id>_*.zip is removed again, other names stay)
	ins = append(ins,
		c32In{Import: &c32Import{ID: 7, GarbageAfter: -1, Members: []c32Member{{Name: "1_a.zip", Kind: "file", Body: "xy"}, {Name: "1_keep", Kind: "file", Body: "k"}, {Name: "1_d/n.zip", Kind: "file", Body: "n"}, {Name: "1_BAD.zip", Kind: "file", Body: "z"}, {Name: "1_never.zip", Kind: "file", Body: "z"}, {Name: "export.json", Kind: "file"}}}},
		c32In{Import: &c32Import{ID: 7, GarbageAfter: -1, Members: []c32Member{{Name: "1_a.zip", Kind: "file", Body: "xy"}, {Name: "1_importing", Kind: "file", Body: "lock"}, {Name: "export.json", Kind: "file"}}}},
		c32In{Import: &c32Import{ID: 7, GarbageAfter: -1, Members: []c32Member{{Name: "1_a.zip", Kind: "file", Body: "xy"}, {Name: "1_b.zip", Kind: "file", Body: "b"}}}},
		c32In{Import: &c32Import{ID: 7, GarbageAfter: 2, Members: []c32Member{{Name: "1_a.zip", Kind: "file", Body: "xy"}, {Name: "1_.zip", Kind: "file", Body: "b"}, {Name: "export.json", Kind: "file"}}}})
	// fixed restore corner cases: two entries, the second corrupted, pre-existing data everywhere
	full := func() map[string]c32Tree {
		return map[string]c32Tree{"common": {"a": "old"}, "2": {"b": "old"}, "other": {"c": "keep"}}
	}
	arch := func() map[string]c32Tree { return map[string]c32Tree{"common": {"a": "new"}, "2": {"b": "new", "s/t": "n"}} }
	for _, c := range []string{"", "digest", "tar", "missing", "crc"} {
		for _, after := range []string{"none", "cleanup", "revert"} {
			ins = append(ins, c32In{Restore: &c32Restore{SnapRev: 2, Cur: 2, After: after, Entries: []c32Entry{
				{Name: "archive.tgz", Init: full(), Archive: arch()},
				{Name: "user/u1.tgz", Init: full(), Archive: arch(), Corrupt: c, CutAt: 60},
				{Name: "user/u2.tgz", Init: nil, Archive: arch()}}, CheckUsers: map[string][]string{"none": nil, "cleanup": {"u2"}, "revert": {"u1"}}[after]}})
		}
	}
	// export -> import round trips over real snapshot files
	for i := 0; i < 3+n/25; i++ {
		rt := &c32Round{From: uint64(r.Range(1, 9)), To: uint64(r.Range(10, 40))}
		k := r.Range(1, 3)
		for j := 0; j < k; j++ {
			rt.Snaps = append(rt.Snaps, c32RSnap{Name: []string{"foo", "bar-baz", "q"}[j], Version: r.Pick([]string{"1", "1.0", "2.0~rc1+git", "v_1", "1..2"}), Rev: r.Range(1, 99),
				Archive: map[string]c32Tree{"common": c32GenTree(r), fmt.Sprint(r.Range(1, 9)): c32GenTree(r)}})
		}
		ins = append(ins, c32In{Round: rt})
	}
	for i := 0; i < n; i++ {
		if i%4 != 3 {
			ins = append(ins, c32In{Import: c32GenImport(r)})
		} else {
			ins = append(ins, c32In{Restore: c32GenRestore(r)})
		}
	}
	return ins
}

func TestVerifC32Snapshot(t *testing.T) {
	syscall.Umask(0)
	vh.Run(c32Gen, func(in c32In) vh.Out {
		if in.Import != nil {
			return c32ExecImport(in.Import)
		}
		if in.Round != nil {
			return c32ExecRound(in.Round)
		}
		return c32ExecRestore(in.Restore)
	})
}
