//go:build verif

package hookstate_test

// C15 driver, hook part: runs of the real gate-auto-refresh hook of snap-a (affecting snaps: its base base-snap-a and
// itself, from refresh-candidates) through the real HookManager, with the hook body replaced (hookstate.MockRunHook) by a
// script that issues the real `snapctl refresh --hold` / `--proceed` commands (ctlcmd.Run in the hook's context) and
// exits 0 or non-zero, so that the real gateAutoRefreshHookHandler.Done / Error fallbacks run. The clock read by
// HoldRefresh / HeldSnaps is set by the driver. After every hook run and every clock tick the snaps-hold table and
// HeldSnaps at both levels are recorded. Same case type as the snapstate drivers (models/Holds.v).

import (
	"fmt"
	"math/big"
	"sort"
	"time"

	. "gopkg.in/check.v1"
	"gopkg.in/tomb.v2"

	"github.com/snapcore/snapd/overlord/hookstate"
	"github.com/snapcore/snapd/overlord/hookstate/ctlcmd"
	"github.com/snapcore/snapd/overlord/snapstate"
	"github.com/snapcore/snapd/snap"
	"github.com/snapcore/snapd/zzverif/vh"
)

type verifC15HookSuite struct {
	gateAutoRefreshHookSuite
	used bool
}

var _ = Suite(&verifC15HookSuite{})

type c15hOp struct {
	K      string   `json:"k"` // hook tick refreshed
	Script []string `json:"script,omitempty"` // hold | proceed
	Fails  bool     `json:"fails,omitempty"`
	D      int64    `json:"d,omitempty"`
	S      int      `json:"s,omitempty"`
}

type c15hIn struct {
	Ops []c15hOp `json:"ops"`
}

type c15hHold struct {
	FirstHeld time.Time `json:"first-held"`
	HoldUntil time.Time `json:"hold-until"`
	Level     int       `json:"level,omitempty"`
}

var c15hNames = []string{"system", "snap-a", "base-snap-a", "snap-b"}
var c15hIDs = map[string]int{"system": 0, "snap-a": 1, "base-snap-a": 2, "snap-b": 3}
var c15hBase = time.Date(2024, 3, 1, 0, 0, 0, 0, time.UTC)

const c15hH = int64(time.Hour)

func c15hGen(r *vh.Rand, tier string, n int) []c15hIn {
	if n == 0 {
		n = 12
	}
	hook := func(fails bool, script ...string) c15hOp { return c15hOp{K: "hook", Script: script, Fails: fails} }
	tick := func(d int64) c15hOp { return c15hOp{K: "tick", D: d} }
	var out []c15hIn
	// repeated holds up to (or just short of) the 48 h bound, then one hook run of every shape, then 1 h and 12 h later
	endings := []c15hOp{hook(true, "hold"), hook(false, "hold"), hook(true), hook(false), hook(false, "proceed"), hook(true, "proceed"),
		hook(false, "proceed", "hold")}
	for _, last := range []int64{24 * c15hH, 24*c15hH - 1} {
		for _, e := range endings {
			out = append(out, c15hIn{Ops: []c15hOp{hook(false, "hold"), tick(24 * c15hH), hook(false, "hold"), tick(last), e, tick(c15hH), tick(12 * c15hH)}})
		}
	}
	// the recorded finding (KNOWN_FINDINGS key hook-rehold-after-refusal): only these histories contain a hook run that asks
	// for --hold and then issues a further snapctl command
	out = append(out, c15hIn{Ops: []c15hOp{hook(false, "hold"), tick(48 * c15hH), hook(false, "hold", "hold"), tick(c15hH), tick(12 * c15hH)}})
	out = append(out, c15hIn{Ops: []c15hOp{hook(false, "hold"), tick(48 * c15hH), hook(true, "hold", "proceed"), tick(c15hH), tick(12 * c15hH)}})
	ticks := []int64{1, c15hH, 12 * c15hH, 24 * c15hH, 47 * c15hH, 48*c15hH - 1, 48 * c15hH, 48*c15hH + 1}
	shapes := []c15hOp{hook(true, "hold"), hook(false, "hold"), hook(false, "hold"), hook(true), hook(false), hook(false, "proceed"), hook(true, "proceed")}
	for i := 0; i < n; i++ {
		var h c15hIn
		nops := r.Range(4, 9)
		for j := 0; j < nops; j++ {
			switch x := r.Intn(10); {
			case x < 5:
				h.Ops = append(h.Ops, shapes[r.Intn(len(shapes))])
			case x < 6:
				h.Ops = append(h.Ops, c15hOp{K: "refreshed", S: r.Range(1, 2)})
			default:
				h.Ops = append(h.Ops, tick(ticks[r.Intn(len(ticks))]))
			}
		}
		out = append(out, h)
	}
	return out
}

func c15hAbs(t time.Time) string {
	z := new(big.Int).Mul(big.NewInt(t.Unix()), big.NewInt(1000000000))
	z.Add(z, big.NewInt(int64(t.Nanosecond())))
	if z.Sign() < 0 {
		return "(" + z.String() + ")%Z"
	}
	return z.String() + "%Z"
}

func (s *verifC15HookSuite) exec(c *C, in c15hIn) vh.Out {
	if s.used {
		s.TearDownTest(c)
		s.SetUpTest(c)
	}
	s.used = true
	st := s.state

	now := c15hBase
	defer snapstate.VerifC15SetTimeNow(func() time.Time { return now })()

	var script []string
	var fails bool
	var cmdResults []string
	defer hookstate.MockRunHook(func(ctx *hookstate.Context, tomb *tomb.Tomb) ([]byte, error) {
		for _, cmd := range script {
			_, _, err := ctlcmd.Run(ctx, []string{"refresh", "--" + cmd}, 0)
			if err != nil {
				cmdResults = append(cmdResults, cmd+": "+err.Error())
			} else {
				cmdResults = append(cmdResults, cmd+": ok")
			}
		}
		if fails {
			return []byte("hook failed"), fmt.Errorf("exit status 1")
		}
		return nil, nil
	})()

	st.Lock()
	defer st.Unlock()

	var times []string
	timeIdx := map[string]int{}
	tix := func(t time.Time) string {
		z := c15hAbs(t)
		i, ok := timeIdx[z]
		if !ok {
			i = len(times)
			timeIdx[z] = i
			times = append(times, z)
		}
		return vh.CoqN(uint64(i))
	}
	now0 := tix(c15hBase)
	lr := c15hBase.Add(-time.Hour)
	var lrs []string
	for i := 1; i <= 3; i++ {
		var snapst snapstate.SnapState
		if err := snapstate.Get(st, c15hNames[i], &snapst); err != nil {
			panic(err)
		}
		t := lr
		snapst.LastRefreshTime = &t
		snapstate.Set(st, c15hNames[i], &snapst)
		lrs = append(lrs, vh.CoqTuple(vh.CoqN(uint64(i)), tix(lr)))
	}
	st.Set("refresh-candidates", map[string]interface{}{
		"snap-a":      mockRefreshCandidate("snap-a", "", "edge", "v1", snap.Revision{N: 3}),
		"base-snap-a": mockRefreshCandidate("base-snap-a", "", "edge", "v1", snap.Revision{N: 3}),
	})

	var steps []string
	var obs []map[string]interface{}
	tags := map[string]bool{}
	sawHeld, sawRefused := false, false
	for _, op := range in.Ops {
		var coqOp string
		jsRes := "ok"
		switch op.K {
		case "hook":
			script, fails, cmdResults = op.Script, op.Fails, nil
			task := hookstate.SetupGateAutoRefreshHook(st, "snap-a")
			chg := st.NewChange("auto-refresh", "verif")
			chg.AddTask(task)
			st.Unlock()
			err := s.o.Settle(20 * time.Second)
			st.Lock()
			if err != nil {
				panic(err)
			}
			if !chg.IsReady() {
				panic("hook change did not finish")
			}
			var cmds []string
			for _, cmd := range op.Script {
				if cmd == "hold" {
					cmds = append(cmds, "CmdHold")
				} else {
					cmds = append(cmds, "CmdProceed")
				}
			}
			// affecting snaps of snap-a as AffectingSnapsForAffectedByRefreshCandidates sorts them: base-snap-a, snap-a
			coqOp = fmt.Sprintf("(Hook 1%%N [2%%N; 1%%N] %s %s)", vh.CoqList(cmds), vh.CoqBool(op.Fails))
			jsRes = fmt.Sprintf("%v status=%s", cmdResults, chg.Status())
			for _, r := range cmdResults {
				if len(r) > 6 && r[:5] == "hold:" && r != "hold: ok" {
					sawRefused = true
					tags["hold-refused"] = true
				}
			}
			if op.Fails {
				tags["hook-fails"] = true
			}
		case "tick":
			coqOp = fmt.Sprintf("(Tick %s)", vh.CoqN(uint64(op.D)))
			now = now.Add(time.Duration(op.D))
		case "refreshed":
			coqOp = fmt.Sprintf("(Refreshed %s)", vh.CoqN(uint64(op.S)))
			var snapst snapstate.SnapState
			if err := snapstate.Get(st, c15hNames[op.S], &snapst); err != nil {
				panic(err)
			}
			t := now
			snapst.LastRefreshTime = &t
			snapstate.Set(st, c15hNames[op.S], &snapst)
		default:
			panic("unknown op " + op.K)
		}
		tags[op.K] = true

		var gating map[string]map[string]*c15hHold
		if err := st.Get("snaps-hold", &gating); err != nil {
			gating = nil
		}
		var table, jsTable, helds []string
		for h := range gating {
			helds = append(helds, h)
		}
		sort.Strings(helds)
		for _, h := range helds {
			var holders []string
			for g := range gating[h] {
				holders = append(holders, g)
			}
			sort.Strings(holders)
			for _, g := range holders {
				hs := gating[h][g]
				table = append(table, vh.CoqTuple(vh.CoqN(uint64(c15hIDs[h])), vh.CoqN(uint64(c15hIDs[g])), tix(hs.FirstHeld), tix(hs.HoldUntil),
					vh.CoqN(uint64(hs.Level))))
				jsTable = append(jsTable, fmt.Sprintf("%s<-%s first=%s until=%s", h, g, hs.FirstHeld.Format(time.RFC3339Nano), hs.HoldUntil.Format(time.RFC3339Nano)))
			}
		}
		heldAt := func(level snapstate.HoldLevel) ([]string, []string) {
			held, err := snapstate.HeldSnaps(st, level)
			if err != nil {
				panic(err)
			}
			var coq, js, keys []string
			for k := range held {
				keys = append(keys, k)
			}
			sort.Strings(keys)
			for _, k := range keys {
				hs := append([]string(nil), held[k]...)
				sort.Strings(hs)
				for _, h := range hs {
					coq = append(coq, vh.CoqTuple(vh.CoqN(uint64(c15hIDs[k])), vh.CoqN(uint64(c15hIDs[h]))))
					js = append(js, k+"<-"+h)
				}
			}
			return coq, js
		}
		h0, j0 := heldAt(snapstate.HoldAutoRefresh)
		h1, j1 := heldAt(snapstate.HoldGeneral)
		if len(j0) > 0 {
			sawHeld = true
		}
		steps = append(steps, fmt.Sprintf("(mkRObs %s (Some 0%%Z) %s %s %s %s)", coqOp, vh.CoqList(table), vh.CoqList(h0), vh.CoqList(h1), tix(now)))
		obs = append(obs, map[string]interface{}{"op": op.K, "res": jsRes, "table": jsTable, "held0": j0, "held1": j1})
	}
	coq := fmt.Sprintf("(mkCase 3%%N %s %s %s %s)", vh.CoqList(times), vh.CoqList(lrs), now0, vh.CoqList(steps))
	var tl []string
	for t := range tags {
		tl = append(tl, t)
	}
	sort.Strings(tl)
	return vh.Out{Observed: obs, Coq: coq, NonTrivial: sawHeld && sawRefused, Tags: tl}
}

func (s *verifC15HookSuite) TestVerifC15Hooks(c *C) {
	vh.Run(c15hGen, func(in c15hIn) vh.Out { return s.exec(c, in) })
}
