//go:build verif

package ctlcmd

// C25 driver: runs the real ctlcmd.Run (real isAllowedToRun, real go-flags parser, the real option structs of every
// registered command) on generated argument vectors. Every registered command's generator is wrapped so that the
// struct handed to go-flags contains the REAL command struct (same options, positionals, sub-commands) but Execute
// only records the command name. kmod's sub-commands execute for real with a nil context, which makes them return
// MissingContextError naming kmod before doing anything.

import (
	"errors"
	"fmt"
	"io"
	"sort"
	"strings"
	"testing"

	"github.com/jessevdk/go-flags"

	"github.com/snapcore/snapd/overlord/hookstate"
	"github.com/snapcore/snapd/zzverif/vh"
)

type c25In struct {
	Kind string   `json:"kind"` // run | names
	Args []string `json:"args"`
	Uid  uint32   `json:"uid"`
}

type c25Obs struct {
	Out string `json:"out"`
	Cmd string `json:"cmd,omitempty"`
	Err string `json:"err,omitempty"`
}

var c25Executed []string

// the struct go-flags scans: Cmd points to the real command struct, so options/positionals/sub-commands are the real ones
type c25Wrap[T any] struct {
	Cmd *T
	in  command
	nm  string
}

func (w *c25Wrap[T]) setName(name string)              { w.nm = name; w.in.setName(name) }
func (w *c25Wrap[T]) setUid(uid uint32)                { w.in.setUid(uid) }
func (w *c25Wrap[T]) setStdout(o io.Writer)            { w.in.setStdout(o) }
func (w *c25Wrap[T]) setStderr(o io.Writer)            { w.in.setStderr(o) }
func (w *c25Wrap[T]) setContext(c *hookstate.Context)  { w.in.setContext(c) }
func (w *c25Wrap[T]) context() *hookstate.Context      { return w.in.context() }
func (w *c25Wrap[T]) Execute(args []string) error {
	c25Executed = append(c25Executed, w.nm)
	return nil
}

func c25W[T any](g func() command) func() command {
	return func() command {
		in := g()
		p, ok := in.(interface{}).(*T)
		if !ok {
			panic(fmt.Sprintf("verif c25: generator returned %T, wrapper expects another type", in))
		}
		return &c25Wrap[T]{Cmd: p, in: in}
	}
}

// one line per registered command; a command the table does not know makes the driver fail loudly
var c25Wrappers = map[string]func(func() command) func() command{
	"fde-setup-request": c25W[fdeSetupRequestCommand],
	"fde-setup-result":  c25W[fdeSetupResultCommand],
	"get":               c25W[getCommand],
	"set-health":        c25W[healthCommand],
	"install":           c25W[installCommand],
	"is-connected":      c25W[isConnectedCommand],
	"kmod":              c25W[kmodCommand],
	"model":             c25W[modelCommand],
	"mount":             c25W[mountCommand],
	"reboot":            c25W[rebootCommand],
	"refresh":           c25W[refreshCommand],
	"remove":            c25W[removeCommand],
	"restart":           c25W[restartCommand],
	"services":          c25W[servicesCommand],
	"set":               c25W[setCommand],
	"start":             c25W[startCommand],
	"stop":              c25W[stopCommand],
	"system-mode":       c25W[systemModeCommand],
	"umount":            c25W[umountCommand],
	"unset":             c25W[unsetCommand],
}

var c25Installed = false

func c25Install() {
	if c25Installed {
		return
	}
	c25Installed = true
	for name, info := range commands {
		w, ok := c25Wrappers[name]
		if !ok {
			panic("verif c25: registered command " + name + " has no wrapper in the driver")
		}
		info.generator = w(info.generator)
	}
}

func c25Names() []string {
	var names []string
	for n := range commands {
		names = append(names, n)
	}
	sort.Strings(names)
	return names
}

// ---------------------------------------------------------------------------------------------- generator

var c25Opts = []string{
	"-h", "--help", "--", "-", "---", "-t", "-d", "-s", "-o", "-g", "-u", "--view", "--slot", "--plug", "--code", "--pid",
	"--apparmor-label", "--list", "--type", "--options", "--persistent", "--halt", "--pending", "--proceed", "--hold",
	"--reload", "--enable", "--disable", "--json", "--assertion", "--global", "--user", "--bogus", "-x",
	"--code=-h", "--code=x", "--pid=5", "--pid=-h", "--type=-h", "-o-h", "-th", "-ht", "-hx", "-t-h", "--help=1", "--help=", "-h=1",
	"--type", "-t", "-o", "--options=--help", "--apparmor-label=--", "-5",
}

var c25Free = []string{"foo", "foo=bar", ":plug", "svc", "okay", "waiting", "help", "h", "insert", "remove", "mod", "/what", "/where", "get", "set", "model", "", " -h", "-h ", "--help "}

func c25Tok(r *vh.Rand, names []string) string {
	switch r.Intn(10) {
	case 0, 1:
		return names[r.Intn(len(names))]
	case 2, 3, 4, 5:
		return c25Opts[r.Intn(len(c25Opts))]
	case 6:
		return r.Pick([]string{"-h", "--help", "--"})
	}
	return c25Free[r.Intn(len(c25Free))]
}

func c25Gen(r *vh.Rand, tier string, n int) []c25In {
	c25Install()
	names := c25Names()
	var ins []c25In
	ins = append(ins, c25In{Kind: "names"})
	uids := []uint32{0, 1000}
	add := func(args ...string) {
		for _, u := range uids {
			ins = append(ins, c25In{Kind: "run", Args: append([]string{}, args...), Uid: u})
		}
	}
	add()
	// EXHAUSTIVE small scope: every registered name (and a few non-names) in first place, followed by every sequence of
	// length <= 2 over a small token alphabet covering help flags, the terminator, a value-taking option, a bool option,
	// a free argument and a second command name
	alpha := []string{"-h", "--help", "--", "-t", "--type", "foo=bar", "x", "get", "set"}
	if tier == "thorough" {
		alpha = append(alpha, "-o", "--code", "--pid", "-th", "--type=-h", "-", "insert", "okay", "--bogus")
	}
	firsts := append(append([]string{}, names...), "bogus", "-h", "--help", "--", "-t", "--view", "", "GET", "get ", "-")
	for _, f := range firsts {
		add(f)
		for _, a := range alpha {
			add(f, a)
			for _, b := range alpha {
				add(f, a, b)
			}
		}
	}
	// per command: well-formed invocations that really execute for root, and the same with help flags spliced in
	good := map[string][][]string{
		"get": {{"get", "foo"}, {"get", "-t", "foo"}, {"get", ":plug", "k"}}, "set": {{"set", "foo=bar"}, {"set", "-s", "a=b"}},
		"unset": {{"unset", "foo"}}, "services": {{"services"}, {"services", "svc"}}, "set-health": {{"set-health", "okay"}, {"set-health", "--code", "abc", "waiting", "some message"}},
		"is-connected": {{"is-connected", "plug"}, {"is-connected", "--pid", "5", "plug"}, {"is-connected", "--list"}}, "system-mode": {{"system-mode"}},
		"model": {{"model"}, {"model", "--json"}}, "mount": {{"mount", "/what", "/where"}, {"mount", "-o", "ro", "-t", "ext4", "/what", "/where"}},
		"umount": {{"umount", "/where"}}, "kmod": {{"kmod", "insert", "mod"}, {"kmod", "remove", "mod"}, {"kmod", "insert", "mod", "a=b"}},
		"reboot": {{"reboot", "--halt"}}, "refresh": {{"refresh", "--pending"}, {"refresh", "--proceed"}}, "restart": {{"restart", "svc"}, {"restart", "--reload", "svc"}},
		"start": {{"start", "--enable", "svc"}}, "stop": {{"stop", "--disable", "svc"}}, "install": {{"install", "+comp"}}, "remove": {{"remove", "+comp"}},
		"fde-setup-request": {{"fde-setup-request"}}, "fde-setup-result": {{"fde-setup-result"}},
	}
	for _, name := range names {
		for _, g := range good[name] {
			add(g...)
			for pos := 0; pos <= len(g); pos++ {
				for _, ins1 := range []string{"-h", "--help", "--", "-o", "--code", "--type"} {
					v := append(append(append([]string{}, g[:pos]...), ins1), g[pos:]...)
					add(v...)
				}
			}
		}
	}
	// random vectors
	if n == 0 {
		n = 1500
	}
	for i := 0; i < n; i++ {
		k := r.Range(1, 6)
		var args []string
		for j := 0; j < k; j++ {
			args = append(args, c25Tok(r, names))
		}
		if r.Chance(2, 3) {
			args[0] = names[r.Intn(len(names))]
		}
		ins = append(ins, c25In{Kind: "run", Args: args, Uid: []uint32{0, 1, 1000, 4294967295}[r.Intn(4)]})
	}
	return ins
}

// ---------------------------------------------------------------------------------------------- execution

func c25CoqStrs(l []string) string {
	var items []string
	for _, s := range l {
		items = append(items, vh.CoqBytes(s))
	}
	return vh.CoqList(items)
}

func c25Exec(in c25In) vh.Out {
	c25Install()
	if in.Kind == "names" {
		names := c25Names()
		return vh.Out{Observed: c25Obs{Out: strings.Join(nonRootAllowed, ",") + " | " + strings.Join(names, ",")},
			Coq: "(CNames " + c25CoqStrs(nonRootAllowed) + " " + c25CoqStrs(names) + ")", Tags: []string{"names"}}
	}
	c25Executed = nil
	_, _, err := Run(nil, in.Args, in.Uid)
	obs := c25Obs{}
	if err != nil {
		obs.Err = fmt.Sprintf("%T", err)
	}
	var ferr *flags.Error
	var forb *ForbiddenCommandError
	var miss *MissingContextError
	coq := ""
	switch {
	case len(c25Executed) > 1:
		panic("more than one command executed")
	case len(c25Executed) == 1:
		obs.Out, obs.Cmd = "exec", c25Executed[0]
		coq = "(OExec " + vh.CoqBytes(c25Executed[0]) + ")"
	case err == nil:
		// nothing recorded and no error: only kmodCommand.Execute could do that, and go-flags never calls it
		obs.Out, obs.Cmd = "exec", "?"
		coq = "(OExec " + vh.CoqBytes("?") + ")"
	case errors.As(err, &forb):
		obs.Out = "forbidden"
		coq = "OForbidden"
	case errors.As(err, &ferr):
		obs.Out = "noexec"
		coq = "ONoExec"
	case errors.As(err, &miss):
		// a real Execute ran (kmod insert / kmod remove) and stopped at the missing context
		obs.Out, obs.Cmd = "exec", miss.subcommand
		coq = "(OExec " + vh.CoqBytes(miss.subcommand) + ")"
	case len(in.Args) == 0:
		obs.Out = "internal"
		coq = "OInternal"
	default:
		obs.Out, obs.Cmd = "exec", "?"
		coq = "(OExec " + vh.CoqBytes("?") + ")"
	}
	root := "nonroot"
	if in.Uid == 0 {
		root = "root"
	}
	tags := []string{obs.Out, root, root + "-" + obs.Out}
	return vh.Out{Observed: obs, Coq: "(CRun " + c25CoqStrs(in.Args) + " " + vh.CoqN(uint64(in.Uid)) + " " + coq + ")",
		NonTrivial: obs.Out == "exec" || (in.Uid != 0 && len(in.Args) > 1), Tags: tags}
}

func TestVerifC25(t *testing.T) { vh.Run(c25Gen, c25Exec) }
