"""Shared machinery for /verif/check.  See DESIGN.md section 1.4/1.5 and FRAMEWORK.md.

Everything here is deliberately dumb plumbing: regenerate gen/*.v from /repo, build the .vo closure of
props/Cnn.v, run Go drivers built from /repo's working tree through a `go -overlay`, evaluate the Coq model
on the observed cases with vm_compute, write evidence, print VIOLATION / KNOWN-FINDING lines.
"""
import fcntl, glob, hashlib, json, os, re, shutil, subprocess, sys, tempfile, time
from concurrent.futures import ThreadPoolExecutor

ROOT = os.path.dirname(os.path.dirname(os.path.abspath(__file__)))
REPO = os.environ.get("VERIF_REPO", "/repo")
COQ = os.path.join(ROOT, "coq")
OVERLAY_SRC = os.path.join(ROOT, "harness", "overlay")
SCRATCH_BASE = os.environ.get("VERIF_SCRATCH", "/var/tmp")

GOENV = dict(os.environ, GOFLAGS="-mod=mod", GOPROXY="off", GOSUMDB="off", GOTOOLCHAIN="local",
             CGO_ENABLED=os.environ.get("CGO_ENABLED", "1"))

FORBIDDEN = re.compile(
    r"\b(Admitted|admit|Axiom|Axioms|Parameter|Parameters|Conjecture|Conjectures|Admit Obligations|"
    r"Unset Guard Checking|Unset Positivity Checking|Unset Universe Checking|bypass_check|"
    r"type-in-type|impredicative-set|give_up)\b")

# axioms declared by Coq's own standard library that may legitimately show up in Print Assumptions
STDLIB_AXIOMS = {
    "functional_extensionality_dep", "FunctionalExtensionality.functional_extensionality_dep",
    "proof_irrelevance", "ProofIrrelevance.proof_irrelevance", "classic", "Classical_Prop.classic",
    "Eqdep.Eq_rect_eq.eq_rect_eq", "eq_rect_eq", "JMeq_eq", "JMeq.JMeq_eq",
    "propositional_extensionality", "constructive_definite_description",
}


def sh(cmd, cwd=None, env=None, timeout=1200, inp=None):
    """run a command (list), return (rc, stdout+stderr). Never raises on timeout: rc=124."""
    try:
        p = subprocess.run(cmd, cwd=cwd, env=env, input=inp, stdout=subprocess.PIPE, stderr=subprocess.STDOUT,
                           timeout=timeout, text=True, errors="replace")
        return p.returncode, p.stdout
    except subprocess.TimeoutExpired as e:
        out = e.stdout.decode("utf-8", "replace") if isinstance(e.stdout, bytes) else (e.stdout or "")
        return 124, out + "\n[timeout after %ss]" % timeout


def write_if_changed(path, text):
    try:
        if open(path).read() == text:
            return False
    except OSError:
        pass
    os.makedirs(os.path.dirname(path), exist_ok=True)
    tmp = path + ".tmp%d" % os.getpid()
    open(tmp, "w").write(text)
    os.replace(tmp, path)
    return True


class Lock:
    def __init__(self, path):
        self.path = path

    def __enter__(self):
        self.f = open(self.path, "w")
        fcntl.flock(self.f, fcntl.LOCK_EX)

    def __exit__(self, *a):
        fcntl.flock(self.f, fcntl.LOCK_UN)
        self.f.close()


# ------------------------------------------------------------------------------------------------ hygiene

REQ_RE = re.compile(r"\bV\.(lib|models|proofs|props|gen)\.([A-Za-z0-9_']+)")


def coq_closure(roots):
    """the .v files (absolute paths) transitively required by the given files (paths relative to coq/), by
    scanning for V.<dir>.<File> module names. Used so that a check only looks at the part of the development it
    depends on (other properties' files may be under construction)."""
    seen, todo = [], [os.path.join(COQ, r) for r in roots]
    while todo:
        f = todo.pop()
        if f in seen or not os.path.exists(f):
            continue
        seen.append(f)
        for d, m in REQ_RE.findall(open(f, errors="replace").read()):
            todo.append(os.path.join(COQ, d, m + ".v"))
    return sorted(seen)


def hygiene(roots=None):
    """grep the Coq development (all of it, or the closure of the given root files) for anything that declares
    an axiom or switches off a kernel check."""
    bad = []
    files = coq_closure(roots) if roots else sorted(glob.glob(os.path.join(COQ, "**", "*.v"), recursive=True))
    for f in files:
        txt = open(f, errors="replace").read()
        # strip comments (nested) before grepping so prose may mention the words
        out, depth, i = [], 0, 0
        while i < len(txt):
            if txt.startswith("(*", i):
                depth += 1; i += 2; continue
            if txt.startswith("*)", i) and depth:
                depth -= 1; i += 2; continue
            if not depth:
                out.append(txt[i])
            elif txt[i] == "\n":
                out.append("\n")
            i += 1
        for n, line in enumerate("".join(out).split("\n"), 1):
            if FORBIDDEN.search(line):
                bad.append("%s:%d: %s" % (os.path.relpath(f, ROOT), n, line.strip()))
    return bad


# ------------------------------------------------------------------------------------------------ Coq build

def coq_project():
    files = []
    for d in ("lib", "models", "proofs", "props", "gen"):
        files += sorted(os.path.relpath(p, COQ) for p in glob.glob(os.path.join(COQ, d, "*.v")))
    text = "-Q . V\n-arg -w -arg -notation-overridden,-deprecated-hint-without-locality,-deprecated-instance-without-locality\n" + "\n".join(files) + "\n"
    changed = write_if_changed(os.path.join(COQ, "_CoqProject"), text)
    if changed or not os.path.exists(os.path.join(COQ, "Makefile")):
        rc, out = sh(["coq_makefile", "-f", "_CoqProject", "-o", "Makefile"], cwd=COQ)
        if rc:
            raise RuntimeError("coq_makefile failed: " + out)


def coq_make(targets, timeout=3000):
    """full .vo build of the given targets (paths relative to coq/). Returns (ok, log)."""
    with Lock(os.path.join(COQ, ".build.lock")):
        coq_project()
        rc, out = sh(["make", "-j16", "-k"] + list(targets), cwd=COQ, timeout=timeout)
    return rc == 0, out


THEOREM_RE = re.compile(r"^\s*(?:Theorem|Lemma|Corollary)\s+([A-Za-z0-9_']+)", re.M)


def coq_props(prop):
    """compile props/<prop>.v afresh (it only contains `exact` proofs) and collect Print Assumptions."""
    src = os.path.join(COQ, "props", prop + ".v")
    text = open(src).read()
    names = THEOREM_RE.findall(text)
    with Lock(os.path.join(COQ, ".build.lock")):
        rc, out = sh(["coqc", "-Q", ".", "V", "-w", "-notation-overridden", "props/%s.v" % prop], cwd=COQ, timeout=1800)
    assumptions = {}
    # output is a sequence of "Closed under the global context" / "Axioms:\n name : type ..." blocks in order
    blocks = re.split(r"(?m)^(?=Closed under the global context|Axioms:)", out)
    blocks = [b for b in blocks if b.startswith("Closed under") or b.startswith("Axioms:")]
    printed = re.findall(r"Print Assumptions\s+([A-Za-z0-9_'.]+)\s*\.", text)
    for name, b in zip(printed, blocks):
        if b.startswith("Closed under"):
            assumptions[name] = []
        else:
            assumptions[name] = re.findall(r"(?m)^([A-Za-z0-9_'.]+)\s*:", b[len("Axioms:"):])
    return rc == 0, names, assumptions, out


# ------------------------------------------------------------------------------------------------ translators

def run_gen(name, cmd, cwd=None):
    """run a translator command that prints a .v file on stdout; install it as coq/gen/<name>.v"""
    rc, out = sh(cmd, cwd=cwd or ROOT, env=GOENV, timeout=600)
    if rc != 0:
        return False, out
    write_if_changed(os.path.join(COQ, "gen", name + ".v"), out)
    return True, ""


# ------------------------------------------------------------------------------------------------ Go drivers

def overlay_json(scratch, tags=None):
    """map harness/overlay/** into the build. Only zzverif/vh and the files whose path mentions one of `tags`
    (default: all files) are included, so that another property's driver under construction cannot break this build."""
    rep = {}
    for dp, dn, fn in os.walk(OVERLAY_SRC):
        for f in fn:
            src = os.path.join(dp, f)
            rel = os.path.relpath(src, OVERLAY_SRC)
            if tags is not None and not rel.startswith("zzverif/vh/"):
                parts = re.split(r"[^a-z0-9]+", rel.lower())
                if not any(t in parts for t in tags):
                    continue
            rep[os.path.join(REPO, rel)] = src
    p = os.path.join(scratch, "overlay.json")
    json.dump({"Replace": rep}, open(p, "w"))
    return p


def go_build_driver(scratch, drv):
    """drv: {kind: 'test'|'main', pkg: './strutil'}; returns (binary path | None, log)"""
    ov = overlay_json(scratch, drv.get("_tags"))
    out_bin = os.path.join(scratch, re.sub(r"[^A-Za-z0-9]", "_", drv["pkg"]) + (".test" if drv["kind"] == "test" else ".bin"))
    if drv["kind"] == "test":
        cmd = ["go", "test", "-c", "-vet=off", "-tags", "verif", "-overlay", ov, "-o", out_bin, drv["pkg"]]
    else:
        cmd = ["go", "build", "-tags", "verif", "-overlay", ov, "-o", out_bin, drv["pkg"]]
    env = dict(GOENV)
    env.update(drv.get("build_env", {}))
    rc, out = sh(cmd, cwd=REPO, env=env, timeout=1500)
    if rc != 0 or not os.path.exists(out_bin):
        return None, out
    return out_bin, out


def go_run_driver(binary, drv, scratch, seed, tier, n=None, replay_inputs=None, timeout=1500, extra_env=None):
    """run the driver; returns (cases, log). cases are dicts with id/input/observed/coq/nontrivial/tags."""
    outp = os.path.join(scratch, "cases-%s-%d.jsonl" % (drv.get("name", "drv"), seed))
    env = dict(GOENV, VERIF_SEED=str(seed), VERIF_TIER=tier, VERIF_OUT=outp, VERIF_REPO=REPO, VERIF_ROOT=ROOT,
               VERIF_SCRATCH_DIR=scratch)
    if n is not None:
        env["VERIF_N"] = str(n)
    if replay_inputs is not None:
        rp = os.path.join(scratch, "replay-inputs.json")
        json.dump(replay_inputs, open(rp, "w"))
        env["VERIF_REPLAY"] = rp
    env.update(extra_env or {})
    env.update(drv.get("env", {}))
    if drv["kind"] == "test":
        cmd = [binary, "-test.run", "^%s$" % drv["run"], "-test.v", "-test.timeout", "%ds" % timeout]
        if drv.get("gocheck"):
            cmd = [binary, "-test.run", "^%s$" % drv["run"], "-check.f", drv["gocheck"], "-test.v", "-check.v",
                   "-test.timeout", "%ds" % timeout]
    else:
        cmd = [binary] + drv.get("args", [])
    if drv.get("wrap"):
        cmd = drv["wrap"] + cmd
    cwd = drv.get("cwd") or os.path.join(REPO, drv["pkg"].lstrip("./")) if drv["kind"] == "test" else scratch
    if not os.path.isdir(cwd):
        cwd = scratch
    rc, out = sh(cmd, cwd=cwd, env=env, timeout=timeout + 30)
    cases = []
    if os.path.exists(outp):
        for line in open(outp):
            line = line.strip()
            if line:
                cases.append(json.loads(line))
    if rc != 0:
        return None, "driver exit %d\n%s" % (rc, out[-6000:])
    return cases, out


# ------------------------------------------------------------------------------------------------ Coq evaluation

def ids_of(printed):
    return [int(x) for x in re.findall(r"\d+", printed)]


def coq_eval(scratch, ev, cases, tag="e", shard=800):
    """ev: {requires: [...], case_type: 'Version.case', mismatch: 'Version.mismatch', monitor: 'Version.monitor_fail',
            prelude: optional extra vernacular}
    Each case has a 'coq' term of type case_type. Returns (ok, M ids, V ids, log, coq_seconds)."""
    shards = [cases[i:i + shard] for i in range(0, len(cases), shard)] or [[]]
    t0 = time.time()

    def one(k_sh):
        k, sh_cases = k_sh
        name = "cases_%s_%d" % (tag, k)
        lines = ["From Coq Require Import List NArith ZArith String Bool.", "Import ListNotations.",
                 "Open Scope N_scope."]
        for r in ev["requires"]:
            lines.append("Require Import %s." % r)
        if ev.get("prelude"):
            lines.append(ev["prelude"])
        # cons chains elaborate much faster than the [a; b; ...] notation on long lists
        lines.append("Definition cases : list (N * (%s)) :=" % ev["case_type"])
        lines.append("\n".join("  (%d%%N, %s) ::" % (c["id"], c["coq"]) for c in sh_cases))
        lines.append("  nil.")
        lines.append("Definition M := Eval vm_compute in map fst (filter (fun c => %s (snd c)) cases)." % ev["mismatch"])
        lines.append("Definition V := Eval vm_compute in map fst (filter (fun c => %s (snd c)) cases)." % ev["monitor"])
        lines.append('Set Printing Width 1000000. Set Printing Depth 1000000.')
        lines.append("Print M.\nPrint V.")
        p = os.path.join(scratch, name + ".v")
        open(p, "w").write("\n".join(lines) + "\n")
        rc, out = sh(["coqc", "-Q", COQ, "V", "-w", "-notation-overridden,-abstract-large-number", name + ".v"], cwd=scratch, timeout=3000)
        if rc != 0:
            return False, [], [], out[-4000:]
        m = re.search(r"M\s*=\s*(.*?)\s*:\s*list N", out, re.S)
        v = re.search(r"V\s*=\s*(.*?)\s*:\s*list N", out, re.S)
        if not m or not v:
            return False, [], [], "could not parse coqc output:\n" + out[-3000:]
        return True, ids_of(m.group(1)), ids_of(v.group(1)), ""

    ok, M, V, log = True, [], [], ""
    with ThreadPoolExecutor(max_workers=12) as ex:
        for r in ex.map(one, enumerate(shards)):
            ok = ok and r[0]; M += r[1]; V += r[2]; log += r[3]
    return ok, M, V, log, time.time() - t0


# ------------------------------------------------------------------------------------------------ findings

def known_findings(prop):
    known = {}
    p = os.path.join(ROOT, "KNOWN_FINDINGS")
    if os.path.exists(p):
        for line in open(p):
            m = re.match(r"known:\s+property=(\S+)\s+key=(\S+)\s+(.*)", line.strip())
            if m and m.group(1) == prop:
                known[m.group(2)] = m.group(3)
    return known


def case_key(c):
    return hashlib.sha1(json.dumps(c.get("input"), sort_keys=True).encode()).hexdigest()[:16]
