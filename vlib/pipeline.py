"""The standard check pipeline (DESIGN.md 1.4 / 1.5). A property plug-in in checks/cNN.py provides SPEC."""
import json, os, shutil, sys, tempfile, time, collections
from . import core


def _p(*a):
    print(*a, flush=True)


class Result:
    def __init__(self):
        self.obligations = []      # [{name, kind, ok, detail}]
        self.broken = []           # names of obligations that did not check
        self.evals = 0
        self.cases = {}            # driver name -> cases
        self.M = {}                # driver -> mismatching cases
        self.V = {}                # driver -> monitor-failing cases
        self.W = {}                # driver -> model-monitor failing cases
        self.logs = []
        self.assumptions = {}
        self.coq_s = 0.0
        self.cmds = []

    def ob(self, name, kind, ok, detail=""):
        self.obligations.append(dict(name=name, kind=kind, ok=bool(ok), detail=detail[-1500:] if detail else ""))
        if not ok:
            self.broken.append(name)


def run_drivers(spec, res, scratch, tier, seed, only=None, replay_inputs=None, nmul=1, tag="e", corpus=True):
    for drv in spec.get("drivers", []):
        if only and drv["name"] != only:
            continue
        drv["_tags"] = [t.lower() for t in spec.get("overlay_tags", [spec["prop"]])]
        bins = spec.setdefault("_bins", {})
        binary = bins.get((drv["kind"], drv["pkg"]))
        if binary is None:
            t = time.time()
            binary, log = core.go_build_driver(scratch, drv)
            res.cmds.append("go %s -tags verif -overlay <harness/overlay> %s  (%.0fs)" % (
                "test -c" if drv["kind"] == "test" else "build", drv["pkg"], time.time() - t))
            if binary is None:
                res.ob("driver:%s builds against /repo" % drv["name"], "driver", False, log)
                res.logs.append(log)
                continue
            bins[(drv["kind"], drv["pkg"])] = binary
        allcases = []
        runs = []
        if replay_inputs is not None:
            runs.append(("replay", replay_inputs, 0))
        else:
            cp = os.path.join(core.ROOT, "corpus", spec["prop"], drv["name"] + ".json")
            if corpus and os.path.exists(cp):
                runs.append(("corpus", json.load(open(cp)), 1000000))
            runs.append(("gen", None, 0))
        failed = False
        for kind, inputs, off in runs:
            n = drv.get("n", {}).get(tier)
            if n is not None:
                n = int(n * nmul)
            if os.environ.get("VERIF_N"):
                n = int(os.environ["VERIF_N"])
            cases, log = core.go_run_driver(binary, drv, scratch, seed, tier, n=n, replay_inputs=inputs,
                                            timeout=drv.get("timeout", {}).get(tier, 900))
            if cases is None:
                res.ob("driver:%s runs (%s)" % (drv["name"], kind), "driver", False, log)
                res.logs.append(log)
                failed = True
                break
            for c in cases:
                c["id"] = c["id"] + off
                c["_src"] = kind
            allcases += cases
        if failed:
            continue
        ok, M, V, log, secs = core.coq_eval(scratch, drv["ev"], allcases, tag=tag + "_" + drv["name"])
        res.coq_s += secs
        res.cmds.append("coqc -Q coq V cases_%s_%s_*.v   (%d cases, %.1fs)" % (tag, drv["name"], len(allcases), secs))
        byid = {c["id"]: c for c in allcases}
        res.cases.setdefault(drv["name"], []).extend(allcases)
        res.evals += len(allcases)
        if not ok:
            res.ob("correspondence:%s evaluates in Coq" % drv["name"], "correspondence", False, log)
            res.logs.append(log)
            continue
        res.M.setdefault(drv["name"], []).extend(byid[i] for i in M if i in byid)
        res.V.setdefault(drv["name"], []).extend(byid[i] for i in V if i in byid)


def standard_check(spec, tier, seed, replay=None):
    t0 = time.time()
    prop = spec["prop"]
    res = Result()
    scratch = tempfile.mkdtemp(prefix="verif-%s-" % prop, dir=core.SCRATCH_BASE)
    rc = 1
    if os.path.realpath(core.REPO) != "/repo":
        # a run against a scratch (mutated) copy of the repository works on a private copy of the Coq development, so
        # that the gen/*.v it regenerates from that copy (and any proof it breaks) never leak into the real tree
        private = os.path.join(scratch, "coq")
        with core.Lock(os.path.join(core.COQ, ".build.lock")):
            core.sh(["rsync", "-a", "--exclude", ".build.lock", core.COQ + "/", private + "/"])
        core.COQ = private
    try:
        rc = _check(spec, tier, seed, replay, res, scratch, t0)
    finally:
        if not os.environ.get("VERIF_KEEP"):
            shutil.rmtree(scratch, ignore_errors=True)
        else:
            _p("scratch kept:", scratch)
    return rc


def _check(spec, tier, seed, replay, res, scratch, t0):
    prop = spec["prop"]
    replay_obj = None
    if replay:
        replay_obj = json.load(open(replay))

    # 1. hygiene
    roots = [t[:-1] if t.endswith(".vo") else t for t in
             spec.get("coq_targets", ["props/%s.vo" % prop]) + spec.get("model_targets", [])]
    closure = core.coq_closure(roots)
    bad = core.hygiene(roots)
    res.ob("hygiene: no Admitted/admit/Axiom/Parameter/guard switches in the %d Coq files this property depends on"
           % len(closure), "hygiene", not bad, "\n".join(bad))
    res.closure = [os.path.relpath(f, core.COQ) for f in closure]

    # 2. translators
    for g in spec.get("gens", []):
        ok, log = core.run_gen(g["name"], g["cmd"])
        res.cmds.append(" ".join(g["cmd"]) + " > coq/gen/%s.v" % g["name"])
        res.ob("gen/%s.v regenerates from /repo (%s)" % (g["name"], g.get("what", "")), "gen", ok, log)

    # 3. proofs
    targets = spec.get("coq_targets", ["props/%s.vo" % prop]) + spec.get("model_targets", [])
    t = time.time()
    ok, log = core.coq_make(targets)
    res.cmds.append("make -C coq -j16 %s  (%.0fs)" % (" ".join(targets), time.time() - t))
    if not ok:
        res.logs.append(log[-8000:])
        # which file broke?
        import re
        m = re.findall(r'File "\./([^"]+)", line (\d+)', log)
        res.ob("coq build of %s" % " ".join(targets), "proof", False,
               "first error in %s\n%s" % (m[0] if m else "?", log[-3000:]))
    pok, names, assumptions, plog = core.coq_props(prop)
    res.assumptions = assumptions
    for n in names:
        ax = assumptions.get(n)
        if not pok:
            res.ob("theorem %s" % n, "proof", False, plog[-1500:])
        elif ax is None:
            res.ob("theorem %s" % n, "proof", False, "no Print Assumptions output for it")
        else:
            unexpected = [a for a in ax if a.split(".")[-1] not in {x.split(".")[-1] for x in core.STDLIB_AXIOMS}]
            res.ob("theorem %s" % n, "proof", not unexpected,
                   "unexpected axioms: %s" % unexpected if unexpected else "")
    if not names:
        res.ob("props/%s.v states at least one theorem" % prop, "proof", False, "")

    # 3a. thorough tier: independent re-check of the compiled closure with coqchk (prints the axioms it relies on)
    if tier == "thorough" and not replay_obj and not os.environ.get("VERIF_NO_COQCHK"):
        t = time.time()
        with core.Lock(os.path.join(core.COQ, ".build.lock")):
            crc, cout = core.sh(["coqchk", "-silent", "-o", "-Q", ".", "V", "V.props.%s" % prop], cwd=core.COQ, timeout=3000)
        res.cmds.append("coqchk -silent -o -Q coq V V.props.%s  (%.0fs)" % (prop, time.time() - t))
        import re as _re
        m = _re.search(r"Axioms:\s*(.*?)(?:\n\s*\n|\Z)", cout, _re.S)
        axioms = (m.group(1).strip() if m else "?")
        bad_modes = [l for l in cout.splitlines() if ("type-in-type" in l or "unsafe" in l or "assumed" in l) and "<none>" not in l]
        res.coqchk = dict(rc=crc, axioms=axioms, tail=cout[-1200:])
        res.ob("coqchk re-checks props/%s.vo and its dependencies" % prop, "proof", crc == 0 and not bad_modes, cout[-1500:])

    # 3b. property specific extra obligations (finite sweeps, C drivers, strace...)
    if spec.get("extra"):
        spec["extra"](spec, res, scratch, tier, seed)

    # 4. correspondence + monitor on the implementation's observed behaviour
    if replay_obj and replay_obj.get("inputs") is not None:
        run_drivers(spec, res, scratch, tier, replay_obj.get("seed", seed), only=replay_obj.get("driver"),
                    replay_inputs=replay_obj["inputs"])
    else:
        run_drivers(spec, res, scratch, tier, seed)
    for drv in spec.get("drivers", []):
        if drv["name"] in res.M:
            res.ob("correspondence:%s model = implementation on every case" % drv["name"], "correspondence",
                   not res.M[drv["name"]], "%d mismatching cases" % len(res.M[drv["name"]]))

    classify = spec.get("classify", lambda c: None)
    known = core.known_findings(prop)

    def split_failing():
        met, unknown = collections.OrderedDict(), []
        for d, cs in res.V.items():
            for c in cs:
                k = classify(c)
                if k and k in known:
                    met.setdefault(k, c)
                else:
                    unknown.append((d, c))
        return met, unknown

    met, unknown = split_failing()

    # 5. search for a failing input when something no longer checks
    if res.broken and not unknown and not replay_obj and spec.get("drivers"):
        _p("[%s] %d obligation(s) no longer check; searching for a concrete failing input ..." % (prop, len(res.broken)))
        for k in range(1, 1 + int(os.environ.get("VERIF_WIDEN", "3"))):
            run_drivers(spec, res, scratch, tier, seed + 7919 * k, nmul=3, tag="w%d" % k, corpus=False)
            met, unknown = split_failing()
            if unknown:
                break

    # 6. verdict
    wall = time.time() - t0
    violations = 0
    lines = []
    os.makedirs(os.path.join(core.ROOT, "replays"), exist_ok=True)
    if unknown:
        violations = len(unknown)
        d, c = unknown[0]
        rp = os.path.join("replays", "%s-%d-failing.json" % (prop, seed))
        json.dump(dict(property=prop, kind="failing-input", broken=res.broken, seed=seed, tier=tier, driver=d,
                       inputs=[x["input"] for dd, x in unknown[:20] if dd == d],
                       cases=[{k: v for k, v in x.items() if not k.startswith("_")} for dd, x in unknown[:20] if dd == d],
                       monitor_verdict="property monitor is false on the implementation's observed behaviour",
                       how_to_replay="./check %s --replay %s" % (prop, rp)),
                  open(os.path.join(core.ROOT, rp), "w"), indent=1)
        lines.append("VIOLATION property=%s replay=%s" % (prop, rp))
    elif res.broken:
        violations = 1
        rp = os.path.join("replays", "%s-%d-broken.json" % (prop, seed))
        mm = [(d, c) for d, cs in res.M.items() for c in cs]
        json.dump(dict(property=prop, kind="no-failing-input-found", broken=res.broken, seed=seed, tier=tier,
                       obligations=[o for o in res.obligations if not o["ok"]],
                       driver=mm[0][0] if mm else None,
                       inputs=[c["input"] for d, c in mm[:20] if d == mm[0][0]] if mm else None,
                       mismatching_cases=[{k: v for k, v in c.items() if not k.startswith("_")} for d, c in mm[:10]],
                       how_to_replay="./check %s --replay %s" % (prop, rp)),
                  open(os.path.join(core.ROOT, rp), "w"), indent=1)
        lines.append("VIOLATION property=%s replay=%s no-failing-input-found" % (prop, rp))
    for k, c in met.items():
        _p("KNOWN-FINDING: property=%s %s [key=%s witness=%s]" % (prop, known[k], k, json.dumps(c["input"])[:200]))

    # 7. evidence (not rewritten in replay mode)
    if not replay_obj:
        write_evidence(spec, res, tier, seed, wall, violations, met)
    for o in res.obligations:
        if not o["ok"]:
            _p("[%s] BROKEN: %s\n    %s" % (prop, o["name"], o["detail"].replace("\n", "\n    ")[:3000]))
    _p("[%s] tier=%s seed=%d obligations=%d discharged=%d cases=%d mismatches=%d monitor_failures=%d known=%d wall=%.0fs" % (
        prop, tier, seed, len(res.obligations), sum(o["ok"] for o in res.obligations), res.evals,
        sum(len(v) for v in res.M.values()), sum(len(v) for v in res.V.values()), len(met), wall))
    for l in lines:
        _p(l)
    if replay_obj and not lines:
        _p("[%s] replay %s no longer reproduces a violation" % (prop, replay))
    return 1 if lines else 0


def write_evidence(spec, res, tier, seed, wall, violations, met):
    prop = spec["prop"]
    allcases = [c for cs in res.cases.values() for c in cs]
    seen, nontriv = set(), 0
    dist = collections.Counter()
    for c in allcases:
        for tg in c.get("tags") or []:
            dist[tg] += 1
        k = core.case_key(c)
        if k in seen:
            continue
        seen.add(k)
        if c.get("nontrivial"):
            nontriv += 1
    samples = []
    for d, cs in res.cases.items():
        nt = [c for c in cs if c.get("nontrivial")] or cs
        for c in nt[:2]:
            samples.append(dict(driver=d, input=c["input"], observed=c["observed"]))
    for o in res.obligations[:3]:
        samples.append(dict(obligation=o["name"], ok=o["ok"]))
    tb = list(spec.get("trusted_base", []))
    tb.append("Coq 8.16.1 kernel + vm_compute; no native_compute; no extraction")
    for n, ax in sorted(res.assumptions.items()):
        tb.append("Print Assumptions %s: %s" % (n, "Closed under the global context" if not ax else ", ".join(ax)))
    cov = dict(
        obligations=len(res.obligations), discharged=sum(o["ok"] for o in res.obligations),
        checker_cmd=" && ".join(res.cmds) or "make -C coq",
        trusted_base=tb,
        evaluations=res.evals, distinct_nontrivial=nontriv,
        rule=spec.get("rule", ""), samples=samples,
        exhaustive=bool(spec.get("exhaustive", {}).get(tier, False)),
        distribution=dict(dist.most_common(40)),
        distinct_cases=len(seen),
        theorems=[dict(name=n, assumptions=a) for n, a in sorted(res.assumptions.items())],
        obligation_list=[dict(name=o["name"], kind=o["kind"], ok=o["ok"]) for o in res.obligations],
        known_findings_met=list(met.keys()),
        coq_eval_seconds=round(res.coq_s, 1),
        coq_files=getattr(res, "closure", []),
    )
    if getattr(res, "coqchk", None):
        cov["coqchk"] = res.coqchk
    ev = dict(property_id=prop, tier=tier, seed=seed, level="proof", coverage=cov,
              assumptions=spec.get("assumptions", []), wall_s=round(wall, 1), violations=violations)
    os.makedirs(os.path.join(core.ROOT, "evidence"), exist_ok=True)
    p = os.path.join(core.ROOT, "evidence", prop + ".json")
    if os.path.realpath(core.REPO) != "/repo":
        # a development run against a scratch (mutated) copy of the repository never overwrites the real record
        p = os.path.join(core.ROOT, "evidence", prop + ".scratch-repo.json")
    json.dump(ev, open(p + ".tmp", "w"), indent=1)
    os.replace(p + ".tmp", p)
