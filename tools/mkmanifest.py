#!/usr/bin/env python3
"""Regenerate MANIFEST.json (and MANIFEST.hooks) from checks/cNN.py. Properties without a plug-in go to not_applicable
with the reason given in tools/not_claimed.json (or 'not built yet')."""
import glob, importlib, json, os, sys
ROOT = os.path.dirname(os.path.dirname(os.path.abspath(__file__)))
sys.path.insert(0, ROOT); os.chdir(ROOT)
props = [json.loads(l) for l in open("properties.jsonl")]
reasons = json.load(open("tools/not_claimed.json")) if os.path.exists("tools/not_claimed.json") else {}
checks, na = [], []
for p in props:
    pid = p["id"]
    f = "checks/%s.py" % pid.lower()
    if not os.path.exists(f):
        na.append(dict(property_id=pid, reason=reasons.get(pid, "no check built yet for this property (work in progress; the design in DESIGN.md section 2 applies)")))
        continue
    spec = importlib.import_module("checks." + pid.lower()).SPEC
    if spec.get("disabled"):
        na.append(dict(property_id=pid, reason="check under construction in this build (%s); the design in DESIGN.md section 2 applies" % spec["disabled"]))
        continue
    if not os.path.exists("notes/%s.md" % pid) and pid not in ("C33", "C35"):
        na.append(dict(property_id=pid, reason="check under construction in this build (no as-built notes yet); the design in DESIGN.md section 2 applies"))
        continue
    checks.append(dict(
        property_id=pid,
        quick_cmd="./check %s --tier quick" % pid,
        thorough_cmd="./check %s --tier thorough" % pid,
        evidence_file="evidence/%s.json" % pid,
        replay_cmd_template="./check %s --replay {path}" % pid,
        engine="coq+harness",
        level_claimed=dict(category="proof", text=spec.get("level_text", "Coq theorems over an executable model of the code (props/%s.v), the model tied to /repo on every run by regenerated tables and a differential correspondence run evaluated inside Coq with vm_compute." % pid), design_ref="DESIGN.md section 2, %s" % pid),
        level_note=spec.get("level_note", "Trusted: Coq kernel+VM, the translators, the hand-written model (validated by the correspondence only on the generated cases). " + " ".join(spec.get("assumptions", []))),
        technique=spec.get("technique", "machine-checked proof in Coq over an executable model; model tied to the code by translator-generated tables and differential correspondence (vm_compute)"),
    ))
man = dict(
    version=1,
    setup_cmd="./setup.sh",
    hooks=dict(guard="verif", enable="go test -c / go build with -tags verif and -overlay (drivers under /verif/harness/overlay are added to the build without touching /repo)",
               baseline_off_cmd=json.load(open("/root/.vp/BASELINE.json"))["cmd"] if os.path.exists("/root/.vp/BASELINE.json") else "go test ./...",
               source_commits=[], add_only=True),
    engines=[dict(name="coq+harness", path="check", serves_properties=[c["property_id"] for c in checks],
                  kind_free_text="Coq 8.16.1 development under coq/ (models, proofs, props), Go translators under translators/, Go drivers under harness/overlay built against /repo with go -overlay, orchestrated by vlib/")],
    checks=checks,
    notes="See DESIGN.md. No hook commits exist in /repo: drivers are overlaid at build time. fix: commits in /repo are listed in KNOWN_FINDINGS.",
    not_applicable=na,
)
json.dump(man, open("MANIFEST.json", "w"), indent=1)
import subprocess
nontest = sorted(subprocess.run("find harness/overlay -type f ! -name '*_test.go' | grep -v '^harness/overlay/zzverif/'", shell=True, capture_output=True, text=True).stdout.split())
open("MANIFEST.hooks", "w").write(
    "# guard: build tag `verif`. No source commits in /repo carry hooks: every driver and helper is an add-only file under\n"
    "# /verif/harness/overlay/<path in repo>, mapped into the build with `go -overlay` and carrying `//go:build verif`.\n"
    "# With the tag off (and without the overlay) /repo builds and tests exactly as the baseline.\n"
    "# Most overlay files are *_test.go drivers or main packages under zzverif/. The only non-test files overlaid INTO snapd packages\n"
    "# (they export a test-only setter to a driver in another package; never copied into /repo):\n"
    + "".join("#   %s\n" % f for f in nontest))
print("claimed:", [c["property_id"] for c in checks])
