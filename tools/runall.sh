#!/bin/bash
# tools/runall.sh [parallelism] [tier] [props...]: run the checks, one log per property under /var/tmp/runall/, summary at the end
P=${1:-3}; T=${2:-quick}; shift 2 2>/dev/null
cd "$(dirname "$0")/.."
mkdir -p /var/tmp/runall
PROPS=${@:-$(python3 -c "import json;print(' '.join(c['property_id'] for c in json.load(open('MANIFEST.json'))['checks']))")}
echo $PROPS | tr ' ' '\n' | xargs -P $P -I{} sh -c 'S=$(date +%s); timeout 3000 ./check {} --tier '$T' > /var/tmp/runall/{}.log 2>&1; echo "{} exit=$? wall=$(( $(date +%s) - S ))s $(grep -c "^VIOLATION" /var/tmp/runall/{}.log) violation-lines; $(grep "^\[{}\] tier" /var/tmp/runall/{}.log | tail -n 1)"' | tee /var/tmp/runall/summary.txt
