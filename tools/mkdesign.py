#!/usr/bin/env python3
"""Regenerate the generated tail of DESIGN.md: (a) the seeded-change table from seeded/*/meta.json + results.jsonl,
(b) the as-built notes per property (notes/Cnn.md, written by whoever built the check), (c) claimed / not claimed."""
import glob, json, os, re, sys
ROOT = os.path.dirname(os.path.dirname(os.path.abspath(__file__)))
os.chdir(ROOT)
MARK = "<!-- GENERATED TAIL: everything below is produced by tools/mkdesign.py from notes/, seeded/ and MANIFEST.json -->"
txt = open("DESIGN.md").read()
head = txt.split(MARK)[0].rstrip() + "\n\n"
out = [MARK, ""]

man = json.load(open("MANIFEST.json"))
claimed = [c["property_id"] for c in man["checks"]]
out.append("## 6. What is claimed in MANIFEST.json right now\n")
out.append("Claimed (%d): %s\n" % (len(claimed), ", ".join(claimed)))
if man.get("not_applicable"):
    out.append("Not claimed:\n")
    for n in man["not_applicable"]:
        out.append("* %s — %s" % (n["property_id"], n["reason"]))
out.append("")

out.append("## 7. Seeded changes (written by fresh sub-agents from the property text only) and which checks catch them\n")
out.append("Each `seeded/<id>/` holds `patch.diff`, the demonstration, `meta.json` and `results.jsonl` (one line per run of "
           "`tools/seedcheck.py`). `failing-input` = the check reported a concrete failing case on the real code; "
           "`no-failing-input-found` = a proof obligation or the correspondence broke and the search found no failing case.\n")
out.append("| seed | property | what the change needs to manifest | confirmed (demo fails with / passes without, tests pass) | checks run → outcome |")
out.append("|---|---|---|---|---|")
for d in sorted(glob.glob("seeded/*/meta.json")):
    m = json.load(open(d))
    sid = os.path.basename(os.path.dirname(d))
    res = {}
    rp = os.path.join(os.path.dirname(d), "results.jsonl")
    if os.path.exists(rp):
        for l in open(rp):
            r = json.loads(l)
            res[(r["check"], r["tier"])] = r      # last run wins
    outcome = "; ".join("%s/%s: %s" % (c, t, ("CAUGHT (%s)" % r["kind"]) if r["caught"] else "MISSED") for (c, t), r in sorted(res.items())) or "not run yet"
    out.append("| %s | %s | %s | %s | %s |" % (sid, m.get("property"), str(m.get("needs", "")).replace("|", "/").replace("\n", " "),
                                           str(m.get("confirmed", "")).replace("|", "/").replace("\n", " "), outcome))
out.append("")

out.append("## 7b. Findings: genuine defects of snapcore/snapd met by the checks (from KNOWN_FINDINGS)\n")
out.append("`fixed` = repaired in /repo by the one `fix:` commit named (the check passes on the repaired tree and reports the "
           "violation again if it returns); `known` = recorded, not repaired (the check prints a KNOWN-FINDING line for exactly "
           "this class and exits 0; any other violation of the property is still reported). Why a finding is not repaired is "
           "said in the property's notes below (usual reasons: the repair changes behaviour pinned by the package's own tests, "
           "is a policy decision, or is not small).\n")
out.append("| property | status | key / commit | what fails |")
out.append("|---|---|---|---|")
for l in open("KNOWN_FINDINGS"):
    m = re.match(r"(known|fixed): property=(\S+) (\S+) (.*)", l.strip())
    if m:
        out.append("| %s | %s | %s | %s |" % (m.group(2), m.group(1), m.group(3).replace("key=", ""), m.group(4).replace("|", "/")[:700]))
out.append("")

out.append("## 8. As-built notes per property (from notes/Cnn.md; they override the plan in section 2 where they differ)\n")
for f in sorted(glob.glob("notes/C[0-9][0-9].md")):
    pid = os.path.basename(f)[:-3]
    body = open(f).read().strip()
    body = re.sub(r"(?m)^(#+) ", lambda m: "###" + m.group(1) + " ", body)   # demote headings
    out.append("### %s — as built\n" % pid)
    out.append(body)
    out.append("")
open("DESIGN.md", "w").write(head + "\n".join(out) + "\n")
print("DESIGN.md tail regenerated: %d notes, %d seeds" % (len(glob.glob("notes/C[0-9][0-9].md")), len(glob.glob("seeded/*/meta.json"))))
