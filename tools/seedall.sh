#!/bin/bash
# tools/seedall.sh [parallelism] [glob]: re-run tools/seedcheck.py for every stored seed (quick tier, scratch copies), summary at the end
P=${1:-4}; G=${2:-*}
cd "$(dirname "$0")/.."
mkdir -p /var/tmp/seedall
ls -d seeded/$G/ | xargs -n1 basename | xargs -P $P -I{} sh -c 'python3 tools/seedcheck.py {} > /var/tmp/seedall/{}.log 2>&1; grep -E "^(CAUGHT|MISSED)" /var/tmp/seedall/{}.log || echo "ERROR {}"' | tee /var/tmp/seedall/summary.txt
echo "caught-with-input: $(grep -c "^CAUGHT.*failing-input" /var/tmp/seedall/summary.txt)  tie-only: $(grep -c "^CAUGHT.*no-failing-input-found" /var/tmp/seedall/summary.txt)  missed: $(grep -c "^MISSED" /var/tmp/seedall/summary.txt)  errors: $(grep -c "^ERROR" /var/tmp/seedall/summary.txt)"
