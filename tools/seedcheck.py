#!/usr/bin/env python3
"""Run the registered checks against a seeded change.

  tools/seedcheck.py <seed-id> [--props C01,C02] [--tier quick] [--in-repo]

<seed-id> names a directory /verif/seeded/<seed-id>/ holding patch.diff and meta.json ({"property": "Cnn", ...}).
Default mode: copy /repo's working tree to a scratch directory, apply the patch there and run the checks with
VERIF_REPO pointing at the copy (safe while other work uses /repo). --in-repo applies the patch to /repo itself
(git -C /repo apply), runs the checks and undoes it straight afterwards (git -C /repo checkout -- .).
Prints one line per check: CAUGHT (exit 1 + VIOLATION line, says whether a failing input was found) or MISSED.
Results are appended to seeded/<seed-id>/results.jsonl; evidence files are never overwritten by scratch-copy runs.
"""
import argparse, json, os, shutil, subprocess, sys, tempfile, time
ROOT = os.path.dirname(os.path.dirname(os.path.abspath(__file__)))


def main():
    ap = argparse.ArgumentParser()
    ap.add_argument("seed")
    ap.add_argument("--props")
    ap.add_argument("--tier", default="quick")
    ap.add_argument("--in-repo", action="store_true")
    a = ap.parse_args()
    sd = os.path.join(ROOT, "seeded", a.seed)
    meta = json.load(open(os.path.join(sd, "meta.json")))
    props = a.props.split(",") if a.props else [meta["property"]]
    patch = os.path.join(sd, "patch.diff")
    env = dict(os.environ)
    scratch = None
    saved_evidence = {}
    if a.in_repo:
        st = subprocess.run(["git", "-C", "/repo", "status", "--porcelain", "--untracked-files=no"], capture_output=True, text=True).stdout
        if st.strip():
            sys.exit("/repo has uncommitted changes to tracked files; refusing")
        subprocess.check_call(["git", "-C", "/repo", "apply", patch])
        for p in props:   # keep the clean-tree evidence: a run against a patched /repo must not replace it
            ev = os.path.join(ROOT, "evidence", p + ".json")
            if os.path.exists(ev):
                saved_evidence[ev] = open(ev).read()
    else:
        scratch = tempfile.mkdtemp(prefix="seedrepo-", dir=os.environ.get("VERIF_SCRATCH", "/var/tmp"))
        subprocess.check_call(["rsync", "-a", "--exclude", ".git", "/repo/", scratch + "/"])
        subprocess.check_call(["patch", "-p1", "-s", "-d", scratch, "-i", patch])
        env["VERIF_REPO"] = scratch
    try:
        for p in props:
            t = time.time()
            r = subprocess.run([os.path.join(ROOT, "check"), p, "--tier", a.tier], cwd=ROOT, env=env,
                               stdout=subprocess.PIPE, stderr=subprocess.STDOUT, text=True)
            viol = [l for l in r.stdout.splitlines() if l.startswith("VIOLATION")]
            caught = r.returncode != 0 and bool(viol)
            kind = "" if not caught else ("no-failing-input-found" if viol[0].endswith("no-failing-input-found") else "failing-input")
            summary = [l for l in r.stdout.splitlines() if l.startswith("[%s] tier=" % p)]
            broken = [l.strip() for l in r.stdout.splitlines() if "BROKEN:" in l]
            print("%s seed=%s check=%s tier=%s %s (%.0fs)" % ("CAUGHT" if caught else "MISSED", a.seed, p, a.tier, kind, time.time() - t))
            for l in viol + broken[:6] + summary:
                print("   ", l[:300])
            with open(os.path.join(sd, "results.jsonl"), "a") as f:
                f.write(json.dumps(dict(check=p, tier=a.tier, caught=caught, kind=kind, exit=r.returncode,
                                        violation_lines=viol, broken=broken[:10], summary=summary,
                                        mode="in-repo" if a.in_repo else "scratch-copy")) + "\n")
    finally:
        if a.in_repo:
            subprocess.call(["git", "-C", "/repo", "apply", "-R", patch])   # also removes files the patch added
            subprocess.check_call(["git", "-C", "/repo", "checkout", "--", "."])
            for ev, txt in saved_evidence.items():
                open(ev, "w").write(txt)
        if scratch:
            shutil.rmtree(scratch, ignore_errors=True)


main()
