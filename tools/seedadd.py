#!/usr/bin/env python3
"""tools/seedadd.py <src dir> <seed id> <property> <needs> <what was run to confirm>: copy a confirmed seeded change into seeded/<id>/"""
import json, os, shutil, sys
src, sid, prop, needs, confirmed = sys.argv[1:6]
ROOT = os.path.dirname(os.path.dirname(os.path.abspath(__file__)))
dst = os.path.join(ROOT, "seeded", sid)
os.makedirs(dst, exist_ok=True)
for f in os.listdir(src):
    p = os.path.join(src, f)
    if os.path.isfile(p) and os.path.getsize(p) < 400000 and not f.endswith(".log"):
        shutil.copy(p, os.path.join(dst, f))
json.dump(dict(property=prop, needs=needs, confirmed=confirmed, source="fresh sub-agent given only the property record and a scratch worktree of /repo"),
          open(os.path.join(dst, "meta.json"), "w"), indent=1)
print("added", dst, os.listdir(dst))
