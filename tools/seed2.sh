#!/bin/bash
# tools/seed2.sh <seed-id> <property> <worktree> <src-dir> <pkg> <demo-file> <extra-pinned|-> "<needs>" <demo args...>
# wave-2 pipeline: confirm in a scratch worktree at /repo's HEAD, store under seeded/<seed-id>/, run the property's check against it
SID=$1; PROP=$2; WT=$3; SRC=$4; PKG=$5; DEMO=$6; EXTRA=$7; NEEDS=$8; shift 8
cd "$(dirname "$0")/.."
git -C $WT checkout -q -- . ; git -C $WT clean -fdq; git -C $WT checkout -q --detach main
tools/seedconfirm.sh $WT $SRC $PKG $DEMO $EXTRA "$@" > /var/tmp/confirm/$SID.log 2>&1
if ! grep -q "^CONFIRMED" /var/tmp/confirm/$SID.log; then echo "$SID NOT-CONFIRMED (see /var/tmp/confirm/$SID.log)"; exit 1; fi
tools/seedadd.py $SRC $SID $PROP "$NEEDS" "lead: tools/seedconfirm.sh in a scratch worktree at /repo's HEAD: demo passes clean, fails patched; the package's own failing-test set is unchanged by the patch; pinned dependants ($EXTRA) pass patched. Later wave: written by a fresh sub-agent after the checks had been strengthened against the earlier waves, told to avoid the obvious spot and anything used before" > /dev/null
tools/seedcheck.py $SID > /var/tmp/sc4-$SID.log 2>&1
grep -h -E "^(CAUGHT|MISSED)" /var/tmp/sc4-$SID.log | cut -c1-150
