#!/bin/bash
# tools/seedconfirm.sh <worktree> <seed-src-dir> <pkg> <demo-file> <extra pinned pkgs, comma separated or -> <demo-run-args...>
# Confirms a seeded change in a scratch worktree: the demo passes on the clean tree and fails with the patch; the
# package's own tests have no NEW failing test with the patch (demo removed; the failing sets are compared because some
# packages fail offline even unmodified); the extra pinned packages pass with the patch.
set -u
WT=$1; SRC=$2; PKG=$3; DEMO=$4; EXTRA=$5; shift 5
export GOFLAGS=-mod=mod GOPROXY=off GOSUMDB=off GOTOOLCHAIN=local
cd "$WT" || exit 2
git checkout -q -- . && git clean -fdq
fails() { grep -E "^(FAIL:|--- FAIL|PANIC:)" "$1" | sed 's/^\(FAIL:\|PANIC:\) [^ ]* /\1 /' | sed "s, ([0-9.]*s),,"| sort -u; }
timeout 2400 go test -vet=off -count=1 "./$PKG" > /tmp/sc.$$.base.log 2>&1; echo "clean, package tests: exit=$? failing=$(fails /tmp/sc.$$.base.log | wc -l)"
cp "$SRC/$DEMO" "$PKG/"
timeout 1500 go test -vet=off -count=1 "./$PKG" "$@" > /tmp/sc.$$.clean.log 2>&1; A=$?
echo "clean+demo: exit=$A (want 0)"
git apply "$SRC/patch.diff" || { echo "patch does not apply"; exit 2; }
timeout 1500 go test -vet=off -count=1 "./$PKG" "$@" > /tmp/sc.$$.patched.log 2>&1; B=$?
echo "patched+demo: exit=$B (want non-zero)"; grep -E "^(FAIL|--- FAIL|\.\.\.|OOPS|PANIC)" /tmp/sc.$$.patched.log | head -4
rm -f "$PKG/$DEMO"
timeout 2400 go test -vet=off -count=1 "./$PKG" > /tmp/sc.$$.tests.log 2>&1; echo "patched, package tests: exit=$? failing=$(fails /tmp/sc.$$.tests.log | wc -l)"
NEW=$(comm -13 <(fails /tmp/sc.$$.base.log) <(fails /tmp/sc.$$.tests.log))
echo "new failing tests with the patch: ${NEW:-none}"
C=0; [ -n "$NEW" ] && C=1
if [ "$EXTRA" != "-" ]; then
  for p in $(echo "$EXTRA" | tr ',' ' '); do
    timeout 2400 go test -vet=off -count=1 "./$p" > /tmp/sc.$$.x.log 2>&1; X=$?
    if [ $X -ne 0 ]; then timeout 2400 go test -vet=off -count=1 "./$p" > /tmp/sc.$$.x.log 2>&1; X=$?; fi   # one retry: load flakes
    echo "patched, pinned $p: exit=$X"; [ $X -ne 0 ] && C=1
  done
fi
git checkout -q -- . && git clean -fdq
rm -f /tmp/sc.$$.*
[ $A -eq 0 ] && [ $B -ne 0 ] && [ $C -eq 0 ] && echo CONFIRMED || echo NOT-CONFIRMED
