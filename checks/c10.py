"""C10 — a failed install, refresh or revert leaves the snap exactly as it was (DESIGN.md §2 C10-C13)."""

STATE_KEYS = ["seq", "current", "active", "chan", "devmode", "jailmode", "classic", "trymode", "ignore-validation",
              "cohort", "last-refresh", "refresh-inhibited", "not-blocked", "cfg", "mounted", "link", "block"]

EMPTY = {"seq": [], "current": 0, "active": False, "chan": "", "devmode": False, "jailmode": False, "classic": False,
         "trymode": False, "ignore-validation": False, "cohort": "", "last-refresh": 0, "refresh-inhibited": 0,
         "not-blocked": [], "cfg": 0, "mounted": [], "link": 0, "block": [], "revcfg": []}


def proj(s):
    return {k: s.get(k) for k in STATE_KEYS}


def block_of(seq, current, notblocked):
    if current not in seq:
        return []
    i = len(seq) - 1 - seq[::-1].index(current)
    return [r for r in seq[i + 1:] if r not in notblocked]


def step_classes(before, x):
    """For a failed install/refresh/revert step whose state differs from `before`: the set of known classes that
    together explain the difference exactly, or None when something else differs."""
    import itertools
    after = x["after"]
    kinds, krevs, k = x.get("kinds") or [], x.get("krevs") or [], x["k"]
    done = list(zip(kinds, krevs))[:k - 1]
    sup = x.get("sup") or {}
    tgt = sup.get("rev")
    # finding 7: revisions whose discard-snap completed before the failure are gone (no undo for discard-snap)
    gone = [r for kd, r in done if kd == "discard-snap"]
    # (finding 6, RevertStatus lost by an undone non-revert refresh onto a kept revision, was repaired in /repo by 5dcb85f:
    # it is no longer a known class, a recurrence is a VIOLATION)
    # finding 13: a snap that had no configuration keeps what the configure hook of the failed change wrote
    # (SaveRevisionConfig saves nothing when there is no configuration, so undoLinkSnap has nothing to restore)
    hooked = any(kd == "hook:configure" for kd, r in done) and x.get("hookcfg", 0) > 0
    cfg_applies = hooked and before["cfg"] == 0 and bool(before["seq"])
    optional = [c for c, ok in (("fail-after-discard", bool(gone)), ("config-from-nothing", cfg_applies)) if ok]
    for n in range(1, len(optional) + 1):
        for classes in itertools.combinations(optional, n):
            exp = dict(proj(before))
            if "fail-after-discard" in classes:
                exp["seq"] = [r for r in exp["seq"] if r not in gone]
                exp["mounted"] = [r for r in exp["mounted"] if r not in gone]
                exp["not-blocked"] = [r for r in exp["not-blocked"] if r not in gone]
            if "config-from-nothing" in classes:
                exp["cfg"] = x["hookcfg"]
            exp["block"] = block_of(exp["seq"], exp["current"], exp["not-blocked"])
            if exp == proj(after):
                return set(classes)
    return None


def classify(case):
    """key of the known class when EVERY violating step of the history is explained by recorded findings."""
    steps = case.get("observed") or []
    # a seeded history (boot-base histories of the C12 tie) starts from the recorded seed state, not from the empty one
    before = (steps[0].get("seed") if steps else None) or EMPTY
    found = []
    for x in steps:
        kind = x["op"]["kind"]
        if kind in ("install", "refresh", "refresh-path", "revert", "revert-to") and not x.get("err") and x.get("k", 0) > 0:
            if proj(before) != proj(x["after"]):
                cl = step_classes(before, x)
                if not cl:
                    return None
                found.append(cl)
        before = x["after"]
    if not found:
        return None
    # every violating step is explained by recorded findings: the history is reported under the class of its first
    # violating step, so that each recorded class is met by the sweep that was written for it
    first = found[0]
    for key in ("config-from-nothing", "fail-after-discard"):
        if key in first:
            return key
    return None


EV = dict(requires=["V.models.SnapSeq"], case_type="SnapSeq.case", mismatch="SnapSeq.mismatch",
          monitor="SnapSeq.monitor_fail")

DRIVER = dict(name="histories", kind="test", pkg="./overlord/snapstate", run="TestSnapManager",
              gocheck="verifC10Suite.TestVerifC10Driver", n=dict(quick=12, thorough=400),
              timeout=dict(quick=300, thorough=1800), ev=EV)

SPEC = dict(
    prop="C10",
    overlay_tags=["c10"],
    coq_targets=["props/C10.vo"],
    drivers=[DRIVER],
    classify=classify,
    rule=("histories of install / refresh (to a new and to a kept revision) / revert / revert-to / remove / remove-rev / "
          "enable / disable / refresh.retain changes / `snap set` / refresh inhibition on one snap, played through the real "
          "snapstate entry points, handlers and task runner with the package's fake backend and store; every change may get "
          "a failure (an error-trigger task in place of its k-th task, k random) and 10 base histories (plus two fixed remove-revision / enable histories and deep histories with more kept revisions than the lowered retain) sweep EVERY failure "
          "position 1..tasks+1 of their last operation (install, refresh with and without garbage collection, refresh to a "
          "kept revision, revert, revert-to not-blocking, the repaired finding 6 as a regression history, the recorded findings 7 and 13). "
          "Non-trivial = a history with a change that failed after its link-snap completed."),
    exhaustive=dict(quick=False, thorough=False),
    trusted_base=[
        "hand-written model coq/models/SnapSeq.v of doLinkSnap/undoLinkSnap/countMissingRevs, do/undoUnlinkCurrentSnap, do/undoMountSnap, do/undoUnlinkSnap, doDiscardSnap, doInstall (task list, garbage collection), removeTasks, Enable, Disable, refreshRetain, SnapState.Block, snapstate.Set, config.Save/Restore/DiscardRevisionConfig; tied by the differential run (harness/overlay/overlord/snapstate/zz_verif_c10_test.go)",
        "the package's test fakes (fakeSnappyBackend, fakeStore, snapmgrBaseTest set-up): the system-visible side is what snapd ASKS the backend to do; real mounts and symlinks are not exercised",
        "failure injection = an error-trigger task spliced in place of the k-th task: the failing task has no partial effect",
    ],
    assumptions=[
        "GUARDED: the full statement is false in two recorded classes (KNOWN_FINDINGS fail-after-discard, config-from-nothing; a third, revert-status-lost, was repaired in /repo by 5dcb85f and its guard removed); the theorem excludes exactly these; what is restored after a completed discard is compared with the model on the real code but not stated as a theorem",
        "the SnapSetup fields of a change (channel, flags, cohort, revert status) are read back from the change: how Install/Update/Revert derive them from user flags is not modelled",
        "not modelled: aliases, services, security profiles, data directories, components, snap types other than app, partial effects of the failing task; cohort keys other than the empty one are not generated",
        "`wf` (the invariant the theorem assumes of the state before the operation) is proved to be preserved only for the operations listed in props/C11.v",
    ],
)
