"""C11 — after every settled change the recorded snap state matches the system (DESIGN.md §2 C10-C13)."""
from checks import c10


def classify(case):
    return None


EV = dict(requires=["V.models.SnapSeq"], case_type="SnapSeq.case", mismatch="SnapSeq.mismatch",
          monitor="SnapSeq.monitor11_fail")

SPEC = dict(
    prop="C11",
    overlay_tags=["c10"],
    coq_targets=["props/C11.vo"],
    drivers=[dict(c10.DRIVER, ev=EV)],
    classify=classify,
    rule=('the shared C10 driver: histories of install / refresh / revert / revert-to / remove / remove-rev / enable / disable on one snap with a failure injected at a random task of any change, plus sweeps over every failure position; the C11 invariant (current kept, no duplicate, mounted = kept, link = current iff active, nothing left of a removed snap incl. config and revision-config) is evaluated on the state and backend log after EVERY settled change. Non-trivial = a history with a change that failed after its link-snap completed.'),
    exhaustive=dict(quick=False, thorough=False),
    trusted_base=[
        "hand-written model coq/models/SnapSeq.v (see checks/c10.py), tied by the differential run of the shared driver harness/overlay/overlord/snapstate/zz_verif_c10_test.go: every step's task chain, refusal and resulting state are compared with the model's",
        "the package's test fakes (fakeSnappyBackend, fakeStore, snapmgrBaseTest set-up): the system-visible side is what snapd ASKS the backend to do",
    ],
    assumptions=['PROVED on the model for arbitrary histories (C11_consistent_invariant): every operation kind, completed, refused, or failed at any task and undone, preserves the invariant; side condition refresh.retain >= 2 (the range configuration accepts). The tie to the real code is the differential run: completed changes of every kind, failures at random tasks of every kind of change, and every failure position of install / refresh / revert / remove / remove --revision / enable / disable sweeps', 'one snap per history: operations on several snaps and the frame condition between them are not exercised', 'failure injection = an error-trigger task in place of the k-th task (no partial effect of the failing task)'],
)
