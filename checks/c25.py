"""C25 — non-root callers can only run snapctl's read-only commands (DESIGN.md §2 C25)."""


def classify(case):
    return None


SPEC = dict(
    prop="C25",
    gens=[dict(name="NonRootAllowed", cmd=["go", "run", "-C", "translators", ".", "snapctl"],
               what="nonRootAllowed of overlord/hookstate/ctlcmd/ctlcmd.go and the addCommand names of the package; "
                    "fails if a command option declares short:h or long:help")],
    drivers=[
        dict(name="run", kind="test", pkg="./overlord/hookstate/ctlcmd", run="TestVerifC25",
             n=dict(quick=600, thorough=20000), timeout=dict(quick=300, thorough=1800),
             ev=dict(requires=["V.lib.Bytes", "V.gen.NonRootAllowed", "V.models.SnapCtl"], case_type="SnapCtl.case",
                     mismatch="SnapCtl.mismatch", monitor="SnapCtl.monitor_fail")),
    ],
    classify=classify,
    rule=("the REAL ctlcmd.Run (real isAllowedToRun, real go-flags parser with the real option structs of every "
          "registered command; each generator wrapped so that Execute only records the command name; kmod's sub-commands "
          "run for real with a nil context and stop at MissingContextError) on argument vectors, each with uid 0 and uid "
          "1000: EXHAUSTIVE small scope = every registered name and 10 non-names (bogus, -h, --help, --, -t, --view, empty, "
          "GET, `get `, -) in first place followed by every sequence of length <= 2 over {-h, --help, --, -t, --type, "
          "foo=bar, x, get, set} (thorough: 18 tokens incl. value-taking options, clusters, joined -h values, sub-command "
          "names); per command well-formed invocations that execute for root, with -h / --help / -- / a value-taking "
          "option spliced in at every position; random vectors of 1-6 tokens over command names, 53 option spellings "
          "(short, long, joined values such as --code=-h, -o-h, clusters -th/-ht, --help=1, unknown flags, -5) and free "
          "arguments, uids 0, 1, 1000, 2^32-1. Observed: internal error / ForbiddenCommandError / go-flags error (nothing "
          "executed) / which command's Execute ran. Non-trivial = something executed, or a non-root vector of >= 2 tokens."),
    exhaustive=dict(quick=True, thorough=True),
    trusted_base=[
        "translators/snapctl.go (go/ast): prints nonRootAllowed and the addCommand names; checks no option declares short:h / long:help",
        "hand-written model coq/models/SnapCtl.v: isAllowedToRun function by function; github.com/jessevdk/go-flags (third party) is MODELLED, not verified: abstracted to `the first token selects the command; a help token before -- means nothing executes; whether the selected command's options parse is left open (MayExec)`; the abstraction is tied to the real parser and the real command structs by the differential run (harness/overlay/overlord/hookstate/ctlcmd/zz_verif_c25_test.go)",
        "spec_allowed in coq/models/SnapCtl.v is the list of the property statement, written by hand",
    ],
    assumptions=[
        "go-flags is third-party code: modelled by an abstraction (see trusted_base), tied by the differential run only. The theorems are about every argument vector of the model; they transfer to the implementation as far as the abstraction holds (no mismatch in the exhaustive small scope and the random vectors).",
        "the model's MayExec leaves open whether the selected command's option parsing succeeds; the property only needs which command could execute",
        "GO_FLAGS_COMPLETION is not set in snapd's environment (go-flags' completion mode is outside the model)",
        "which uid is passed to Run: api_snapctl.go takes it from the peer credentials; proved and driven on the C26 side (C26_snapctl_uid_is_peer, driver kind snapctl)",
    ],
)
