"""C36 — accepted quota groups always fit inside their parents (DESIGN.md §2 C36)."""


def classify(case):
    """Two recorded classes, both about the cpu fit only (a history ends at the first request that breaks a fit):
    (a) an accepted UpdateQuotaLimits changes the size of the effective cpu set of an already existing group whose cpu
        quota is a bare percentage (count 0) - the effective reservation count*percentage of that group changes
        without being validated again;
    (b) an accepted request with a cpu quota on a group whose nearest ancestor with a cpu set or cpu quota has only a
        cpu set: validateCPUResourceFit stops there and never looks at the cpu quota further up."""
    steps = ((case.get("observed") or {}).get("steps")) or []
    broken = [s for s in steps if s.get("broken")]
    if len(broken) != 1 or broken[0] is not steps[-1]:
        return None
    s = broken[0]
    if s.get("broken") != ["cpu"] or not s.get("accepted"):
        return None
    if s.get("kind") == "upd" and s.get("effset_changed_for_count0"):
        return "cpuset-change-over-count0-group"
    if s.get("kind") in ("sub", "upd") and s.get("stops_at_set_only_ancestor"):
        return "cpu-check-stops-at-cpuset-only-ancestor"
    return None


SPEC = dict(
    prop="C36",
    drivers=[
        dict(name="history", kind="main", pkg="./zzverif/c36",
             n=dict(quick=600, thorough=20000), timeout=dict(quick=300, thorough=1800),
             ev=dict(requires=["V.models.Quota"], case_type="Quota.case",
                     mismatch="Quota.mismatch", monitor="Quota.monitor_fail",
                     prelude="Open Scope Z_scope.")),
    ],
    classify=classify,
    rule="",
    exhaustive=dict(quick=False, thorough=False),
    trusted_base=[],
    assumptions=[],
    disabled="under construction",
)
