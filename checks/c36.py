"""C36 — accepted quota groups always fit inside their parents (DESIGN.md §2 C36)."""


def classify(case):
    """Two recorded classes, both about the cpu fit only and both about percentage-only (count 0) cpu quotas, whose
    reservation is percentage x size of the effective cpu set (a history ends at the first request that breaks a fit):
    (a) an accepted request changes the size of the effective cpu set of a percentage-only group without that group's
        reservation being validated again: an UpdateQuotaLimits that changes the own or inherited set of an existing
        group, or a NewSubGroup whose own cpu set differs in size from the inherited one the validator used;
    (b) an accepted request leaves its target with a percentage-only quota over a cpu set with more entries than
        runtime.NumCPU: validateCPUResourceFit sizes the request by len(set), GetLocalCPUQuota caps it at NumCPU.
    The class `cpu-check-stops-at-cpuset-only-ancestor` was repaired in /repo (731c638): a recurrence is a VIOLATION."""
    steps = ((case.get("observed") or {}).get("steps")) or []
    broken = [s for s in steps if s.get("broken")]
    if len(broken) != 1 or broken[0] is not steps[-1]:
        return None
    s = broken[0]
    if s.get("broken") != ["cpu"] or not s.get("accepted"):
        return None
    if s.get("kind") in ("upd", "sub") and s.get("effset_changed_for_count0"):
        return "cpuset-change-over-count0-group"
    if s.get("kind") in ("upd", "sub", "new") and s.get("count0_set_larger_than_numcpu"):
        return "cpu-percentage-only-sized-beyond-numcpu"
    return None


SPEC = dict(
    prop="C36",
    drivers=[
        dict(name="history", kind="main", pkg="./zzverif/c36",
             n=dict(quick=600, thorough=20000), timeout=dict(quick=300, thorough=1800),
             ev=dict(requires=["V.models.Quota"], case_type="Quota.case",
                     mismatch="Quota.mismatch", monitor="Quota.monitor_fail",
                     prelude="Open Scope Z_scope.")),
    ],
    classify=classify,
    rule=("histories of 3..12 requests against the real quota.NewGroup / Group.NewSubGroup / Group.UpdateQuotaLimits "
          "(runtime.NumCPU fixed to 2, 4 or 8 through the package's own variable): 15% new root groups, 50% sub-groups, 35% "
          "updates, targets chosen among the groups that exist at that moment down to depth 3; every request carries each "
          "of memory / cpu (count, percentage) / cpu set / threads with probability 1/3..2/5, values from small pools so "
          "that limits collide (memory 0, 640KiB, 640KiB+1, 1..8MiB; threads -1..16; count 0,1,2,4; percentage 0,25,50,100; "
          "cpu sets: prefixes 0..k (k up to 12 > NumCPU), random subsets of 0..7, duplicates, empty); some histories "
          "concentrate on memory+threads or on cpu. Plus six fixed histories (the recorded finding; the witness of the repaired "
          "set-only-ancestor defect; a cpu set larger than NumCPU; a duplicate-entry cpu set; memory and thread boundary "
          "cases with an unlimited middle group). After EVERY request the driver records accept/refuse and the "
          "whole forest read back from the exported Group fields; the model is compared request by request starting from the "
          "observed forest, and the fit invariants are recomputed on the observed forest. A history ends at the first "
          "request after which a fit is broken. Non-trivial = at least 2 accepted and 1 refused request and depth >= 2."),
    exhaustive=dict(quick=False, thorough=False),
    trusted_base=[
        "hand-written model coq/models/Quota.v of snap/quota/quota.go and resources.go, tied by the differential run (harness/overlay/zzverif/c36/main.go)",
        "harness/overlay/snap/quota/zz_verif_c36_hook.go: a 4-line build-tagged overlay file that assigns the package variable runtimeNumCPU (what export_test.go's MockRuntimeNumCPU does); never copied into /repo",
        "the driver's own Go diagnosis (which fit is broken, whether an effective cpu set changed) is used ONLY to map a monitor failure to its KNOWN_FINDINGS key; the verdict itself is Quota.monitor_fail evaluated in Coq",
    ],
    assumptions=[
        "PARTIAL: proved for all histories: memory fit, thread fit, nesting of cpu sets, refused requests change nothing; and the CPU fit for all histories without percentage-only (count 0) cpu quotas (every requested cpu quota has count >= 1 and percentage >= 1). With percentage-only quotas the CPU fit is refuted (two witnesses, both confirmed on the real code in every run: KNOWN_FINDINGS keys cpuset-change-over-count0-group and cpu-percentage-only-sized-beyond-numcpu) and otherwise only monitored on the implementation's observed trees. The defect cpu-check-stops-at-cpuset-only-ancestor was repaired in /repo commit 731c638; its witness is a regression case of the driver (the last request must be refused) and is no longer keyed.",
        "group names are pairwise distinct (getQuotaAllocations keys its map by name; uniqueness is enforced by the callers in overlord/servicestate) and syntactically valid; journal quotas, snaps and services are not modelled",
        "Go int / quantity.Size arithmetic is modelled by unbounded integers (no overflow); cpu count and percentage are non-negative in the differential run",
        "UpdateQuotaLimits is exercised as exported, i.e. also with partial Resources values; overlord/servicestate always passes the merged resources",
    ],
)
