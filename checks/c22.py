"""C22 — interface connections are transactional and persisted state matches memory (DESIGN.md §2 C22)."""

KEYS = {
    "connect/after/hotplug-gone": "connect-undo-drops-hotplug-gone",
    "forget/after/undesired": "forget-undo-reconnects-inactive",
    "forget/after/hotplug-gone": "forget-undo-reconnects-inactive",
}


def classify(case):
    obs = case.get("observed") or {}
    viol = obs.get("viol") or ""
    steps = obs.get("steps") or []
    if not viol or not steps:
        return None
    last = steps[-1]
    if last.get("viol") != viol or any(s.get("viol") for s in steps[:-1]):
        return None
    op, pre, post = last.get("op") or {}, last.get("pre") or {}, last.get("post") or {}
    # second security setup of the main task fails: conns AND repository must be back, only a profile may be stale.
    # (A repository that lost the connection is the repaired finding 8, fixed: 63d7dd9 -> not keyed, a VIOLATION.)
    rolled_back = pre.get("conns") == post.get("conns") and (pre.get("repo") or []) == (post.get("repo") or [])
    if op.get("kind") != "autoconnect" and op.get("fail") == "main" and op.get("k") == 2 and rolled_back:
        if viol.startswith("connect/main/") and (pre.get("prof-consumer") or []) == (post.get("prof-consumer") or []):
            return "connect-setup-fails-slot-profile-stale"
        if (viol in ("disconnect/main/active", "forget/main/active")
                and (pre.get("prof-producer") or []) == (post.get("prof-producer") or [])):
            # same mechanism on the disconnect side (plug snap's profile regenerated without the connection, then the
            # connection is put back): reported under the existing stale-profile key, see notes/C22.md
            return "connect-setup-fails-slot-profile-stale"
        return None
    if op.get("kind") == "autoconnect":
        # auto-connect from a state without active connections, undone after the second setup-profiles wrote the slot
        # snap's profile: only the slot snap's profile may differ
        no_active = not (pre.get("repo") or []) and not [c for c in (pre.get("conns") or []) if not c.get("undesired") and not c.get("hotplug-gone")]
        late = op.get("fail") == "after" or (op.get("fail") == "main" and op.get("k") == 2)
        if (no_active and late and rolled_back and (pre.get("prof-consumer") or []) == (post.get("prof-consumer") or [])):
            return "autoconnect-undo-leaves-slot-profile-stale"
        return None
    return KEYS.get(viol)


SPEC = dict(
    prop="C22",
    coq_targets=["props/C22.vo"],
    drivers=[
        dict(name="history", kind="test", pkg="./overlord/ifacestate", run="TestInterfaceManager", gocheck="VerifC22",
             n=dict(quick=60, thorough=1500), timeout=dict(quick=600, thorough=3000),
             ev=dict(requires=["V.models.Conns"], case_type="Conns.case",
                     mismatch="Conns.mismatch", monitor="Conns.monitor_fail")),
    ],
    classify=classify,
    rule=("in-package gocheck driver on interfaceManagerSuite (real InterfaceManager, hook manager, task runner, repository; "
          "ifacetest.TestSecurityBackend with a SetupCallback failing at the k-th call; hookstate.MockRunHook failing a chosen hook; "
          "consumer/producer snaps with 2 plugs x 2 slots, hooks on one pair). (a) the recorded finding as a fixed replay; (b) ALL "
          "combinations of 5 persisted entry states (absent, manual, auto, undesired, hotplug-gone) x 6 operations (connect, "
          "auto-connect, disconnect, forget, auto-disconnect, hotplug-disconnect) x 6 failure points (none, hook before, 1st/2nd "
          "security setup inside the main task, 1st/2nd task after) as one-change histories (180), and the auto-connect change (setup-profiles + auto-connect, "
          "base declaration allowing auto-connection with slots-per-plug: *) from the 5 entry states x 6 failure points, and the removal of the plug snap (auto-disconnect, unlink stand-in, remove-profiles, discard-conns) x none/before/after; (c) random initial `conns` over the "
          "4 ids followed by 1-4 random changes, each with a random failure point. Observed before and after every settled change: "
          "state `conns` (auto, by-gadget, undesired, hotplug-gone, attributes kept), repo.Interfaces().Connections, and the "
          "connection sets each snap's profile was last generated for (recorded inside the backend's Setup); plus the repository "
          "after start-up (reloadConnections). Non-trivial = a history with a failed change."),
    exhaustive=dict(quick=True, thorough=True),
    trusted_base=[
        "hand-written model coq/models/Conns.v of doConnect/undoConnect/doDisconnect/undoDisconnect/reloadConnections, tied by the differential run (harness/overlay/overlord/ifacestate/zz_verif_c22_test.go)",
        "the task runner (do/undo ordering, lanes) is not modelled: a change is its main task plus a failure point before / inside / after it; hook tasks are no-ops on conns and repository (validated by the driver, which runs the real hook tasks)",
        "the security backend is the suite's TestSecurityBackend; a profile is abstracted to the set of connections of the snap at its last successful Setup",
    ],
    assumptions=[
        "PARTIAL: the full statement is false in four classes (KNOWN_FINDINGS: autoconnect-undo-leaves-slot-profile-stale, connect-setup-fails-slot-profile-stale — which here also covers the mirror case of a disconnect task whose second setup fails —, connect-undo-drops-hotplug-gone, forget-undo-reconnects-inactive; the former fourth class, finding 8, is repaired by /repo commit 63d7dd9 and kept as a regression replay); theorems are guarded by `excluded`, each class has a `_refuted` witness and is reproduced on the real code on every run",
        "PARTIAL: auto-connect is modelled and driven for an installed plug snap with a base declaration that allows every pair (slots-per-plug: *); removal of the plug snap is modelled and driven with failure points before/after only (a security setup failing inside an injected disconnect task is excluded) and as the LAST operation of a history (the model world has both snaps installed); install of a new snap, refresh with changed plugs/slots, gadget connections, hotplug add/remove tasks and failures inside UNDO handlers are not modelled and not driven; auto / by-gadget / auto-disconnect / by-hotplug are exercised as flags of the connect / disconnect tasks",
        "both snaps are installed and all plugs and slots exist in the repository throughout (undoDisconnect's missing plug/slot branch and reloadConnections' stale-entry branch are not exercised)",
        "the policy check always allows the connection (no snap-declaration restrictions in the fixtures)",
    ],
)
