"""C12 — refresh keeps at most refresh.retain revisions and never discards ones in use (DESIGN.md §2 C10-C13)."""
from checks import c10


def classify(case):
    return None


EV = dict(requires=["V.models.SnapSeq"], case_type="SnapSeq.case", mismatch="SnapSeq.mismatch",
          monitor="SnapSeq.monitor12_fail")

SPEC = dict(
    prop="C12",
    overlay_tags=["c10"],
    coq_targets=["props/C12.vo"],
    drivers=[dict(c10.DRIVER, ev=EV)],
    classify=classify,
    rule=("the shared C10 driver: histories with refreshes to new and to kept revisions, reverts, and changes of refresh.retain (numbers 2..6 and legacy strings, unset = default 2 classic / 3 core) between refreshes; for every completed refresh: kept' <= max(retain, kept), <= retain for a new revision, nothing kept from after the old current revision, target kept and current; refreshRetain's answer is compared with the setting. The model comparison checks exactly which revisions get clear-snap/discard-snap tasks."),
    exhaustive=dict(quick=False, thorough=False),
    trusted_base=[
        "hand-written model coq/models/SnapSeq.v (see checks/c10.py), tied by the differential run of the shared driver harness/overlay/overlord/snapstate/zz_verif_c10_test.go: every step's task chain, refusal and resulting state are compared with the model's",
        "the package's test fakes (fakeSnappyBackend, fakeStore, snapmgrBaseTest set-up): the system-visible side is what snapd ASKS the backend to do",
    ],
    assumptions=['retain resolution, the exact garbage-collected set for refreshes to new AND to kept revisions (before/after current), never target/current/in-use, leftovers after current discarded, and the count (<= kept before for a kept target, <= retain for a new one when no candidate is in use) are proved on the model for retain >= 2; with in-use revisions among the candidates no count is stated (the characterisation says which ones stay)', "no revision is in use for booting in the driver's runs (app snap on the fake backend): the in-use branch of the garbage collection is proved on the model but not tied to boot.InUse", 'retain values outside 2..20 (rejected by configcore validation) are not generated'],
)
