"""C05 — persisted state reloads to the same state; identifiers are never reused (DESIGN.md §2 C05)."""


def classify(case):
    """the one recorded class: every difference of every reload in the case is a data entry whose JSON value is the
    literal null (visible before the save, absent after the load), and nothing else differs"""
    obs = case.get("observed") or {}
    diffs = [d for ds in (obs.get("reload_diffs") or []) for d in (ds or [])]
    if obs.get("other_clause_fails"):
        return None
    if diffs and all(d.startswith("null:") for d in diffs):
        return "data-json-null"
    return None


SPEC = dict(
    prop="C05",
    gens=[dict(name="PersistFields", cmd=["go", "run", "-C", "translators", ".", "persistfields"],
               what="field lists of State/Task/Change/Notice/Warning, of the structs handed to encoding/json, and the "
                    "fields written/read by each MarshalJSON/UnmarshalJSON")],
    drivers=[
        dict(name="persist", kind="test", pkg="./overlord/state", run="TestVerifC05Persist",
             n=dict(quick=50, thorough=3000), timeout=dict(quick=300, thorough=1500),
             ev=dict(requires=["V.lib.Bytes", "V.models.StatePersist"], case_type="StatePersist.case",
                     mismatch="StatePersist.mismatch", monitor="StatePersist.monitor_fail")),
    ],
    classify=classify,
    rule=("random histories of 8-60 operations through the real overlord/state API (in-package driver): NewChange, NewTask, "
          "NewLane, AddTask, WaitFor, JoinLane, Set/delete of state, change and task data (JSON scalars, nested objects, "
          "HTML-escaped and non-ASCII strings, in 1 case of 25 the literal null), At, Logf/Errorf (also past the 10-entry cap), "
          "SetProgress, doing/undoing time, Task.SetStatus to every status, SetToWait, Change.SetStatus, AddNotice (all types "
          "incl. an invalid one, users, data, repeat-after, explicit times), AddWarning, OkayWarnings, the real State.Prune "
          "with random retention and ready-count limit, and save/ReadState reloads anywhere; mocked clock readings are "
          "repeated, go backwards, lie up to 20 days back (expired notices) or up to 60 days back (expired warnings). "
          "Compared: identifiers handed out (changes, tasks, lanes, notices) and the projection of EVERY persisted field "
          "before each save, after each load and at the end. Non-trivial = identifiers handed out after a reload."),
    exhaustive=dict(quick=False, thorough=False),
    trusted_base=[
        "translators/persistfields.go (go/ast): struct field lists and the fields touched by the five MarshalJSON/UnmarshalJSON pairs",
        "hand-written model coq/models/StatePersist.v of overlord/state {state,task,change,notices,warning}.go, tied by the differential run (harness/overlay/overlord/state/zz_verif_c05_test.go)",
        "encoding/json, time.Time's RFC3339 form and time.Duration.String/ParseDuration are not modelled (a marshalled struct is a record of the same abstract values); they are exercised by the driver only",
        "the side effects of a status change inside the change (ready time of the change, change-update notices, last recorded notice status) are taken from the observed run and replayed through the model's AddNotice; which of them happen is C01-C03's subject",
        "which objects State.Prune removes is taken from the observed run (C09's subject); the theorems hold for every removal",
    ],
    assumptions=[
        "strings are valid UTF-8 (encoding/json replaces invalid bytes; not generated)",
        "the wall clock does not go backwards between a save and the following load (n1 <= n2 in C05_reload_is_normalize)",
        "the driver keeps generated instants at least 29 minutes away from every expiry/retention boundary, so that the few milliseconds between its base instant and the implementation's time.Now() cannot change a verdict",
        "WaitFor is generated only between tasks of the same change and towards older tasks (a cyclic or dangling dependency makes Change.Status log into the task or dereference a pruned task: outside this property)",
        "a task of a ready change is never moved back to an unready status (panics in detectChangeReady: C03)",
    ],
)
