"""C20 — assertions survive encoding and malformed input is rejected safely (DESIGN.md §2 C20)."""


def classify(case):
    """no recorded defect: the negative body-length panic of Decoder.Decode found by this check is repaired in /repo
    (commit 94ffaa1, KNOWN_FINDINGS `fixed:`), so every panic, timeout or failed round trip is a violation."""
    return None


SPEC = dict(
    prop="C20",
    coq_targets=["props/C20.vo"],
    drivers=[
        dict(name="codec", kind="test", pkg="./asserts", run="TestVerifC20",
             n=dict(quick=200, thorough=4000), timeout=dict(quick=600, thorough=3000),
             ev=dict(requires=["V.lib.Bytes", "V.models.AssertCodec"], case_type="AssertCodec.case",
                     mismatch="AssertCodec.mismatch", monitor="AssertCodec.monitor_fail")),
    ],
    classify=classify,
    rule=("in-package driver (package asserts) calling the real appendEntry, parseHeaders, assembleAndSign, Encode, Decode, "
          "NewDecoder and NewDecoderStressed. fmt: random header value trees of depth <= 4 (strings single/multi-line with "
          "empty lines, leading spaces/dashes/colons, non-ASCII; lists; maps), one third outside the normal form (empty "
          "lists/maps, invalid keys) -> appendEntry's lines compared with the model. parse: ALL strings of length <= 4 "
          "(thorough: <= 6) over the alphabet `a`,`:`,space,`-`,newline, a list of grammar edge cases and invalid UTF-8, "
          "formatted random header maps and 1-3 point mutations of them (truncate, bit flip, delete, insert separators / "
          "indentation, re-indent a line, duplicate a line, random byte), random byte strings -> accept/reject/panic and the "
          "parsed tree compared with the model. codec: random signable assertions of 6 types (test-only, test-only-2, "
          "test-only-seq, test-only-rev, test-only-no-authority-pk, account) with random extra header trees, revisions and "
          "bodies (empty, multi-line, containing blank lines), signed with a fresh RSA key, Encode -> Decode and "
          "NewDecoder.Decode: headers/body/signature compared with the original (monitor) and with the model's splitting "
          "and parse. decode: mutated encodings and random bytes through Decode. stream: 1-3 encoded assertions written by "
          "the real Encoder (also mutated / truncated) read by NewDecoderStressed with buffer 8..4096 and limits chosen "
          "around the actual component sizes, Decode called until the first non-assertion; plus 12 fixed streams with "
          "odd body-length values; chunk: valid signed assertions written by the real Encoder into one stream and read back through a reader "
          "that hands out 0(all),1,2,3,7,B-1,B,B+1 or a random number of bytes per Read (one in four also delivers the last bytes together "
          "with EOF), with sizes placed so that every delimiter falls on and around the read boundaries of Decoder.readUntil (initial "
          "buffer B, then doubling): header block ending at B*2^j-3..B*2^j+1 for B in 8,16,50,100 (boundaries 200..1024) and for the "
          "production B=4096 with boundaries 4096, 8192, 16384 (thorough: also 32768) under the production limits, signature separator "
          "via B*2^j = siglen-3..siglen+2 with and without body, body end at boundary-2..+2; half of them followed by a second assertion, "
          "one third with the boundary assertion last; plus random valid streams through chopped readers. Monitor: every original comes "
          "back identical, in order, then EOF; bodies of 0, 1, 3600..4200 (step 100), 4096, 5000, 9000, 70000 bytes (thorough: up to 1 MB) and bodies "
          "ending at the 4096-byte read window -2..+2, alone and as 2nd/3rd assertion of a stream, through the production decoder setup. "
          "For EVERY accepted assertion in every entry (Decode, NewDecoder, stressed and chunked stream decoders) the driver records "
          "asserts.Encode of the returned assertion (checked to be Signature() content + blank line + signature) and whether "
          "asserts.SignatureCheck against the signing key succeeds; the monitor requires the re-encoding to equal the original encoding "
          "(one-shot Decode: the input bytes) and the signature to verify. encstream: streams of 1..5 assertions written through ONE real "
          "Encoder, each handed over by Encode, WriteEncoded (with / without the final newline) or WriteContentSignature (signature with / "
          "without its final newline): all 25 ordered pairs of the five ways, plus random longer streams, half through stressed buffers and "
          "chopped readers; the written stream is compared with the Encoder model (encode_stream) and decoding must give exactly the "
          "originals, then EOF. Fixed body-length streams (negative, signed, zero-padded, overflowing, above the maximum: regression cases of the repaired panic). Every call runs under panic recovery and a 20 s time bound. Non-trivial = accepted "
          "parse / successful round trip / at least one assertion decoded from a stream."),
    exhaustive=dict(quick=True, thorough=True),
    trusted_base=[
        "hand-written model coq/models/AssertCodec.v of asserts/headers.go and of Decode/Decoder in asserts/asserts.go, tied by the differential run (harness/overlay/asserts/zz_verif_c20_test.go)",
        "headerNameValidity (a regexp) and unicode/utf8.Valid are hand models (valid_name, utf8_valid) validated by the differential run",
        "bufio.Reader / io.MultiReader under Decoder.peek are modelled as: fewer than size bytes left in the stream -> all of them plus a sticky EOF; otherwise exactly size bytes, however the underlying reader splits its data: proved for a model of bufio.Reader.Peek (peek_fill: Read is called until n bytes are buffered or the reader ends); assumed about bufio: buffer large enough / re-created with the buffered bytes carried over on ErrBufferFull, no endless empty reads, EOF delivered with data is deferred until the data is used; the lifting from Peek to the whole decoder is validated by the chunked-reader cases",
        "assemble's per-type checks, signing and RSA are not modelled: the model stops where Decode calls assemble; an accepted assertion must carry the model's headers/body/signature, a rejection by assemble is allowed",
    ],
    assumptions=[
        "PARTIAL: proved for all inputs on the model: header text round trip for every normalised tree of any depth (C20_roundtrip, C20_roundtrip_bytes), line split/join inverses, totality of parseHeaders (no out-of-range index, termination within 2*lines+1 steps: C20_no_panic), readUntil/Decode size bounds (C20_read_until_bound, C20_limits), that the overlap kept between two rounds of readUntil loses no delimiter (C20_read_until_overlap: the Go loop = whole-buffer search for every input), and that Decoder.Decode never panics on any stream (C20_stream_never_panics, C20_stream_loop_never_panics; the negative body-length panic this check found is repaired in /repo commit 94ffaa1). the byte-level round trip of a whole serialized assertion decode_parts (encode_assertion h body sig) = Ok (h, body, sig) for every normalised h, arbitrary body and any signature text without blank line / leading newline (C20_assertion_roundtrip), and that a bufio-style Peek returns the same bytes for every chunking of the reader (C20_peek_chunking_independent, C20_peek_is_flat_peek). The model carries the signed content of each decoded assertion (p_content); C20_reencode_identity: Encode of the one-shot decoded assertion is the original byte string. The stream round trip is proved: C20_stream_roundtrip (stream_all over encode_stream of any list of well-formed assertions, each handed to the Encoder complete or without its final newline, returns exactly those assertions then EOF, for every limits record whose doubling loop can reach each component - C20_limits_default for the production constants - by induction on the list, using C20_read_until_finds). NOT proved, only monitored on the implementation: identical revision/format (derived from headers by assemble), absence of hangs of the real decoder (20 s bound per call), independence of the stream decoder's result from the reader's chunking (monitored with chopped readers).",
        "normalised header tree = strings, non-empty lists, non-empty maps with valid distinct keys (what parseHeaders can produce); assembleAndSign also accepts trees outside this form, whose text form drops empty lists/maps or cannot be parsed (C20_roundtrip_any_tree_refuted) - treated as outside the property's `valid assertion`",
        "Go maps are represented by their key-sorted entry list",
        "the C20_limits bound for the header text is the readUntil bound max(initial buffer, limit); with the production constants (4096, 128 KiB, 2 MiB, 128 KiB) that is the limit itself",
    ],
)
