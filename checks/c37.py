"""C37 — path patterns match exactly their expansions; precedence is order-independent (DESIGN.md §2 C37)."""


def _parse(p):
    """pattern text -> nested list: a sequence is a list of items; an item is an atom ('*' unescaped star, '/' slash,
    'x' anything else) or ('G', [alternative sequences])"""
    pos = 0

    def seq(depth):
        nonlocal pos
        items = []
        while pos < len(p):
            c = p[pos]
            if c == "\\":
                items.append("x")
                pos += 2
            elif c == "{":
                pos += 1
                alts = [seq(depth + 1)]
                while pos < len(p) and p[pos] == ",":
                    pos += 1
                    alts.append(seq(depth + 1))
                pos += 1  # closing brace
                items.append(("G", alts))
            elif c in ",}" and depth > 0:
                return items
            else:
                items.append(c if c in "*/" else "x")
                pos += 1
        return items

    return seq(0)


def _suff(items, k):
    """the possible last-k atoms of the expansions of `items` (a result shorter than k is a whole expansion)"""
    if k <= 0 or not items:
        return {""}
    last = items[-1]
    out = set()
    if isinstance(last, tuple):
        for alt in last[1]:
            for tl in _suff(alt, k):
                if len(tl) >= k:
                    out.add(tl)
                else:
                    for s in _suff(items[:-1], k - len(tl)):
                        out.add(s + tl)
    else:
        for s in _suff(items[:-1], k - 1):
            out.add(s + last)
    return out


def _pref(items, k):
    """the possible first-k atoms of the expansions of `items` (a result shorter than k is a whole expansion)"""
    if k <= 0 or not items:
        return {""}
    first = items[0]
    out = set()
    if isinstance(first, tuple):
        for alt in first[1]:
            for hd in _pref(alt, k):
                if len(hd) >= k:
                    out.add(hd)
                else:
                    for s in _pref(items[1:], k - len(hd)):
                        out.add(hd + s)
    else:
        for s in _pref(items[1:], k - 1):
            out.add(first + s)
    return out


def _join(outer, local, k=3):
    out = set()
    for tl in local:
        if len(tl) >= k:
            out.add(tl)
        else:
            for s in outer:
                out.add((s + tl)[-k:])
    return out


def _star_before_group(p):
    """after splicing alternatives of earlier groups, the text directly before the `{` of some group can end with an
    unescaped `*` or with `**/` (the tails doublestar treats as zero-length only when nothing follows them)"""
    def walk(items, outer):
        for k, it in enumerate(items):
            if isinstance(it, tuple):
                pre = _join(outer, _suff(items[:k], 3))
                if any(s.endswith("*") for s in pre):
                    return "star-before-group"
                if any(s.endswith("**/") for s in pre):
                    return "doublestar-slash-before-group"
                if any(s.endswith("/") for s in pre) and any(h.startswith("**") for a in it[1] for h in _pref(list(a) + list(items[k + 1:]), 2)):
                    return "slash-before-doublestar-group"
                for a in it[1]:
                    r = walk(a, pre)
                    if r:
                        return r
        return None
    try:
        return walk(_parse(p), {""})
    except Exception:
        return None


def _syn_expand(p, cap=20000):
    """the syntactic brace expansion of the pattern text (alternatives substituted, nothing else changed), written without
    reference to the Go code; None if it is larger than cap"""
    pos = 0

    def seq(depth):
        nonlocal pos
        outs = [""]
        while pos < len(p):
            c = p[pos]
            if c == "\\":
                piece = [p[pos:pos + 2]]
                pos += 2
            elif c == "{":
                pos += 1
                piece = list(seq(depth + 1))
                while pos < len(p) and p[pos] == ",":
                    pos += 1
                    piece += seq(depth + 1)
                pos += 1  # closing brace
            elif c in ",}" and depth > 0:
                return outs
            else:
                piece = [c]
                pos += 1
            if len(outs) * len(piece) > cap:
                raise OverflowError
            outs = [a + b for a in outs for b in piece]
        return outs

    try:
        return set(seq(0))
    except OverflowError:
        return None


def _unescaped_meta(v):
    """the variant text contains an unescaped [ ] { } or ends in a dangling backslash"""
    k = 0
    while k < len(v):
        if v[k] == "\\":
            if k + 1 >= len(v):
                return True
            k += 2
            continue
        if v[k] in "[]{}":
            return True
        k += 1
    return False


def classify(case):
    i = case.get("input") or {}
    o = case.get("observed") or {}
    if i.get("kind") != "pat" or not o.get("accepted"):
        return None
    j = o.get("json") or {}
    if not j.get("accepted") or j.get("num_variants") != o.get("num_variants") \
            or j.get("raw_count_capped_at_1001") != j.get("num_variants"):
        return None          # entry points that disagree (accept/reject or count) are never a known finding
    n = o.get("num_variants")
    if o.get("enumerated") is False:
        return None          # an accepted pattern whose reported count is not in 1..1000 is never a known finding
    if n != len(o.get("raw") or []) or n != len(o.get("variants") or []):
        return None          # a count failure is never a known finding
    bad = [p for p in (o.get("paths") or []) if p["orig"] != any(p["var"] or [])]
    if not bad:
        return None
    # a rendered variant with an unescaped bracket/brace, or one that is not itself a stable pattern, is a different failure
    if not o.get("variants_stable", False) or any(_unescaped_meta(v) for v in (o.get("variants") or [])):
        return None
    # the recorded classes are about HOW an expansion is matched/rendered. A variant set that lacks (or adds) an alternative
    # of the syntactic expansion of the pattern text is a different failure and is never a known finding.
    syn = _syn_expand(i.get("pattern", ""))
    if syn is None or syn != set(o.get("raw") or []):
        return None
    if o.get("rewritten"):
        return "render-rewrites-expansion"
    return _star_before_group(i.get("pattern", ""))


SPEC = dict(
    prop="C37",
    coq_targets=["props/C37.vo"],
    drivers=[
        dict(name="patterns", kind="test", pkg="./interfaces/prompting/patterns", run="TestVerifC37",
             n=dict(quick=500, thorough=6000), timeout=dict(quick=300, thorough=1500),
             ev=dict(requires=["V.lib.Bytes", "V.models.Patterns"], case_type="Patterns.case",
                     mismatch="Patterns.mismatch", monitor="Patterns.monitor_fail")),
    ],
    classify=classify,
    rule=("every pattern goes through BOTH entry points that produce a PathPattern (ParsePathPattern and json.Unmarshal -> UnmarshalJSON; `grep .parse(` finds no other); "
          "pat cases: 6 limit patterns (999, 1001 = 7*11*13, 1024, 3072 expansions, one group of 1001 alternatives, 1000 x 2), 8 fixed witnesses (non-normal-form patterns, 64 groups); ALL patterns `/` + <= 3 (quick) / <= 4 (thorough) "
          "tokens over {a, b, /, *, ?, {, `,`, }, **}, each against ALL clean paths (no empty segment) of length <= 3 over a b / plus /a/b /a/a /b/a /aab /ab/ /a/b/ (quick) / ALL clean paths of length <= 4 (thorough); "
          "5 fixed + every 10th random case from the nested-group family {{X},{X,y}} / {{X,y},{X}} / {p{X},p{X,y}} (alternatives sharing a "
          "prefix of alternatives, either order, optional third alternative, heads /foo/ /Pictures/ ..., tails /x /** .bak) against one "
          "path per alternative including paths only the extra alternative y matches; "
          "7 fixed + every 10th random case from the escaped-metacharacter family (literals over `ab[]*?{},\\` fully escaped, alone / "
          "in a group / before a wildcard) against paths containing those literal bytes and paths an unescaped reading would match "
          "(`/foo/a` for `/foo/\\[a\\]`); "
          "random patterns of 1-4 segments (literals, *, **, prefix*/*suffix, ?, nested groups up to depth 3 with empty "
          "alternatives, escapes of * ? { } , [ ] and backslash, star runs, trailing / and {,/} /** /**/ /**/* endings), each "
          "against paths instantiated from its own rendered variants (with and without trailing slash) and a random path; a "
          "malformed stream (unbalanced braces, trailing backslash, brackets, 995-1002 nested braces, 512/1024/2048/1000/1100 "
          "variants, duplicate alternatives). prec cases: a random clean path of 1-4 segments and up to 4 distinct brace-free "
          "generalisations of it (segments replaced by *, **, prefix*, *suffix, ?, in*fix; /** /**/ * endings) that match it: "
          "Compare for all ordered pairs and HighestPrecedencePattern for ALL permutations. Non-trivial = accepted pattern "
          "with groups or paths / at least 2 variants."),
    exhaustive=dict(quick=True, thorough=True),
    trusted_base=[
        "hand-written model coq/models/Patterns.v of interfaces/prompting/patterns (scan, parseSeq/parseAlt as a shift-reduce pass, optimize, nodeEqual, NumVariants in saturating int64, Render/NextVariant enumeration order, prepareVariantForParsing, parsePatternVariant, Compare, HighestPrecedencePattern), tied by the differential run (harness/overlay/interfaces/prompting/patterns/zz_verif_c37_test.go)",
        "doublestar.Match v4.6.1 (third party) is ported function by function as `ds_match` (doMatchWithSeparator, isZeroLengthPattern, indexMatchedClosingAlt, indexNextAlt; no character classes, ASCII, pattern errors = no match) and PathPatternMatches as `path_pattern_matches`; the port is pinned by the differential run: its verdict is compared with the real PathPatternMatches for the original pattern and for every rendered variant on every generated path. The guarded match theorem keeps a generic matcher `gm`; the refuted statements are closed facts about the port",
        "regexp submatching is NOT modelled: the driver reads the submatches of each variant's regex and the model's Compare takes them as input; the precedence theorems hold for an arbitrary decomposition",
        "patterns and paths are ASCII (the Go code iterates runes; the literal U+2051 escaping of prepareVariantForParsing is not exercised)",
    ],
    assumptions=[
        "PARTIAL: `pattern matches path iff some rendered variant matches` is proved only relative to a hypothesis on doublestar (groups = try every alternative) and for normal-form patterns; unconditionally it is monitored on the implementation. Count = enumeration, limit, rejection of malformed patterns, Compare sign-antisymmetry/transitivity and order independence of HighestPrecedencePattern are proved in full (unbounded).",
        "the count overflow (former key variant-count-wraps-int64) is repaired in /repo commit 1160e46: NumVariants saturates at math.MaxInt; the model follows, the limit theorem is unguarded and the 64-group pattern is a regression case (rejected)",
        "GUARD (finding 12, keys render-rewrites-expansion / star-before-group / doublestar-slash-before-group / slash-before-doublestar-group): the match theorem assumes normal form and expansion-like group handling",
        "order independence assumes Compare returns 0 only between equal variants (monitored on every generated pair)",
        "paths are clean (no `//`), as the callers pass them",
    ],
)
