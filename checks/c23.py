"""C23 — security profile files are synchronised exactly and fail closed (DESIGN.md §2 C23)."""


def classify(case):
    return None


SPEC = dict(
    prop="C23",
    disabled="under construction",
    coq_targets=["props/C23.vo"],
    drivers=[
        dict(name="syncdir", kind="main", pkg="./zzverif/c23",
             n=dict(quick=1200, thorough=12000), timeout=dict(quick=300, thorough=1500),
             ev=dict(requires=["V.lib.Bytes", "V.models.SyncDir"], case_type="SyncDir.case",
                     mismatch="SyncDir.mismatch", monitor="SyncDir.monitor_fail")),
    ],
    classify=classify,
    rule="",
    exhaustive=dict(quick=True, thorough=True),
    trusted_base=[],
    assumptions=[],
)
