"""C23 — security profile files are synchronised exactly and fail closed (DESIGN.md §2 C23)."""


def classify(case):
    return None


SPEC = dict(
    prop="C23",
    coq_targets=["props/C23.vo"], model_targets=["models/SyncTree.vo"],
    drivers=[
        dict(name="syncdir", kind="main", pkg="./zzverif/c23",
             n=dict(quick=200, thorough=1000), timeout=dict(quick=300, thorough=1500),
             ev=dict(requires=["V.lib.Bytes", "V.models.SyncDir"], case_type="SyncDir.case",
                     mismatch="SyncDir.mismatch", monitor="SyncDir.monitor_fail")),
        dict(name="synctree", kind="main", pkg="./zzverif/c23", env=dict(VERIF_C23_MODE="tree"),
             n=dict(quick=100, thorough=600), timeout=dict(quick=300, thorough=1500),
             ev=dict(requires=["V.lib.Bytes", "V.models.SyncDir", "V.models.SyncTree"], case_type="SyncTree.case",
                     mismatch="SyncTree.mismatch", monitor="SyncTree.monitor_fail")),
    ],
    classify=classify,
    rule=("real osutil.EnsureDirStateGlobs / EnsureDirState (and through them EnsureFileState, AtomicWrite, AtomicSymlink) on "
          "temp directories. (a) ALL combinations of 9 initial nodes (absent, regular with right/wrong content/mode, symlink to an "
          "identical file / dangling / to a directory, empty and non-empty directory in the way) x 8 desired states (absent, regular "
          "with State() failing at call 0/1/2/3, symlink, symlink failing at the write, unsupported type, osutil.FileReference / FileReferencePlusMode to a file, to a missing file, to a directory) for one managed name "
          "(quick) and for two managed names (thorough, 5184 cases) next to an unrelated file; (b) random directories over a pool "
          "of 10 names and 10 glob patterns (1-2 globs, literal, *, ?), wrong contents/modes, symlinks, directories in the way, "
          "non-empty directories (os.Remove fails), umask 0/022/027/077 with modes the umask clears, names that do not match or "
          "have a path component, State() failing at the n-th call of a random entry; the visiting order of the content map is "
          "observed through the FileState values and fed to the model; (c) filepath.Match on 160 (glob, name) pairs against the "
          "hand model of globs. Compared: directory listing after the call (type, content, permission bits, symlink target), "
          "changed, removed, err != nil. Non-trivial = something changed/removed or an error. "
          "Driver synctree: real osutil.EnsureTreeState on temp trees over 6 directory paths (depth <= 3, some created by the call), "
          "5 file names, 1-2 globs, stale matching files in directories without content, State() failing at the n-th call of a random "
          "entry of a random directory, directory paths with a glob-matching component / bad file names; the order of the content "
          "directories and of the entries inside each is observed through the FileState values; compared file by file over the "
          "whole tree, plus changed, removed, err."),
    exhaustive=dict(quick=True, thorough=True),
    trusted_base=[
        "hand-written model coq/models/SyncDir.v of osutil/syncdir.go, tied by the differential run (harness/overlay/zzverif/c23/main.go)",
        "the kernel file system and os.* / filepath.Glob / filepath.Match are modelled (name -> node map; globs limited to literal bytes, * and ?), validated on the generated cases only",
        "hand-written model coq/models/SyncTree.v of osutil/synctree.go on top of SyncDir.v, tied by the same driver in tree mode (VERIF_C23_MODE=tree)",
        "AtomicWrite/AtomicSymlink are modelled as one atomic replace that fails only when a directory is in the way; their temporary files are not modelled (a leaked one would show up in the compared listing)",
    ],
    assumptions=[
        "the managed directory exists and is writable (root in the sandbox); the only os.Remove failure modelled is a non-empty directory",
        "symlinks in the managed directory point outside it (the outside table), never at another managed name",
        "glob patterns without character classes / escapes; content names other than `/`",
        "EnsureTreeState: no directory name in the tree matches the globs (the documented caller obligation) and no file is in the way of a directory to create (MkdirAll failure not modelled); WHICH emptied/empty directories are removed depends on the map iteration order (cumulative `removed` test in the Go code), is modelled with explicit orders but not compared by the tie (trees are compared file by file)",
        "failure injection is through FileState.State() errors and directories in the way; a reader failing in mid-copy and ENOSPC are not injected",
    ],
)
