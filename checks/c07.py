"""C07 — serialized task kinds never run concurrently (DESIGN.md §2 C07)."""


def classify(case):
    # scenarios of the `cleanup` driver are evaluated by Blocked.cleanup_monitor_fail only, which is true of exactly one
    # class: a cleanup goroutine exists while the update-gadget-assets handler executes. Violations among do/undo
    # handlers are evaluated by the other monitors (drivers blocked / run, same scenarios included) and are never keyed.
    i = case.get("input") or {}
    if isinstance(i, dict) and i.get("mode") == "cleanup":
        return "cleanup-starts-next-to-gadget-update"
    return None


_EV = dict(requires=["V.lib.Bytes", "V.models.Blocked"])

SPEC = dict(
    prop="C07",
    gens=[dict(name="BlockedKinds", cmd=["go", "run", "-C", "translators", ".", "blockedkinds"],
               what="task kinds named by the four blocked predicates: ifacestate's taskKinds, run-hook, prerequisites, update-gadget-assets")],
    drivers=[
        dict(name="blocked", kind="test", pkg="./overlord/state", run="TestVerifC07Blocked",
             n=dict(quick=300, thorough=20000), timeout=dict(quick=300, thorough=1200),
             ev=dict(_EV, case_type="Blocked.case", mismatch="Blocked.mismatch", monitor="Blocked.monitor_fail")),
        dict(name="order", kind="test", pkg="./overlord/state", run="TestVerifC07BlockedOrder",
             n=dict(quick=100, thorough=5000), timeout=dict(quick=300, thorough=1200),
             ev=dict(_EV, case_type="Blocked.case", mismatch="Blocked.mismatch", monitor="Blocked.monitor_fail")),
        dict(name="run", kind="test", pkg="./overlord/state", run="TestVerifC07Run",
             n=dict(quick=60, thorough=1500), timeout=dict(quick=300, thorough=1800),
             ev=dict(_EV, case_type="list Blocked.case", mismatch="(existsb Blocked.mismatch)",
                     monitor="(existsb Blocked.monitor_fail)")),
        dict(name="setblocked", kind="test", pkg="./overlord/state", run="TestVerifC07SetBlocked",
             n=dict(quick=20, thorough=400), timeout=dict(quick=300, thorough=1800),
             ev=dict(_EV, case_type="list Blocked.case", mismatch="(existsb Blocked.mismatch)",
                     monitor="(fun _ => false)")),
        dict(name="cleanup", kind="test", pkg="./overlord/state", run="TestVerifC07Cleanup",
             n=dict(quick=30, thorough=600), timeout=dict(quick=300, thorough=1800),
             ev=dict(_EV, case_type="list Blocked.case", mismatch="(existsb Blocked.mismatch)",
                     monitor="(existsb Blocked.cleanup_monitor_fail)")),
    ],
    classify=classify,
    rule=("one real state.TaskRunner per world with the real hookstate, snapstate, ifacestate and devicestate managers "
          "constructed in a temporary root (they register the four predicates). blocked: the registered predicates "
          "evaluated one by one (in-package accessor over r.blocked) on ALL pairs (candidate, single running task) over 19 "
          "task shapes (15 kinds incl. every kind class, run-hook with snap a / b / no hook-setup / undecodable hook-setup, a "
          "non-hook task carrying a hook-setup) plus random candidates against 0-4 random running tasks. run: 1-6 changes of "
          "1-4 tasks of random kinds (independent or chained), half of the scenarios with a copy-snap-data task so that "
          "cleanup goroutines occur; all kinds re-registered with stub handlers that block until released; a generated script "
          "alternates TaskRunner.Ensure with completions in generated order. Recorded per Ensure: tombs before (cleanup flag), "
          "handler tombs after, runnable tasks left idle; and the set of executing handlers at every handler start. "
          "After every Ensure also all tombs with their cleanup flag. Two scripted scenarios reproduce a cleanup goroutine next to "
          "an executing update-gadget-assets handler (same pass; later pass after Change.Abort of a change with a done "
          "copy-snap-data task) - they run in `run` (handler monitor, quiet) and in `cleanup` (cleanup monitor, known finding). "
          "order: the same candidate/running inputs against a second runner whose managers were constructed in the order "
          "hookstate, devicestate, ifacestate, snapstate (other AddBlocked order): disjunction of the verdicts compared. "
          "Each Ensure pass also records r.someBlocked (compared with: some runnable task left idle). Same-change family: each "
          "conflicting pair as two independent tasks of ONE change. "
          "Restart family (scripted, run): for each conflicting pair X executing, snapd restarts (fresh TaskRunner + managers over "
          "the same state, no goroutines), X (Doing) and Y both candidates: exactly one starts; random scripts restart too. "
          "setblocked: scenarios that begin with TaskRunner.SetBlocked(never blocked | one task at a time), later restart. "
          "Abort family (scripted, run): for each of 8 conflicting pairs (two hooks of one snap, connect/disconnect, "
          "setup-profiles/auto-connect, two prerequisites, gadget update vs other in both directions, two gadget updates, hook "
          "vs gadget update) the first handler is executing when its change is aborted by the user (Change.Abort) or its lane "
          "by a failing sibling task, the conflicting task of another change becomes runnable, two Ensure passes, release, two "
          "more; stubs keep executing after tomb.Kill. Random scripts also abort changes (10%) and let handlers fail (10%). "
          "cleanup: the scripted scenarios plus random scenarios that always contain a cleanup-capable change. "
          "Non-trivial = a predicate returned true (blocked) / a pass left a runnable task idle (run)."),
    exhaustive=dict(quick=True, thorough=True),
    trusted_base=[
        "translators/blockedkinds.go (go/ast): kinds passed to ifacestate's addHandler closure (checks the closure records them in taskKinds and the predicate consults taskKinds), the single kind literal compared with Kind() in the hookstate, snapstate and devicestate predicates",
        "hand-written model coq/models/Blocked.v of the four predicates and of the tomb/running bookkeeping of TaskRunner.Ensure/run/clean, tied by the differential run (harness/overlay/overlord/state/zz_verif_c07_test.go + zz_verif_c07_export_test.go)",
        "the specification's own list of serialized kinds (Blocked.spec_iface_kinds etc.) is hand-written from the property text; C07_spec_excl_invariant checks on every run that the kinds extracted from the code cover it",
        "the driver tells cleanup tombs from handler tombs by the task status (ready = cleanup)",
    ],
    assumptions=[
        "PARTIAL w.r.t. the Go runtime: the theorems are about r.tombs (tasks with a do/undo goroutine). That this is the set of executing handlers at every instant relies on the runner's locking (Ensure holds r.mu and the state lock during the whole pass; a finishing goroutine deletes its tomb under both); modelled by atomic EEnsure / EDone events, observed by the driver's handler-start snapshots, not verified",
        "KNOWN FINDING cleanup-starts-next-to-gadget-update: TaskRunner.clean neither consults the blocked predicates nor adds to `running`, so a cleanup goroutine can start in the same pass as, or while, update-gadget-assets executes (C07_gadget_alone_refuted_by_cleanup, reproduced on the real runner on every run). C07_gadget_alone is proved for histories without cleanups; among do/undo handlers the update is always alone (C07_gadget_alone_among_handlers_partial); it is never started while any tomb exists (C07_gadget_waits_for_running). The driver uses a stub cleanup registered with AddCleanup for the real kind copy-snap-data; real kinds with cleanups: copy-snap-data, prepare-remodeling, set-model, create-recovery-system, finalize-recovery-system",
        "a run-hook task whose hook-setup cannot be read is not serialized by the hook predicate (Get error => not blocked / ignored), as in the code",
        "stub handlers ignore tomb.Dying() so that a handler keeps executing after its task was aborted (real handlers are only asked to stop); Change.Abort in random scripts is skipped when the change already has a Done task (DESIGN.md finding 11: Abort can panic there)",
        "which tasks are candidates in a pass (status, wait/halt dependencies, scheduled time) is an arbitrary input of the model (any list of candidates in any order), not modelled",
        "TaskRunner.SetBlocked (replaces all predicates; never called by production code) is modelled (set_blocked) and exercised by driver `setblocked` with two driver predicates (never blocked / one task at a time), compared with the model pass by pass; the exclusions are not promised after it, so that driver has no property monitor",
        "restarts are exercised as a fresh TaskRunner with freshly constructed managers over the SAME in-memory state (tasks keep their Doing status, the old runner's goroutines stay parked for ever); reloading the state from JSON at that point is C04/C05's subject",
    ],
)
