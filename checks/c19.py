"""C19 — stored assertions only move forward in revision (DESIGN.md §2 C19)."""


def classify(case):
    """no recorded defect: the "." / ".." primary-key defect of the filesystem backstore found by this check is repaired
    in /repo (commit 2f752eb, KNOWN_FINDINGS `fixed:`); every disagreement is a violation."""
    return None


SPEC = dict(
    prop="C19",
    coq_targets=["props/C19.vo"],
    drivers=[
        dict(name="stores", kind="test", pkg="./asserts", run="TestVerifC19",
             n=dict(quick=120, thorough=3000), timeout=dict(quick=600, thorough=3000),
             ev=dict(requires=["V.lib.Bytes", "V.models.AssertStore"], case_type="AssertStore.case",
                     mismatch="AssertStore.mismatch", monitor="AssertStore.monitor_fail")),
    ],
    classify=classify,
    rule=("in-package driver (package asserts_test): every history is run on the real memory backstore, the real filesystem "
          "backstore (fresh temp dir) and a real Database (memory backstore, trusted account `canonical` + its key, predefined "
          "account `predefined`), all assertions really signed (test key) and carrying a `tag` header naming the add that "
          "produced them. Histories: ALL 216 sequences of three adds to one key over revisions 0..2 x formats 0..1, each add "
          "followed by gets at both formats; plus random histories of 4-30 operations over 4 types (test-only: max format 1; "
          "test-only-2; test-only-seq: sequence-forming, max format 2; account), 3 ids per key component, revisions 0..5, "
          "formats 0..max (1 in 8 above the supported format, with revisions of their own so that no ties arise), gets with "
          "maxFormat 0..max+1, searches with wildcard components, sequence lookups with after -1..6 and maxFormat 0..3, account "
          "adds clashing with the trusted / predefined accounts. Key values: one third of the random keys and a dedicated sweep use 60 special values (each of `$ & + = : @ space , ; % ? # * [ ] \\ ! ' ( ) { } | < > ^ backquote doublequote`, strings that are escapes of each other such as `a+b` / `a b` / `a%2Bb` / `a%20b`, upper/lower case, non-ASCII, `...`, `active`, `active.1`, `0:a`) as the key of a one-key type, as either component of a two-part key and as the sequence key; `.` and `..` in six histories of their own (regression cases of the repaired defect, judged like all others); plus `esc` cases: the directory name the filesystem backstore creates for each special value and for 60 random key values, compared with the escape model. After every history each stored key is looked up by Get, by Search with all primary headers, with each one left out, with none, and (sequence-forming) by SequenceMemberAfter, on all three implementations. Compared per operation and per implementation: "
          "accepted / revision error / unsupported format / clash / found(tag set) / not found / other error. Non-trivial = at "
          "least two accepted and one refused add."),
    exhaustive=dict(quick=True, thorough=True),
    trusted_base=[
        "hand-written model coq/models/AssertStore.v of asserts/membackstore.go, asserts/fsbackstore.go and Database.Add/find/findMany/FindSequence, tied by the differential run (harness/overlay/asserts/zz_verif_c19_test.go)",
        "one model serves both backstores; that the memory and the filesystem store agree is established by both agreeing with the model on every observed result (and checked directly by the monitor)",
        "max_supp (maximum supported format per type) is written into the model for the four driver types and validated by the run",
        "signature / account-key / timestamp checks of Database.Check are outside this property (C18); every assertion in the run is validly signed by the trusted key",
    ],
    assumptions=[
        "C19_highest_added is stated for histories whose formats are supported (what Database.Add enforces); assertions with an unsupported format can only be put into a backstore directly, where a later put of the same format may replace a higher revision (modelled and tied, excluded from the theorem)",
        "equal revisions stored under two formats (only reachable through such direct puts) make the memory backstore's answer depend on Go map order; the generator avoids that tie",
        "lookups of the database's own trusted/predefined entries are not exercised (only the clash rule is)",
        "Search/FindMany: C19_search_sound, C19_search_complete, C19_search_after_put; C19_search_any_injective_escape: searching by escaped file names equals the model search for EVERY injective escape function (the real url.QueryEscape is validated against it on the character sweep)",
        "the escape of the filesystem backstore is modelled (query_escape, escape_comp) and tied: for every special value and 60 random strings the driver stores a one-key assertion in a fresh filesystem backstore and reads the name of the directory that was created; C19_escape_injective / C19_escape_safe / C19_distinct_keys_distinct_files are proved for all byte strings; filepath.Join is modelled by clean_path (`.` dropped, `..` pops)",
        "PARTIAL: stacked databases (WithStackedBackstore) are not modelled",
    ],
)
