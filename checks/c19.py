"""C19 — stored assertions only move forward in revision (DESIGN.md §2 C19)."""


def classify(case):
    return None


SPEC = dict(
    prop="C19",
    coq_targets=["props/C19.vo"],
    drivers=[
        dict(name="stores", kind="test", pkg="./asserts", run="TestVerifC19",
             n=dict(quick=120, thorough=3000), timeout=dict(quick=600, thorough=3000),
             ev=dict(requires=["V.lib.Bytes", "V.models.AssertStore"], case_type="AssertStore.case",
                     mismatch="AssertStore.mismatch", monitor="AssertStore.monitor_fail")),
    ],
    classify=classify,
    rule=("in-package driver (package asserts_test): every history is run on the real memory backstore, the real filesystem "
          "backstore (fresh temp dir) and a real Database (memory backstore, trusted account `canonical` + its key, predefined "
          "account `predefined`), all assertions really signed (test key) and carrying a `tag` header naming the add that "
          "produced them. Histories: ALL 216 sequences of three adds to one key over revisions 0..2 x formats 0..1, each add "
          "followed by gets at both formats; plus random histories of 4-30 operations over 4 types (test-only: max format 1; "
          "test-only-2; test-only-seq: sequence-forming, max format 2; account), 3 ids per key component, revisions 0..5, "
          "formats 0..max (1 in 8 above the supported format, with revisions of their own so that no ties arise), gets with "
          "maxFormat 0..max+1, searches with wildcard components, sequence lookups with after -1..6 and maxFormat 0..3, account "
          "adds clashing with the trusted / predefined accounts. Compared per operation and per implementation: "
          "accepted / revision error / unsupported format / clash / found(tag set) / not found / other error. Non-trivial = at "
          "least two accepted and one refused add."),
    exhaustive=dict(quick=True, thorough=True),
    trusted_base=[
        "hand-written model coq/models/AssertStore.v of asserts/membackstore.go, asserts/fsbackstore.go and Database.Add/find/findMany/FindSequence, tied by the differential run (harness/overlay/asserts/zz_verif_c19_test.go)",
        "one model serves both backstores; that the memory and the filesystem store agree is established by both agreeing with the model on every observed result (and checked directly by the monitor)",
        "max_supp (maximum supported format per type) is written into the model for the four driver types and validated by the run",
        "signature / account-key / timestamp checks of Database.Check are outside this property (C18); every assertion in the run is validly signed by the trusted key",
    ],
    assumptions=[
        "C19_highest_added is stated for histories whose formats are supported (what Database.Add enforces); assertions with an unsupported format can only be put into a backstore directly, where a later put of the same format may replace a higher revision (modelled and tied, excluded from the theorem)",
        "equal revisions stored under two formats (only reachable through such direct puts) make the memory backstore's answer depend on Go map order; the generator avoids that tie",
        "lookups of the database's own trusted/predefined entries are not exercised (only the clash rule is)",
        "PARTIAL: FindMany/Search is modelled and tied, no theorem; stacked databases (WithStackedBackstore) are not modelled",
    ],
)
