"""C24 — all components agree on which snap, instance, component and tag names are valid (DESIGN.md §2 C24)."""
import os
from vlib import core

HERE = os.path.dirname(os.path.abspath(__file__))

SC_SOURCES = ["snap.c", "error.c", "string-utils.c", "utils.c", "cleanup-funcs.c", "panic.c"]


def build_c_driver(spec, res, scratch, tier, seed):
    """compile the UNMODIFIED C sources of snap-confine's and snap-update-ns' validators, from the repository under
    test, together with checks/c24_cdriver.c into <scratch>/c24_cdriver. Nothing is copied or cut out of the sources:
    the only additions are an empty config.h and a sys/capability.h that includes <linux/capability.h> (the libcap
    header is not installed here; bootstrap.c only needs the kernel structures)."""
    inc = os.path.join(scratch, "c24inc")
    os.makedirs(os.path.join(inc, "sys"), exist_ok=True)
    open(os.path.join(inc, "config.h"), "w").write("/* empty: C24 driver build */\n")
    open(os.path.join(inc, "sys", "capability.h"), "w").write("#include <linux/capability.h>\n")
    priv = os.path.join(core.REPO, "cmd", "libsnap-confine-private")
    srcs = [os.path.join(priv, f) for f in SC_SOURCES] + [os.path.join(core.REPO, "cmd", "snap-update-ns", "bootstrap.c")]
    out = os.path.join(scratch, "c24_cdriver")
    cmd = ["gcc", "-O1", "-w", "-D_GNU_SOURCE", "-I", inc, "-I", os.path.join(core.REPO, "cmd"),
           "-I", os.path.join(core.REPO, "cmd", "snap-update-ns"), "-o", out, os.path.join(HERE, "c24_cdriver.c")] + srcs
    rc, log = core.sh(cmd, timeout=300)
    res.cmds.append("gcc -I<stub config.h, sys/capability.h> -I/repo/cmd checks/c24_cdriver.c cmd/libsnap-confine-private/{%s} "
                    "cmd/snap-update-ns/bootstrap.c -o <scratch>/c24_cdriver" % ",".join(SC_SOURCES))
    ok = rc == 0 and os.path.exists(out)
    if ok:  # smoke test of the protocol on a fixed request
        rc2, ans = core.sh([out], inp="N x666f6f\nT x736e61702e666f6f2e626172 x666f6f -\n", env=dict(os.environ, LC_ALL="C"), timeout=30)
        ok = rc2 == 0 and ans.split() == ["111011", "1"]
        log += "\nsmoke test answer: %r" % ans
    res.ob("C driver builds from the unmodified snap.c / bootstrap.c of the repository and answers", "driver", ok, log)


def classify(case):
    """the one recorded finding: the daemon puts no upper bound on app / hook names, snap-confine refuses tags longer than
    256 bytes. Only that exact class (a generated tag, longer than 256 bytes) is keyed."""
    i = case.get("input") or {}
    o = case.get("observed") or {}
    if i.get("kind") == "gen" and isinstance(o, dict) and o.get("taglen", 0) > 256:
        return "generated-tag-longer-than-256"
    return None


SPEC = dict(
    prop="C24",
    gens=[dict(name="NamingRegexes", cmd=["go", "run", "-C", "translators", ".", "namingregexes"],
               what="regex literals of snap/naming/validate.go and of sc_security_tag_validate (snap.c), length limits of "
                    "validate.go, snap.h, snap.c, bootstrap.c")],
    drivers=[
        dict(name="names", kind="main", pkg="./zzverif/c24",
             n=dict(quick=600, thorough=12000), timeout=dict(quick=300, thorough=1800),
             ev=dict(requires=["V.lib.Bytes", "V.models.Naming"], case_type="Naming.case",
                     mismatch="Naming.mismatch", monitor="Naming.monitor_fail")),
    ],
    extra=build_c_driver,
    classify=classify,
    rule=("name: EVERY string of length <= 4 (thorough: <= 5) over the covering alphabet `a z 0 9 - _ . + A`, plus names, "
          "name_key, name_key_, name_key_x and name+component strings at the length limits (1, 2, 39-41, 50-54, 60 / key "
          "0, 1, 9-13 / component 1, 2, 39-41), plus random mostly-valid names, instance names and components and "
          "mutations of them (junk bytes incl. control and >= 0x80), each through ValidateSnap, ValidateInstance, "
          "SplitFullComponentName+ComponentRef.Validate and the real C sc_snap_name_validate, sc_instance_name_validate, "
          "sc_instance_key_validate, sc_snap_component_validate, validate_snap_name, validate_instance_name; gen: tags "
          "produced by AppInfo.SecurityTag / HookInfo.SecurityTag from random names (incl. 180-260 byte app/hook names) "
          "through the real sc_security_tag_validate; tag: tags assembled from parts and mutated, asked about matching "
          "and non-matching (instance, component) pairs, through ParseSecurityTag and sc_security_tag_validate; near-miss "
          "pairs: 7 bases x {hook, app}, tags from the real SecurityTag() functions and assembled, asked about pairs whose "
          "instance name, instance key or component is a proper prefix, a one/two byte extension or a one-byte variation "
          "of the tag's, in both directions. "
          "Non-trivial = some validator accepts."),
    exhaustive=dict(quick=True, thorough=True),
    trusted_base=[
        "translators/regexes.go: prints the regex literals (parsed with Go's regexp/syntax) and the length limits of "
        "validate.go / snap.c / snap.h / bootstrap.c",
        "hand-written models coq/models/Naming.v of the Go validators and of the C scanners, tied by the differential run "
        "(harness/overlay/zzverif/c24/main.go + checks/c24_cdriver.c around the unmodified C sources compiled with gcc)",
        "Go regexp and glibc regexec are replaced by the derivative matcher rmatch (coq/lib/Regex.v, proved equal to the "
        "denotational semantics) on the same expression; regexec's submatches 1 and 7 are modelled by position "
        "(delimited by . and +), validated against glibc by the differential run",
        "islower/isdigit of sc_instance_key_validate are taken in the C locale (snap-confine never calls setlocale)",
    ],
    assumptions=[
        "C strings: the C validators see the bytes before the first NUL; theorems about them quantify over byte lists "
        "where a NUL is an ordinary invalid byte, the differential run only passes NUL-free strings",
        "sc_snap_component_validate is modelled for snap_instance = NULL",
    ],
)
