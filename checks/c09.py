"""C09 — pruning removes only finished changes, with all their tasks; aborts only old unready ones (DESIGN.md §2 C09)."""


def classify(case):
    """no recorded finding: the panic of Prune's abort (DESIGN finding 11) is repaired in /repo (d3068df); a panic is an
    ordinary violation"""
    return None


SPEC = dict(
    prop="C09",
    drivers=[
        dict(name="prune", kind="test", pkg="./overlord/state", run="TestVerifC09Prune",
             n=dict(quick=100, thorough=20000), timeout=dict(quick=300, thorough=1500),
             ev=dict(requires=["V.models.Prune"], case_type="Prune.case",
                     mismatch="Prune.mismatch", monitor="Prune.monitor_fail")),
    ],
    classify=classify,
    rule=("random states built through the real API with the clock mocked per object (state.MockTime): 1-7 changes, each "
          "ready (tasks Done/Undone/Error/Hold) or unready (any mix of Do/Doing/Done/Undo/Undoing/Abort/Error/Hold, or no "
          "task at all), spawn 1-500 h and ready up to 50 h later (distinct ready times), 0-3 data attributes; 0-2 unlinked "
          "tasks, 0-2 warnings (1-900 h old), 0-2 notices (1-400 h old) besides the change-update notices the API records; "
          "then the real State.Prune with pruneWait 1-300 h, abortWait 1-400 h, maxReadyChanges 0-4, optionally a "
          "startOfOperation 1-300 h back and pending predicates registered for 0-3 attributes answering true for a random "
          "subset of the changes. Compared: changes left (and whether their ready time is set), tasks left with status, "
          "warnings and notices left, whether Prune panicked. Non-trivial = a change was removed or aborted."),
    exhaustive=dict(quick=False, thorough=False),
    trusted_base=[
        "hand-written model coq/models/Prune.v of State.Prune (overlord/state/state.go), tied by the differential run (harness/overlay/overlord/state/zz_verif_c09_test.go)",
        "sort.Sort(byReadyTime) is modelled as a stable insertion sort; the theorems hold for every sorted visiting order; the driver avoids equal ready times",
        "Change.AbortUnreadyLanes is modelled only for changes whose tasks are all in the default lane and not in Wait (then it rewrites every task and readiness is evaluated once afterwards, as /repo does since d3068df); the lane closure in general is C01's subject",
        "the clock: Prune reads time.Now(); the driver keeps every generated instant at least 29 minutes away from every limit",
    ],
    assumptions=[
        "the ready time of a change is set exactly when the change is ready (C03's invariant; the driver builds its states through the API so that it holds): the theorems speak about the ready time, which is what Prune reads",
        "task ids listed by a change are linked back to it (state built through AddTask)",
        "PARTIAL with respect to the abort: what AbortUnreadyLanes does to multi-lane changes is not modelled here; when it is invoked is",
    ],
)
