"""C32 — snapshot import and restore cannot escape or corrupt snap data (DESIGN.md §2 C32)."""


def classify(case):
    return None


SPEC = dict(
    prop="C32",
    coq_targets=["props/C32.vo"],
    drivers=[
        dict(name="snapshot", kind="test", pkg="./overlord/snapshotstate/backend", run="TestVerifC32Snapshot",
             n=dict(quick=80, thorough=3000), timeout=dict(quick=400, thorough=3000),
             ev=dict(requires=["V.lib.Bytes", "V.models.Snapshot"], case_type="Snapshot.case",
                     mismatch="Snapshot.mismatch", monitor="Snapshot.monitor_fail")),
    ],
    classify=classify,
    rule=("import: the real backend.Import (dirs.SetRootDir to a temp root, backendOpen replaced by a recorder because the "
          "members are not real snapshots) on tar streams built with archive/tar: member names from a grammar of set-id "
          "prefixes x rests with `..`, `../`, absolute, nested, empty, `.`, `//`, trailing slash, names without `_`, random "
          "strings over `ab._/`; regular files, directories, symlinks, content.json / export.json, 1..6 members, a junk "
          "header after k members (1/8), duplicate targets (same name, or same rest under another old set id, other body; 1/4 per "
          "member) and a pre-existing `<id>_old.zip`; 22 fixed corner names first (8 of them escape when the `../` check is weakened) "
          "and 2 fixed duplicate streams. Observed: the paths handed to backendOpen (= files written) with the file content at "
          "that moment, success, and whether a digest of the whole root outside the snapshots directory is unchanged. "
          "commit/cancel: members whose name contains BAD are rejected by the recorder standing in for Open + Check; the regular "
          "files below the snapshots directory after Import are listed (4 fixed streams: rejected member after accepted ones, member "
          "aimed at the lock file, no export.json, junk header). round trip (3 + n/25 cases): 1..3 REAL snapshot zips of one set, the "
          "real NewSnapshotExport + StreamTo, the stream parsed back with archive/tar, the real Import under another id with the "
          "real backendOpen = Open and Reader.Check; compared: the stream's members against the model's export_members, writes, final "
          "listing; monitored: every exported file reappears under the new id with identical content. "
          "restore: the real backend.Open + Reader.Restore (+ RestoreState.Cleanup / Revert) with the system tar on "
          "generated snapshot zips with 1..3 entries (archive.tgz, user/u1.tgz, user/u2.tgz; userLookup pointed at temp "
          "homes, tar run directly): archives with/without common and the revision directory, extra top-level entries; "
          "pre-existing parent missing / with any of common, revision dirs, other dirs, a stale backup; current revision "
          "unset / same / different; per entry corruption none / wrong recorded digest / gzip stream truncated at 0..95 % / member "
          "missing from the zip / one byte of the stored member flipped (zip checksum error); Reader.Check is called first, with no "
          "user list or one of {u1},{u2},{u1,u2},{nobody}; 15 fixed cases (second of three entries corrupted, each kind x each "
          "follow-up). Observed: result of Check, error of Restore, per parent the map name -> tree digest "
          "after the call (+ after Cleanup or Revert). Non-trivial = a file written or a rejected stream (import); a "
          "corrupted entry, several entries or a later Revert (restore)."),
    exhaustive=dict(quick=False, thorough=False),
    trusted_base=[
        "hand-written model coq/models/Snapshot.v of backend.go (import), reader.go (Restore, moveFile), restorestate.go (Revert, Cleanup), tied by the differential run (harness/overlay/overlord/snapshotstate/backend/zz_verif_c32_test.go)",
        "path.Clean / path.Join modelled on component lists; archive/tar reader, os.OpenFile(O_CREATE) success condition (target not a directory, parent directory exists) modelled; validated only by the differential run",
        "external tar modelled as an oracle (any extracted trees, any failure); SHA3/size comparison a boolean; directory trees are opaque digests; rename / RemoveAll modelled as atomic map updates",
        "backup names (restoreStateFilename, 9 random characters) modelled as fresh odd names, restoreState2orig as their inverse: the regular expression itself is not modelled",
        "the flat Created/Moved lists of RestoreState are modelled per parent directory (entries restore into pairwise distinct parents)",
    ],
    assumptions=["PARTIAL: external tar, path.Clean, the zip reader, rename atomicity and the random backup names are modelled, not verified (SHA3 idealised as content identity). Proved over the model: import inside (with contents and duplicates), nothing committed unless every member verifies (invalid member fails, failed import leaves no <id>_*.zip, committed import verified every member), export -> import round trip, restore failure/Revert identity, restore success (exact content of every name, C32_restore_success; the monitor predicate success_all is a corollary), mismatch before move, Check iff",
                 "failure of the second rename inside moveFile cannot be provoked on the real file system as root: covered by the theorem (every failure point), not by the tie",
                 "two entries never share a parent directory (distinct users have distinct homes)",
                 "import: Open + Reader.Check on the written members are an oracle (m_valid) in the import model; in the round-trip cases they are the real functions",
                 "import: pre-existing symbolic links inside the snapshots directory are outside the model (import itself never creates links or directories)"],
)
