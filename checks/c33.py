"""C33 — version comparison is a consistent Debian-style ordering (DESIGN.md §2 C33)."""

def classify(case):
    return None

SPEC = dict(
    prop="C33",
    gens=[dict(name="ChOrder", cmd=["go", "run", "-C", "translators", ".", "chorder"],
               what="the 256-entry chOrder table of strutil/chrorder.go")],
    drivers=[
        dict(name="pairs", kind="test", pkg="./strutil", run="TestVerifC33Pairs",
             n=dict(quick=1500, thorough=20000),
             ev=dict(requires=["V.lib.Bytes", "V.models.Version"], case_type="Version.case",
                     mismatch="Version.mismatch", monitor="Version.monitor_fail")),
        dict(name="triples", kind="test", pkg="./strutil", run="TestVerifC33Triples",
             n=dict(quick=1500, thorough=20000),
             ev=dict(requires=["V.lib.Bytes", "V.models.Version"], case_type="Version.tcase",
                     mismatch="(fun _ => false)", monitor="Version.tmonitor_fail")),
    ],
    classify=classify,
    rule=("pairs: ALL ordered pairs of strings of length <= 2 over the alphabet `01a.~-+:` (both directions run), plus "
          "random realistic versions paired with a mutation of themselves (10% also sent to /usr/bin/dpkg), plus an "
          "arbitrary-byte stream; triples: all triples of strings <= 2 over `0a.~-` plus random ones. Non-trivial = "
          "distinct non-empty valid operands (pairs) / a<=b<=c chain with distinct strings (triples)."),
    exhaustive=dict(quick=True, thorough=True),
    trusted_base=[
        "translators/chorder.go (go/ast): prints the chOrder literal of strutil/chrorder.go",
        "hand-written model coq/models/Version.v of strutil/version.go, tied by the differential run (harness/overlay/strutil/zz_verif_c33_test.go)",
        "reference model of dpkg's verrevcmp written from lib/dpkg/version.c; cross-checked against /usr/bin/dpkg on a sample",
    ],
    assumptions=["agreement with dpkg is proved for ALL structurally valid versions made of bytes 1..255, of any length (C33_matches_debian, proofs/VersionDpkg.v: simulation between the fragment loop of compareSubversion and the character loop of the reference model of dpkg's verrevcmp; the chOrder table enters through one fact checked on all 256x256 pairs of symbols). The reference model of verrevcmp is hand-written from lib/dpkg/version.c and cross-checked against /usr/bin/dpkg on a sample; the finite-domain check (strings <= 3 over `0a.~-`) is kept as a regression check. Transitivity (strict, both directions) and congruence of equality are proved for all NUL-free byte strings of any length (proofs/VersionOrder.v); reflexivity, sign flip, antisymmetry, totality, result range and epoch rejection for all byte strings.",
                 "strings containing a NUL byte are outside the version alphabet (the transitivity theorem assumes bytes in 1..255: NUL is the padding byte of cmpString; with NUL inside a fragment transitivity is not claimed)",
                 "dpkg agreement is stated for structurally valid versions: non-empty upstream part, non-empty revision after a hyphen (needed: against the empty string snapd orders `0` greater while dpkg orders it equal — C33_matches_debian_needs_nonempty; the empty string is not a Debian version)"],
)
