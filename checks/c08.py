"""C08 — notices are delivered exactly once to polling clients and only to their owner (DESIGN.md §2 C08)."""


def classify(case):
    return None


SPEC = dict(
    prop="C08",
    disabled="under construction",
    drivers=[
        dict(name="state", kind="main", pkg="./zzverif/c08",
             n=dict(quick=500, thorough=12000),
             ev=dict(requires=["V.lib.Bytes", "V.models.Notices"], case_type="Notices.case",
                     mismatch="Notices.mismatch", monitor="Notices.monitor_fail")),
    ],
    classify=classify,
    rule="",
    exhaustive=dict(quick=True, thorough=True),
    trusted_base=[],
    assumptions=[],
)
