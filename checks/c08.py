"""C08 — notices are delivered exactly once to polling clients and only to their owner (DESIGN.md §2 C08)."""


def classify(case):
    return None


SPEC = dict(
    prop="C08",
    gens=[dict(name="NoticeTypes", cmd=["go", "run", "-C", "translators", ".", "noticetypes"],
               what="notice types accepted by NoticeType.Valid, maxNoticeKeyLength, which notice fields State.MarshalJSON writes and State.UnmarshalJSON restores (notices, lastNoticeId, lastNoticeTimestamp), and every non-test place that sets AddNoticeOptions.Time")],
    drivers=[
        dict(name="state", kind="main", pkg="./zzverif/c08",
             n=dict(quick=150, thorough=12000),
             ev=dict(requires=["V.lib.Bytes", "V.models.Notices"], case_type="Notices.case",
                     mismatch="Notices.mismatch", monitor="Notices.monitor_fail")),
        dict(name="wait", kind="main", pkg="./zzverif/c08/wait",
             n=dict(quick=80, thorough=3000), timeout=dict(quick=300, thorough=1800),
             ev=dict(requires=["V.lib.Bytes", "V.models.Notices"], case_type="Notices.wcase",
                     mismatch="Notices.wmismatch", monitor="Notices.wmonitor_fail")),
        dict(name="api", kind="test", pkg="./daemon", run="TestVerifC08Api",
             n=dict(quick=120, thorough=8000),
             ev=dict(requires=["V.lib.Bytes", "V.models.Notices"], case_type="Notices.acase",
                     mismatch="Notices.amismatch", monitor="Notices.amonitor_fail")),
    ],
    classify=classify,
    rule=("state: histories driven through the real state.State (AddNotice with state.MockTime readings, Notices): ALL "
          "histories of length <= 3 (thorough: <= 5) over {add a same tick, add a clock -5 repeat-after 3, add b (other user) "
          "+2, add a +1 repeat-after 10, poll client 0, poll client 1, RESTART (last checkpoint payload -> state.ReadState, clients keep "
          "their cursors)}; three scripted restart histories (same-tick additions, poll, restart, additions at the same / an earlier "
          "/ a later clock reading, double restart); plus random histories of 3-30 operations (1 in 7 a restart, half of them with "
          "the clock not advancing or stepping back across it): 1-4 "
          "(user, type, key) combinations so notices reoccur, clock steps same tick / backwards / small / large in ns or ms, "
          "repeat-after 0 / inside / outside the window / negative, 4% malformed adds (invalid type, empty or 256-258 byte key, "
          "refresh-inhibit with key != -), 1 in 15 histories with explicit AddNoticeOptions.Time (compared with the model only), "
          "1-4 simulated clients with random user/types/keys filters following the cursor protocol (After := greatest "
          "last-repeated received, read from the JSON form). Observed after every op: the added notice (id, user, type, key, "
          "last-repeated, last-occurred, occurrences) or error; the list returned to the client. "
          "wait: real goroutines blocked in State.WaitNotices: two scripted and random histories of AddNotice (mocked clock, "
          "same tick / backwards, repeat-after), WaitNotices calls with generated filters (After around the current stamps), "
          "context cancellations and restarts; a call is known to be parked in sync.Cond.Wait before the next step (lock "
          "hand-over); after every step the real Notices(filter) of each blocked call decides whether it has to return now "
          "(then awaited, 3 s limit => recorded as stuck). Observed per step: calls that returned (list / error / stuck), "
          "calls still blocked with the real match count. "
          "api: daemon.getNotices called in-package on a state filled through AddNotice: the complete cross product "
          "uid {0,1000,1001,unidentifiable} x user-id {absent,1000,1001,0,x,`1000,1001`,empty} x users {absent,all,x,empty} on a "
          "fixed state, plus random states and requests (uid, user-id in 16 valid/invalid spellings, users, types/keys comma "
          "lists with blanks and invalid names, after valid/unparsable). Observed: HTTP status and notice ids in order. "
          "Non-trivial = a history in which a notice reoccurred and a later poll returned something (state); a non-root "
          "request that returned notices (api)."),
    exhaustive=dict(quick=True, thorough=True),
    trusted_base=[
        "translators/noticetypes.go (go/ast): prints the case list of NoticeType.Valid, maxNoticeKeyLength and the non-test places that set AddNoticeOptions.Time",
        "hand-written model coq/models/Notices.v of overlord/state/notices.go (AddNotice, ValidateNotice, NoticeFilter.matches, Notices) and of the user/filter logic of daemon/api_notices.go getNotices (main snapd socket only), tied by the differential runs (harness/overlay/zzverif/c08/main.go, harness/overlay/daemon/zz_verif_c08_test.go)",
        "the `wait` driver decides which blocked calls must return after a step by asking the real State.Notices(filter) (not the model); blocked requests are cancelled at a restart (in production they die with the process)",
        "the polling-client protocol (After := greatest last-repeated received) is a model of the client described in AddNotice's comment; no client in the repository implements it",
        "sort.Slice modelled as insertion sort; for equal last-repeated times (only possible with explicit Time) answers are compared after sorting by (last-repeated, id)",
        "time.Time modelled as integer nanoseconds relative to a base instant; zero time as None; encoding/json of time.Time (RFC3339Nano) trusted to keep nanoseconds",
        "daemon driver encodes ucrednet's RemoteAddr format (pid=..;uid=..;socket=..;) to choose the request uid; ucrednetGet itself is not modelled",
    ],
    assumptions=[
        "waiter clause: the logical half is proved for all histories of additions, WaitNotices calls, context timeouts and restarts (C08_waiters_never_miss, C08_waiter_enabled, C08_wait_returns_sound); that sync.Cond.Broadcast makes every blocked call re-evaluate its condition is Go runtime behaviour: modelled by `recheck`, not verified; the `wait` driver exercises it with real goroutines as supporting evidence (a call that is not woken is recorded as stuck and fails the monitor)",
        "additions use the server clock (AddNoticeOptions.Time unset): with an explicit Time the property is false (C08_explicit_time_refuted); the translator checks on every run that no non-test code sets it (C08_no_explicit_time_call_site)",
        "notice expiry (7 days after last-occurred, evaluated against the real wall clock in flattenNotices/Prune) is not modelled; drivers keep every mocked instant within hours of now",
        "a client starts without a cursor and only ever uses a last-repeated time it received as After",
        "getNotices is modelled for requests on the main snapd socket (every notice type viewable); the snap-socket interface/type restrictions (sanitizeNoticeTypesFilter with interfaces, noticeTypesViewableBySnap) belong to C26 and are not modelled; the timeout/WaitNotices branch is not exercised",
        "restarts are modelled as reload(persist st) over the three notice fields of marshalledState, with the written/restored flags read from State.MarshalJSON / UnmarshalJSON by the translator (text shape after renaming receiver and local variable); encoding/json itself and expiry on reload (unflattenNotices) are not modelled; the driver restarts through the backend's last Checkpoint payload and state.ReadState",
    ],
)
