"""C02 — tasks never start before the tasks they wait for have finished (DESIGN.md §2 C02).
Shares the model coq/models/TaskEngine.v and the driver harness/overlay/overlord/state/zz_verif_c01_test.go with C01/C03."""


def classify(case):
    return None


_EV = dict(requires=["V.models.TaskEngine"], case_type="TaskEngine.case",
           mismatch="TaskEngine.mismatch", monitor="TaskEngine.monitor_fail02")

SPEC = dict(
    prop="C02",
    overlay_tags=["c01"],
    coq_targets=["props/C02.vo"],
    drivers=[
        dict(name="hist", kind="test", pkg="./overlord/state", run="TestVerifC02Hist",
             n=dict(quick=260, thorough=6000), timeout=dict(quick=240, thorough=1500), ev=_EV),
    ],
    classify=classify,
    rule=("random histories of the REAL overlord/state TaskRunner on random task DAGs: 1-7 tasks (1-9 thorough), wait edges along a "
          "random topological order (so a waiting task may precede its prerequisites in Change.taskIDs), 0-3 explicit lanes "
          "with multi-lane and default-lane tasks, a quarter of the graphs one chain per lane, 1 task in 7 without undo "
          "handler. Handlers block on channels; the driver picks the next event at random among Ensure (called until nothing "
          "changes), the completion of one running handler (ok / error at pre-selected do- and undo-failure points / Retry "
          "with and without delay / Wait), a user abort, a clock tick (mocked timeNow), the resolution of a task in Wait, "
          "then drains the change. After every event the status vector, the set of live tombs, Change.Status/IsReady/"
          "ReadyTime/Err and the handler starts of that event (with the prerequisite statuses seen by the handler when it "
          "started, and an exact-instant check from the task-status-changed hook) are recorded; the Coq model replays the "
          "same event list. Non-trivial = a history in which some handler started with a non-empty prerequisite list."),
    exhaustive=dict(quick=False, thorough=False),
    trusted_base=[
        "hand-written model coq/models/TaskEngine.v of overlord/state (taskrunner.go run/Ensure/tryUndo/mustWait, change.go Status/abortLanes/abortTasks/detectChangeReady, task.go SetStatus/SetToWait/At), tied by the differential run (harness/overlay/overlord/state/zz_verif_c01_test.go)",
        "goroutine scheduling is modelled by the event list: the driver serialises handler completions (r.mu and the state lock make the critical sections of the real runner sequential); truly simultaneous completions are not exercised",
        "Go's map iteration order inside Ensure is an explicit argument of the model's Ensure event (theorems hold for every order); the tie compares only at the Ensure fixpoint, where the result does not depend on the order",
        "blocked predicates (SetBlocked/AddBlocked), cleanup handlers, TaskRunner.Stop and handlers that call SetStatus themselves are not modelled",
    ],
    assumptions=["PARTIAL: the prerequisite guarantee is proved for fresh starts (the Do->Doing / Undo->Undoing write) over all graphs and all event lists; for re-runs after Retry it is monitored on the implementation, not proved (do handlers), and refuted for undo handlers whose halt task has no undo handler (C02_undo_rerun_refuted; harmless: such a task has nothing to undo)",
                 "handlers return nil, an error, *Retry or *Wait and do not change task statuses themselves",
                 "time is the mocked timeNow of the state package; Task.At is only set through Retry.After"],
)
