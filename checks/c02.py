"""C02 — tasks never start before the tasks they wait for have finished (DESIGN.md §2 C02).
Shares the model coq/models/TaskEngine.v and the driver harness/overlay/overlord/state/zz_verif_c01_test.go with C01/C03."""


import re

_SR = re.compile(r"\(SR (\d+) (true|false) (\d+) (true|false) (true|false)\)")
_READY = set("0378")      # Hold Done Undone Error in the driver's status code (TaskEngine.dec_sts)
KEY = "undo-rerun-sees-handlerless-dependent-in-undo"


def classify(case):
    """Recomputes the whole C02 monitor on the recorded history. Returns KEY only if EVERY deviation in the history is
    of the one known class: a RE-RUN (not fresh) of an undo handler whose unready halt tasks are all tasks WITHOUT undo
    handler sitting in Undo. Any other deviation (gate, do start, fresh undo start, hook, another status, a halt task
    that has an undo handler) makes it an ordinary violation."""
    tasks = (case.get("input") or {}).get("tasks") or []
    halts = {t: [i for i, tk in enumerate(tasks) if t in (tk.get("waits") or [])] for t in range(len(tasks))}
    hit = False
    for step in case.get("observed") or []:
        obs = step["obs"]
        if not obs.get("hook_ok", False):
            return None
        for sr in obs.get("starts") or []:
            m = _SR.fullmatch(sr)
            if not m:
                return None
            t, undo, vec, gate, fresh = int(m.group(1)), m.group(2) == "true", m.group(3)[1:], m.group(4) == "true", m.group(5) == "true"
            if not gate:
                return None
            if not undo:
                if any(c != "3" for c in vec):
                    return None
                continue
            hs = halts.get(t, [])
            if len(hs) != len(vec):
                return None
            for h, c in zip(hs, vec):
                if c in _READY:
                    continue
                if (not fresh) and c == "5" and not tasks[h].get("undo", True):
                    hit = True
                else:
                    return None
    return KEY if hit else None


_EV = dict(requires=["V.models.TaskEngine"], case_type="TaskEngine.case",
           mismatch="TaskEngine.mismatch", monitor="TaskEngine.monitor_fail02")

SPEC = dict(
    prop="C02",
    overlay_tags=["c01"],
    coq_targets=["props/C02.vo"],
    drivers=[
        dict(name="hist", kind="test", pkg="./overlord/state", run="TestVerifC02Hist",
             n=dict(quick=260, thorough=6000), timeout=dict(quick=240, thorough=1500), ev=_EV),
    ],
    classify=classify,
    rule=("random histories of the REAL overlord/state TaskRunner on random task DAGs: 1-7 tasks (1-9 thorough), wait edges along a "
          "random topological order (so a waiting task may precede its prerequisites in Change.taskIDs), 0-3 explicit lanes "
          "with multi-lane and default-lane tasks, a quarter of the graphs one chain per lane, 1 task in 7 without undo "
          "handler. Handlers block on channels; the driver picks the next event at random among Ensure (called until nothing "
          "changes), the completion of one running handler (ok / error at pre-selected do- and undo-failure points / Retry "
          "with and without delay / Wait), a user abort, a clock tick (mocked timeNow), the resolution of a task in Wait, "
          "then drains the change. After every event the status vector, the set of live tombs, Change.Status/IsReady/"
          "ReadyTime/Err and the handler starts of that event (with the prerequisite statuses seen by the handler when it "
          "started, and an exact-instant check from the task-status-changed hook) are recorded; the Coq model replays the "
          "same event list. A tenth of the histories are the delayed-retry family: 2-4 independent tasks answering Retry{After: 1/2/3 min}, the clock advancing in 20 s steps with an Ensure fixpoint after every step. Non-trivial = a history in which some handler started with a non-empty prerequisite list."),
    exhaustive=dict(quick=False, thorough=False),
    trusted_base=[
        "hand-written model coq/models/TaskEngine.v of overlord/state (taskrunner.go run/Ensure/tryUndo/mustWait, change.go Status/abortLanes/abortTasks/detectChangeReady, task.go SetStatus/SetToWait/At), tied by the differential run (harness/overlay/overlord/state/zz_verif_c01_test.go)",
        "goroutine scheduling is modelled by the event list: the driver serialises handler completions (r.mu and the state lock make the critical sections of the real runner sequential); truly simultaneous completions are not exercised",
        "Go's map iteration order inside Ensure is an explicit argument of the model's Ensure event (theorems hold for every order); the tie compares only at the Ensure fixpoint, where the result does not depend on the order",
        "blocked predicates (SetBlocked/AddBlocked), cleanup handlers, TaskRunner.Stop and handlers that call SetStatus themselves are not modelled",
    ],
    assumptions=["KNOWN FINDING undo-rerun-sees-handlerless-dependent-in-undo: a re-run (after Retry) of an undo handler can see a halt task without undo handler in Undo; reported by the monitor, classified by recomputing the whole monitor in checks/c02.py; map-order dependent, provoked by a scripted 7-task history (met unless Go's map order visits 5,4,3,2,1,0 in exactly that relative order: 1 in 720)",
                 "proved over all graphs and event lists: fresh starts see their prerequisites Done / ready and the gate open; over all histories with user aborts on unready changes only: EVERY do start (fresh or re-run) sees all wait tasks Done (no fuel hypothesis: the model's fuel bounds are proved sufficient). PARTIAL: the undo side holds for fresh starts only, re-runs are refuted (C02_undo_rerun_refuted, the known finding)",
                 "handlers return nil, an error, *Retry or *Wait and do not change task statuses themselves",
                 "time is the mocked timeNow of the state package; Task.At is only set through Retry.After"],
)
