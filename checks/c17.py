"""C17 — kernel and base updates can always fall back to the last known-good revision (DESIGN.md §2 C17)."""


def classify(case):
    """Key of the one recorded finding: a kernel-switching undo (SetNextBoot with BootWithoutTry for a revision other
    than the one kernel.efi / snap_kernel points to) cut right after its modeenv write, i.e. after exactly one write --
    by a power loss, or by a snapd restart that is followed by a reboot before the undo has been re-run -- in a UC20
    history whose observed trace then reaches the initramfs dead end FROM THAT VERY STATE (same kernel pointer, same
    current_kernels). Any other failing history is reported as a violation."""
    import re
    i = case.get("input") or {}
    if i.get("cfg") not in ("uc20", "ns20"):
        return None
    obs = case.get("observed") or []
    if "ODead" not in obs:
        return None
    dead_at = obs.index("ODead")
    acts_before = [o for o in obs[:dead_at] if isinstance(o, str) and o.startswith("OAct ")]
    if len(acts_before) < 2:
        return None
    coq = case.get("coq") or ""
    m = re.search(r"\(Case20 \S+ \S+ \S+ \[(.*?)\] \[", coq, re.S)   # effective actions, in order
    if not m:
        return None
    acts = [a.strip() for a in m.group(1).split(";")]
    boot_idx = len(acts_before) - 1          # the ABoot during which the dead end is observed
    if boot_idx < 1 or boot_idx >= len(acts) or not acts[boot_idx].startswith("ABoot"):
        return None

    def seg_states(j):
        lo = obs.index("OAct %d%%N" % j) + 1
        hi = obs.index("OAct %d%%N" % (j + 1))
        return [o for o in obs[lo:hi] if o.startswith("OS ")]

    def kl_ck(s):
        return (re.search(r"kl := (\d+)%N", s).group(1), re.search(r"m_ck := \[(.*?)\]", s).group(1).strip())

    # walk back over operations that ran after a RESTART-cut undo in the same boot and left (kernel pointer,
    # current_kernels) untouched; a power-loss cut must be immediately followed by the boot
    j = boot_idx - 1
    between = []
    while j >= 0 and not re.fullmatch(r"AOpR? \(SetK \d+%N true\) (\(Some 1%nat\)|1%nat)", acts[j]):
        if not acts[j].startswith("AOp"):
            return None
        between.append(j)
        j -= 1
    if j < 0:
        return None
    undo = acts[j]
    if undo.startswith("AOp (") and between:
        return None
    states = seg_states(j)
    if len(states) != 1:
        return None
    kl, ck = kl_ck(states[0])
    tgt = re.search(r"SetK (\d+)%N", undo).group(1)
    if not (ck == tgt + "%N" and kl != tgt):
        return None
    for q in between:
        if any(kl_ck(s) != (kl, ck) for s in seg_states(q)):
            return None
    return "undo-kernel-switch-crash-after-modeenv"


SPEC = dict(
    prop="C17",
    gens=[dict(name="GrubKernelStatus", cmd=["go", "run", "-C", "translators", ".", "grubcfg"],
               what="the if/elif chain on $kernel_status and the two menu entries of bootloader/assets/data/grub.cfg")],
    drivers=[
        dict(name="boot", kind="test", pkg="./boot", run="TestVerifC17",
             n=dict(quick=120, thorough=4000), timeout=dict(quick=300, thorough=1500),
             # boot.MockInitramfsReboot insists on a go test binary: osutil.IsTestBinary wants argv[0] to match
             # .*/.*go-build.*/.*\.test, so the binary is started with such an argv[0]
             wrap=["bash", "-c", 'exec -a "$(dirname "$0")/go-build/c17.test" "$0" "$@"'],
             ev=dict(requires=["V.lib.Bytes", "V.models.Boot"], case_type="Boot.case",
                     mismatch="Boot.mismatch", monitor="Boot.monitor_fail")),
    ],
    classify=classify,
    rule=("UC20 not scriptable (environment variables + initramfs status update, piboot style): the same systematic histories "
          "for the kernel operations and mark (cut after 0-3 writes) and a third of the random ones, with and without the "
          "one-shot tryboot flag. UC20/grub: every operation (set next kernel/base with and without try for revisions 1-3/1-2, mark successful) "
          "cut by a power loss after each of its first 4 writes or run to completion, in 11 protocol contexts (fresh, try "
          "pending, trial running, trial committed, base trial, kernel+base trial, failed trial, second trial, firmware-only "
          "boot, ...), each followed by boot/mark/boot tails; plus random histories of 3-14 actions with cuts, firmware-only "
          "boots and undos. UC16/18: ALL histories of length <= 2 (thorough: 3) over 11 actions, plus random ones. "
          "Not scriptable: the complete 4x4 domain of updateNotScriptableBootloaderStatus. Each history is executed on the real "
          "boot package with a logging bootloader; the observed sequence of states after every individual write, firmware "
          "step and initramfs selection is compared with the model's. Non-trivial = a history with a boot of a not yet "
          "known-good revision or a cut operation followed by a boot."),
    exhaustive=dict(quick=False, thorough=False),
    trusted_base=[
        "translators/grubcfg.go (text): prints the $kernel_status if/elif chain and menu entries of grub.cfg as a table",
        "hand-written model coq/models/Boot.v of boot/bootstate16.go, bootstate20.go, bootstate20_bloader_kernel_state.go, "
        "boot.go, initramfs.go, tied by the differential run (harness/overlay/boot/zz_verif_c17_test.go)",
        "the driver's own interpreter of the grub.cfg kernel_status block stands for grub (grub itself is not run)",
        "bootloadertest mocks stand for the bootloader back ends (grubenv file, kernel.efi/try-kernel.efi symlinks): each "
        "bootloader call and each modeenv file replacement is taken as one atomic write",
        "UC16/18 gadget boot script is not in the repository: modelled from the protocol comment above boot.MarkBootSuccessful",
    ],
    assumptions=[
        "UC16/18: the gadget's boot script is outside the repository; the UC16 theorems are stated for EVERY script that meets "
        "the contract fw16_ok (read off the protocol comment above boot.MarkBootSuccessful); the correspondence uses one such script",
        "not scriptable UC20 (piboot style): the Raspberry Pi firmware is outside the repository and is modelled (firmware_ns: "
        "one-shot tryboot flag starts snap_try_kernel with kernel_status=trying on the command line, otherwise snap_kernel; a "
        "tryboot that cannot start falls back to a normal boot); piboot.go's translation of the variables into config.txt / "
        "tryboot.txt is not examined; the in-repo parts (envRef kernel state, updateNotScriptableBootloaderStatus, initramfs "
        "selection) are modelled and tied",
        "EXCLUDED event classes: a snapd restart inside a kernel setNext that was started while kernel_status was still trying "
        "(snapd marks the boot successful first after every start), and for the code as it is a restart in the finding window; "
        "every other snapd restart without reboot between two writes IS an event (ERestart); I/O error returned in mid-operation; "
        "UC20 scriptable bootloaders without kernel links (u-boot with gadget boot.scr): same write lists as the not scriptable "
        "configuration, firmware script not in the repository and not modelled",
        "power loss = reboot: a snapd process restart without reboot between two writes is not an event of the model",
        "a write either happens or the machine loses power: I/O errors returned in the middle of an operation are not modelled",
        "snap files of every revision named in the boot state stay on disk (garbage collection is guarded by boot.InUse, not modelled)",
        "an undo (BootWithoutTry) is only requested for a revision that was known-good before",
        "resealing, boot assets, kernel command line and recovery systems are out of scope",
    ],
)
