"""C29 — config transactions are isolated, read their own writes, never lose updates (DESIGN.md §2 C29)."""


def classify(case):
    return None


SPEC = dict(
    prop="C29",
    coq_targets=["props/C29.vo"],
    drivers=[
        dict(name="hist", kind="main", pkg="./zzverif/c29",
             n=dict(quick=200, thorough=12000),
             ev=dict(requires=["V.lib.JsonTree", "V.models.Config"], case_type="Config.case",
                     mismatch="Config.mismatch", monitor="Config.monitor_fail")),
    ],
    classify=classify,
    rule=("histories on one state.State with 1-3 live config.Transaction objects: an initial committed configuration (two "
          "snaps, nested maps of small integers, depth <= 3, occasionally with nulls) followed by 6-28 random operations "
          "new/set/get/commit/save/restore/discard; option paths of depth 1-4 over the keys a b c d, biased towards paths, "
          "prefixes, extensions and siblings of paths already present or written; written values are small integers, null, "
          "or nested maps (with nulls inside); every history ends by reading the root document through every transaction and "
          "committing all of them; plus six fixed corner histories. Observed: the result of every Get (value tree or error "
          "class), success of every Set, and the committed `config` and `revision-config` after every other operation. "
          "Non-trivial = a transaction with changes committed after another one had committed since it was created."),
    exhaustive=dict(quick=False, thorough=False),
    trusted_base=[
        "hand-written model coq/models/Config.v of overlord/configstate/config/{transaction,helpers}.go, tied by the differential run (harness/overlay/zzverif/c29/main.go)",
        "JSON encoding is not modelled: scalars are opaque atoms, objects are key-sorted association lists (Go maps); encoding/json, jsonutil.DecodeWithNumber and state.Set/Get marshalling are exercised by the driver only",
        "external (virtual) configuration handlers are not modelled (none is registered in the driver)",
    ],
    assumptions=["option keys are valid (ParseKey accepts them) and Set is never called with an empty key",
                 "the committed configuration maps every snap to an object (not null or a scalar)",
                 "values contain no JSON arrays (purgeNulls does not descend into arrays)"],
)
