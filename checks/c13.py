"""C13 — revert switches to a kept revision in place and blocks the reverted-from ones (DESIGN.md §2 C10-C13)."""
from checks import c10


def classify(case):
    return None


EV = dict(requires=["V.models.SnapSeq"], case_type="SnapSeq.case", mismatch="SnapSeq.mismatch",
          monitor="SnapSeq.monitor13_fail")

SPEC = dict(
    prop="C13",
    overlay_tags=["c10"],
    coq_targets=["props/C13.vo"],
    drivers=[dict(c10.DRIVER, ev=EV)],
    classify=classify,
    rule=('the shared C10 driver: histories with Revert() and RevertToRevision() to kept, not-kept and current revisions, on active and disabled snaps, blocking and not blocking; for every completed revert: same kept list in the same order, target current and active, no copy-data backend call, no mount/copy/discard task, Block() = revisions after the target minus the not-blocked ones; for every refused revert: exactly the three preconditions, and the state is unchanged.'),
    exhaustive=dict(quick=False, thorough=False),
    trusted_base=[
        "hand-written model coq/models/SnapSeq.v (see checks/c10.py), tied by the differential run of the shared driver harness/overlay/overlord/snapstate/zz_verif_c10_test.go: every step's task chain, refusal and resulting state are compared with the model's",
        "the package's test fakes (fakeSnappyBackend, fakeStore, snapmgrBaseTest set-up): the system-visible side is what snapd ASKS the backend to do",
    ],
    assumptions=['data directories are not modelled: `without copying data` is the absence of copy-snap-data tasks and of backend copy-data calls', "flags (devmode/jailmode/classic) a revert inherits are derived by the entry point and read back from the change's snap-setup; their derivation is not modelled"],
)
