"""C38 — accepted gadget volumes lay out into disjoint structures (DESIGN.md §2 C38)."""


def classify(case):
    # the recorded defect class: some laid-out structure ends at or beyond 2^64, i.e. a uint64 running sum of the
    # implementation wrapped. Any monitor failure without such a structure is a fresh violation.
    o = case.get("observed") or {}
    for st, sz in o.get("ondisk") or []:
        if st + sz >= 2 ** 64:
            return "offset-sum-wraps-uint64"
    return None


SPEC = dict(
    prop="C38",
    coq_targets=["props/C38.vo"],
    drivers=[
        dict(name="layout", kind="main", pkg="./zzverif/c38",
             n=dict(quick=900, thorough=20000), timeout=dict(quick=300, thorough=1500),
             ev=dict(requires=["V.lib.Bytes", "V.models.Gadget"], case_type="Gadget.case",
                     mismatch="Gadget.mismatch", monitor="Gadget.monitor_fail")),
    ],
    classify=classify,
    rule=("gadget.yaml texts for one volume `pc` (bootloader grub, schema gpt): 6 fixed witnesses (two uint64-wrap volumes, "
          "four quantities whose int64 product wraps); ALL volumes of <= 2 (quick) / <= 3 (thorough) structures with offset in "
          "{none,1M,2M,3M}, size in {1M,2M}, min-size in {none,1M}; 72 floating chains (a min-size < size structure at 1M, one or two "
          "structures without an offset of their own, min-size < or = size, then a structure whose explicit offset sweeps in 1M steps "
          "from the start of the last floating structure over its min-size end to past its full-size end); 108 content cases: a 4096-byte bare structure at 1M with 2-4 raw images at explicit offsets in EVERY declaration order, the "
          "physically last image fitting exactly / sticking out by 1 byte / by a whole slot (so each declaration position is the "
          "overflowing one in some case), plus implicit-offset images after explicit ones; every 8th random case a "
          "random floating chain with byte-exact offsets (min-size end -1/0/+1, full-size end -1/0/+1); random mostly-valid volumes of 1-7 structures: optional MBR "
          "(type: mbr / role: mbr on bare or GUID type, sizes 100/440/446/447), structures placed left to right with explicit "
          "offsets (at, after, slightly before or far before the running end), implicit offsets, min-size < / = / > size, "
          "missing size, `partial: [size]`, misplaced MBR, shuffled yaml order, offset-write (absolute / relative to s0, s1 or a "
          "missing structure; offsets around 440-446, the 4G limit, the volume size), raw image content on bare and "
          "filesystem-less structures (1-3 images, image files of 0-2048 bytes created sparse in a temporary gadget root, "
          "missing files, declared sizes below/above the file size, explicit content offsets in and out of order); every 8th "
          "case a volume with quantities next to 2^63/2^64 (8589934591G, 17179869185G, negative numbers, random 63-bit byte "
          "counts). Each text goes through gadget.InfoFromGadgetYaml, OnDiskStructsFromGadget and LayoutVolume. "
          "Non-trivial = accepted volume with at least 2 structures."),
    exhaustive=dict(quick=True, thorough=True),
    trusted_base=[
        "hand-written model coq/models/Gadget.v of gadget/gadget.go (setImplicitForVolume, orderStructuresByOffset, validateVolumeStructure size/min-size/mbr parts, validateCrossVolumeStructure, Volume.MinSize, validateOffsetWrite), gadget/ondisk.go (OnDiskStructsFromGadget), gadget/layout.go (layOutStructureContent) and gadget/quantity (parseSizeOrOffset), tied by the differential run (harness/overlay/zzverif/c38/main.go)",
        "yaml.v2 decoding, strutil.SplitUnit/strconv.ParseInt (digits -> int64) and os.Stat are not modelled: the model starts from the int64 number + unit of each quantity and from the image file sizes",
        "sort.Sort is modelled as a stable insertion sort, which is what Go 1.23 runs for <= 12 elements (blocks of structures, contents per structure); the disjointness theorems do not depend on the sort (they use the validation and overlap checks that run after it)",
        "structure type / role / filesystem / name / update validation is outside the model: the generator only emits valid combinations (type mbr|bare|GUID, roles mbr|system-data|none, filesystem ext4|none, unique names)",
    ],
    assumptions=[
        "GUARD (finding, KNOWN_FINDINGS key offset-sum-wraps-uint64): the theorems assume every laid-out structure ends below 2^64 (`Forall fits (on_disk l)`); without it C38_wrap_refuted gives an accepted overlapping volume, reproduced on the real code on every run",
        "content theorem: quantities < 2^63 (proved for everything the gadget.yaml parser accepts) and image file sizes < 2^63 (os.FileInfo.Size is an int64)",
        "one volume per gadget.yaml, model == nil (no implicit labels), schema gpt; `partial: [size]` is the only partial property generated",
        "LayoutVolume is run with SkipResolveContent (no kernel snap), so filesystem content is not resolved; only raw image content is laid out, as the property states",
    ],
)
