"""C28 — mount namespace updates transform the current mounts into the desired ones (DESIGN.md §2 C28)."""

# white-space runes that strings.TrimSpace removes and osutil's escape leaves alone (UTF-8 byte prefixes)
_TRIMMED = [b"\x0b", b"\x0c", b"\r", b"\xc2\x85", b"\xc2\xa0", b"\xe1\x9a\x80", b"\xe2\x80\xa8", b"\xe2\x80\xa9",
            b"\xe2\x80\xaf", b"\xe2\x81\x9f", b"\xe3\x80\x80"] + [bytes([0xe2, 0x80, x]) for x in range(0x80, 0x8b)]


def classify(case):
    import base64
    i = case.get("input") or {}
    o = case.get("observed") or {}
    if isinstance(o, dict) and o.get("kept_beneath_across_overname") and not o.get("kept_beneath_same_class") and not o.get("missing"):
        # changes driver: an entry is kept although an entry above it is unmounted, and every such pair straddles the
        # overname boundary (pairs within one class and everything else are still checked through MountNS.relaxed_fail)
        return "keep-beneath-unmounted-overname"
    if isinstance(o, dict) and o.get("missing") and set(o["missing"]) <= set(o.get("shadowed") or []):
        # changes driver: the only desired entries absent afterwards are ones whose (dir, type) is occupied by a different,
        # reused helper entry of the current profile (any other failure of the step is reported through MountNS.relaxed_fail)
        return "desired-shadowed-by-helper"
    if isinstance(o, dict) and o.get("current_in_mount_order") is False:
        # order driver: the recorded current profile is no longer in mount order (kept entries were recorded reversed)
        return "unmount-order-after-keep"
    if i.get("kind") == "profile":
        for e in i.get("entries") or []:
            name = base64.b64decode(e.get("name") or "")
            if any(name.startswith(p) for p in _TRIMMED):
                return "profile-name-leading-space-rune"
    return None


_BUILD = dict(kind="test", pkg="./cmd/snap-update-ns", build_env={"CGO_ENABLED": "0"})

SPEC = dict(
    prop="C28",
    coq_targets=["props/C28.vo"],
    drivers=[
        dict(name="codec", run="TestVerifC28Codec", n=dict(quick=300, thorough=30000),
             ev=dict(requires=["V.lib.Bytes", "V.models.MountEntry"], case_type="MountEntry.case",
                     mismatch="MountEntry.mismatch", monitor="MountEntry.monitor_fail"), **_BUILD),
        dict(name="changes", run="TestVerifC28Changes", n=dict(quick=130, thorough=6000),
             ev=dict(requires=["V.lib.Bytes", "V.models.MountEntry", "V.models.MountNS"], case_type="MountNS.case",
                     mismatch="MountNS.mismatch", monitor="MountNS.monitor_fail"), **_BUILD),
        dict(name="order", run="TestVerifC28Order", n=dict(quick=80, thorough=4000),
             ev=dict(requires=["V.lib.Bytes", "V.models.MountEntry", "V.models.MountNS"], case_type="MountNS.ocase",
                     mismatch="(fun _ => false)", monitor="MountNS.order_fail"), **_BUILD),
    ],
    classify=classify,
    rule=("codec: Escape/Unescape on ALL strings of length <= 2 over the bytes ` \\t\\n\\\\0413a` plus the escape sequences and "
          "near misses, then random strings; entries: a fixed edge list (one per guard: empty field, leading #, no/empty/"
          "comma/hash options, white space and backslashes everywhere, int limits, leading \\r) each also as a one-entry "
          "profile, plus random sane and hostile entries (fields over a vocabulary with blanks, tabs, newlines, "
          "backslashes, literal \\040-like text, #, commas, \\r \\v \\f, U+0085/U+00A0/U+2003/U+3000, invalid UTF-8) "
          "through String/ParseMountEntry; free text lines through ParseMountEntry; random profiles through "
          "SaveMountProfileText/LoadMountProfileText; free profile text (comments, blank lines, odd white space, CRLF). "
          "changes: fixed histories (parent+child mounted, kept, removed; nested mimics; overname; file/symlink kinds) and "
          "random histories of 2-5 desired profiles (1-6 entries over nested paths a|b|c|d up to depth 4 under a scratch "
          "root, sometimes written uncleanly; kinds dir/file/symlink/ensure-dir; bind/rbind/tmpfs/squashfs; origins "
          "layout/overname/rootfs/other/none; x-snapd.id, ignore-missing, detach) over a random pre-existing tree of "
          "directories, files and symlinks, each step run through the REAL executeMountProfileUpdate with "
          "profiles saved and reloaded as text between updates and a simulated Change.Perform (missing targets get a writable mimic built by the real "
          "createWritableMimic, so current profiles contain real synthetic entries with x-snapd.needed-by); one case per "
          "step. Scripted and random histories of nested entries of different origins whose outer one changes, followed by another entry of the outer one's origin. Mutations also put a tmpfs on the directory above an existing entry (where a mimic may sit). A third of the cases call neededChanges directly on an arbitrary current profile (duplicates, synthetic "
          "helpers needed by present/absent entries, rootfs entries, up to 18 entries). Desired mount points are pairwise "
          "different after cleaning. order: the same histories (steps >= 1) reduced to (mount point, true mount age) and "
          "the positions unmounted. Non-trivial = guarded entry/profile; step with a Keep or Unmount and a Mount; step "
          "unmounting at least two entries."),
    exhaustive=dict(quick=False, thorough=False),
    trusted_base=[
        "hand-written models coq/models/MountEntry.v (osutil mount entry codec and profile reader/writer) and coq/models/MountNS.v (neededChanges, sorting.go, the recording loop of update.go), tied by the differential run (harness/overlay/cmd/snap-update-ns/zz_verif_c28_test.go, in-package, CGO_ENABLED=0 with zz_verif_c28_stubs.go standing in for the cgo file bootstrap.go)",
        "hand models validated only by the tie: filepath.Clean / filepath.Dir (component stack), strings.TrimSpace (byte-level table of the white-space runes), strings.FieldsFunc, strconv.Atoi, bufio.ScanLines (without the 64 KiB token limit), sort.Sort as insertion sort (exact for n <= 12; for longer current profiles with tied keys the comparison is skipped and the case tagged sort-ties-over-12), sort.Strings",
        "the file system is an oracle: the lists of paths for which osutil.IsDirectory / FileExists / IsSymlink said yes at the time neededChanges ran (queried by the driver for every cleaned desired mount point and all its ancestors)",
        "Change.Perform is simulated by the driver (no mounts are made): it decides only which synthetic entries enter the histories; createWritableMimic, planWritableMimic, execWritableMimic, neededChanges and executeMountProfileUpdate are the real code",
        "decimal printing/parsing through coq/lib/Dec.v",
    ],
    assumptions=[
        "result profile (C28_result_profile): apply_changes of the computed list succeeds and the table is, as a multiset, desired + kept still-needed helpers - proved for every profile pair under three hypotheses: distinct cleaned desired mount points, distinct (dir, type) in the current profile, no desired entry on the (dir, type) of a different helper entry; the third is NOT assumed by the monitor: its violation is reachable (KNOWN FINDING desired-shadowed-by-helper, witness C28_result_profile_shadowed_refuted, scripted history in the driver)",
        "mount order (C28_mount_order) is proved under per-pair hypotheses: different sort keys, existing targets closed under containment, mimic roots equal or string-ordered; that the last one follows from an ancestor-closed oracle (filepath.Dir algebra) is not proved; the monitor checks the conclusion without it",
        "hypotheses of the planning theorems (checked on every tied case, cases violating them are not monitored): pairwise different cleaned desired mount points; pairwise different (dir, type) in the current profile; existing mount targets closed under containment among desired entries of the same origin",
        "KNOWN FINDING desired-shadowed-by-helper: a desired entry on the (dir, type) of a reused, different helper entry is neither mounted nor recorded; in such steps everything else the property says is still checked (MountNS.relaxed_fail, folded into the correspondence verdict so the key cannot hide another failure)",
        "KNOWN FINDING keep-beneath-unmounted-overname: an entry beneath an unmounted entry is kept when exactly one of the two is an overname entry; within one class C28_no_keep_beneath_unmounted holds (hypothesis: no two current entries on one sort key) and the monitor enforces it",
        "KNOWN FINDING unmount-order-after-keep: over histories the unmount order sentence fails on the real code (kept entries are recorded reversed); within one step C28_unmount_order holds for every profile",
        "KNOWN FINDING profile-name-leading-space-rune: profile round trip needs the first byte of the line not to be a white-space rune that escape() leaves alone",
        "codec guard: fields non-empty and not starting with #, at least one option, no commas inside options, joined options non-empty and not starting with #, numbers within int64; lines longer than bufio's 64 KiB token limit are outside the model",
        "Go int is 64 bit (amd64)",
    ],
)
