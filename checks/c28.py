"""C28 — mount namespace updates transform the current mounts into the desired ones (DESIGN.md §2 C28)."""

# white-space runes that strings.TrimSpace removes and osutil's escape leaves alone (UTF-8 byte prefixes)
_TRIMMED = [b"\x0b", b"\x0c", b"\r", b"\xc2\x85", b"\xc2\xa0", b"\xe1\x9a\x80", b"\xe2\x80\xa8", b"\xe2\x80\xa9",
            b"\xe2\x80\xaf", b"\xe2\x81\x9f", b"\xe3\x80\x80"] + [bytes([0xe2, 0x80, x]) for x in range(0x80, 0x8b)]


def classify(case):
    import base64
    i = case.get("input") or {}
    if i.get("kind") == "profile":
        for e in i.get("entries") or []:
            name = base64.b64decode(e.get("name") or "")
            if any(name.startswith(p) for p in _TRIMMED):
                return "profile-name-leading-space-rune"
    return None


_BUILD = dict(kind="test", pkg="./cmd/snap-update-ns", build_env={"CGO_ENABLED": "0"})

SPEC = dict(
    prop="C28",
    disabled="under construction",
    coq_targets=["props/C28.vo"],
    drivers=[
        dict(name="codec", run="TestVerifC28Codec", n=dict(quick=1200, thorough=30000),
             ev=dict(requires=["V.lib.Bytes", "V.models.MountEntry"], case_type="MountEntry.case",
                     mismatch="MountEntry.mismatch", monitor="MountEntry.monitor_fail"), **_BUILD),
    ],
    classify=classify,
    rule="",
    exhaustive=dict(quick=False, thorough=False),
    trusted_base=[],
    assumptions=[],
)
