"""C34 — channel names normalise consistently; pinned tracks cannot be switched (DESIGN.md §2 C34)."""

RISKS = ("stable", "candidate", "beta", "edge")


def classify(case):
    """Only one class of monitor failure is a recorded finding: Resolve(cur, new) where cur has three components
    and its *track* is spelled like a risk name, and new is a bare risk (one component). Then track + "/" + new
    has two components whose first is a risk name, so the parser reads it as risk/branch and the track is lost."""
    i = case.get("input") or {}
    if i.get("kind") != "resolve":
        return None
    cur = (i.get("cur") or "").split("/")
    new = i.get("new") or ""
    if len(cur) == 3 and cur[0] in RISKS and new in RISKS:
        return "resolve-track-spelled-like-risk"
    return None


SPEC = dict(
    prop="C34",
    gens=[dict(name="ChannelRisks", cmd=["go", "run", "-C", "translators", ".", "channelrisks"],
               what="the channelRisks literal and the two defaults of Channel.Clean in snap/channel/channel.go")],
    drivers=[
        dict(name="channel", kind="main", pkg="./zzverif/c34",
             n=dict(quick=400, thorough=1000), timeout=dict(quick=300, thorough=1800),
             ev=dict(requires=["V.lib.Bytes", "V.models.Channel"], case_type="Channel.case",
                     mismatch="Channel.mismatch", monitor="Channel.monitor_fail")),
        dict(name="snapstate", kind="test", pkg="./overlord/snapstate", run="TestVerifC34Snapstate",
             n=dict(quick=1, thorough=1), timeout=dict(quick=300, thorough=900),
             ev=dict(requires=["V.lib.Bytes", "V.models.Channel"], case_type="Channel.case",
                     mismatch="Channel.mismatch", monitor="Channel.monitor_fail")),
    ],
    classify=classify,
    rule=("parse: EVERY string of 1..3 components over the vocabulary {'', latest, stable, candidate, beta, edge, foo, 1.0, "
          "hotfix} joined by '/' and every 4-component string over {'', latest, stable, edge, foo} (thorough: 1..4 "
          "components over all nine words and every 5-component string over {'', latest, stable, foo}), each through ParseVerbatim, Parse, Channel.String/Full/Clean, "
          "Parse(String()) and top-level Full, with the architecture argument rotating over amd64/arm64/-/''/riscv64/x; "
          "clean: Channel values with track, risk, branch each over {'', latest, stable, edge, foo, a/b}; resolve: ALL pairs "
          "(cur of 1..3 components, new of 1..2 components) and pinned: ALL pairs (track of 1 component plus four 2-component ones (thorough: all 30 of 1..2), new of 1..3 components) "
          "over {'', latest, stable, edge, foo} (pinned: {'', latest, edge, foo, foox}; thorough: new of Resolve over six words, 6 510 pairs); plus a random stream (odd spellings, "
          "non-ASCII, doubled slashes, up to 6 components) through all four. Non-trivial = accepted parse / Clean changed "
          "something / Resolve inherited the track / pinned track valid. snapstate: overlord/snapstate resolveChannel (through "
          "export_test.go's ResolveChannel, in-package test driver) for 10 (snap, kernel track, gadget track) configurations "
          "(thorough: 24: all 9 track combinations in none/18/foo for the kernel and for the gadget, 3 each for core18 and some-snap) x 5 current channels "
          "(thorough 6) x 49 requested channels (all of 1..2 components over {'', stable, edge, latest, 18, foo}, seven longer "
          "ones) plus the request equal to the current channel; non-trivial = the snap is pinned and the request is non-empty."),
    exhaustive=dict(quick=True, thorough=True),
    trusted_base=[
        "translators/channelrisks.go (go/ast): prints the channelRisks literal and the `latest`/`stable` literals of Channel.Clean",
        "hand-written model coq/models/Channel.v of snap/channel/channel.go, tied by the differential run (harness/overlay/zzverif/c34/main.go)",
        "model of overlord/snapstate/snapstate.go resolveChannel (Channel.resolve_channel); what it reads from the device model (is the snap the model's kernel / gadget, the two tracks) is observed by the driver from the asserts.Model the suite's MakeModel builds",
        "strings.Split / strings.FieldsFunc / strings.Join / strings.HasPrefix are modelled by split_slash / fields_slash / join_slash / has_prefix (validated by the differential run only)",
    ],
    assumptions=[
        "the architecture is an opaque string: an empty architecture argument is replaced by arch.DpkgArchitecture(), observed by the driver and passed to the model as a parameter; Channel.Match is outside the property",
        "inputs of the differential run are valid UTF-8 (JSON replay files); the theorems hold for all byte strings",
        "`a risk-only request keeps the current track` is proved under the guard that the current track is not spelled like a risk name (C34_risk_only_track_named_like_risk_refuted gives the counterexample; KNOWN_FINDINGS key resolve-track-spelled-like-risk)",
    ],
)
