"""C06 — the state file on disk is always a complete old or new checkpoint (DESIGN.md §2 C06)."""


def classify(case):
    return None


SPEC = dict(
    prop="C06",
    coq_targets=["props/C06.vo"],
    gens=[dict(name="CommitOrder", cmd=["go", "run", "-C", "translators", ".", "commitorder"],
               what="ordered, guarded call lists of AtomicFile.commit / AtomicWriteChown / AtomicRename / AtomicSymlink in "
                    "osutil/io.go; Checkpoint = osutil.AtomicWriteFile; snapdUnsafeIO needs a test binary")],
    drivers=[
        dict(name="strace", kind="main", pkg="./zzverif/c06",
             n=dict(quick=190, thorough=1500), timeout=dict(quick=300, thorough=1500),
             ev=dict(requires=["V.lib.Bytes", "V.gen.CommitOrder", "V.models.AtomicWrite"], case_type="AtomicWrite.case",
                     mismatch="AtomicWrite.mismatch", monitor="AtomicWrite.monitor_fail")),
    ],
    classify=classify,
    rule=("a plain NON-test binary (snapdUnsafeIO false) re-executes itself under `strace -f` and performs real "
          "osutil calls on a scratch directory: AtomicWriteFile, AtomicWriteFileChown, AtomicWrite/AtomicWriteChown with a "
          "multi-chunk reader, NewAtomicFile+Write*+[SetModTime]+Commit, CommitAs, Cancel, AtomicRename (same and other "
          "directory), AtomicSymlink; target absent or present; enumerated small scope (every kind x old absent/present x "
          "chown x mtime x 0/1/3 chunks) plus random sequences of 1-4 calls on the same target with random data. The "
          "system-call trace is parsed into the model's operations; Coq evaluates, for EVERY prefix of each observed "
          "trace and EVERY crash outcome (each unsynced directory update kept or lost, each unsynced inode cut at any "
          "byte), that the target shows the complete content before the call or the complete content asked for, and only "
          "the latter once the call has returned; and compares the trace with the model's operation list built from "
          "gen/CommitOrder.v. ERROR PATHS: a second child drops privileges (setgroups/setgid/setuid 65534) and runs the same calls in directories owned by "
          "that uid whose mode is 0300 (writable+searchable, not openable), 0100, 0500, 0700 (control), and with the directory renamed away between the "
          "writes and Commit; a call that returns an error entitles the caller to the OLD content (target untouched at every crash point), a call that returns "
          "success to the new one. Non-trivial = at least one call that publishes content or returns an error, and a fully parsed trace."),
    exhaustive=dict(quick=False, thorough=False),
    trusted_base=[
        "ASSUMED file-system persistence model (coq/models/AtomicWrite.v head comment): directory updates atomic and durable at fsync(dir), "
        "each pending update independently kept or lost at a crash; unsynced appended data survives as any prefix; synced data survives. No real power loss is produced.",
        "translators/commitorder.go (go/ast): call order and guards of commit/AtomicWriteChown/AtomicRename/AtomicSymlink, shape facts about NewAtomicFile, snapdUnsafeIO, Checkpoint",
        "strace and the trace parser in harness/overlay/zzverif/c06/main.go (any system call on the scratch files outside the model's language marks the case unparsed = mismatch)",
        "hand-written model coq/models/AtomicWrite.v, tied by the observed traces",
    ],
    assumptions=["PARTIAL: the kernel/file-system persistence rules are a model, named above; the theorems are about that model. "
                 "Within it, atomicity (C06_shape_safe) and durability (C06_success_is_durable) are proved for every trace, crash point and crash scenario, "
                 "and the generated call order is proved to satisfy their hypotheses for all data.",
                 "files are written append-only through the descriptor that created them (O_CREAT|O_EXCL); pwrite/truncate/link/open-for-write of an existing file are outside the model's language and reported as unparsed if observed",
                 "metadata (owner, mtime, mode) is not part of the checked content",
                 "error exits: commit's calls may each fail (C06_commit_error_exits / C06_write_error_exits quantify over the failing call); failures of NewAtomicFile (nothing happens) and of io.Copy (partial writes, then Cancel) are observed by the driver but not part of the theorem",
                 "the error-path family needs a driver started as root (it drops to uid 65534 in a child)",
                 "snapdUnsafeIO is false in the driver because it is not a test binary; the translator checks that it can only be true in one"],
)
