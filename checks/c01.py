"""C01 — a failed change undoes exactly the work it had done, in reverse order (DESIGN.md §2 C01).
Owns the driver harness/overlay/overlord/state/zz_verif_c01_test.go shared with C02/C03; model coq/models/TaskEngine.v."""


def classify(case):
    return None


_EV = dict(requires=["V.models.TaskEngine"], case_type="TaskEngine.case",
           mismatch="TaskEngine.mismatch", monitor="TaskEngine.monitor_fail01")

SPEC = dict(
    prop="C01",
    overlay_tags=["c01"],
    coq_targets=["props/C01.vo"],
    drivers=[
        dict(name="hist", kind="test", pkg="./overlord/state", run="TestVerifC01Hist",
             n=dict(quick=260, thorough=6000), timeout=dict(quick=240, thorough=1500), ev=_EV),
    ],
    classify=classify,
    rule=("random histories of the REAL overlord/state TaskRunner on random task DAGs: 1-7 tasks (1-9 thorough), wait edges along a "
          "random topological order, 0-3 explicit lanes with multi-lane and default-lane tasks, a quarter of the graphs one "
          "chain per lane, 1 task in 7 without undo handler; 9 histories in 10 have one or two pre-selected failure points "
          "(do and/or undo handlers returning an error, also while other handlers run and after the task was aborted). "
          "Handlers block on channels; the driver picks the next event at random among Ensure (called until nothing "
          "changes), the completion of one running handler (ok / error / Retry with and without delay / Wait), a user "
          "abort, a clock tick, the resolution of a task in Wait, then drains the change until it settles. After every "
          "event the status vector, live tombs, Change.Status/IsReady/Err and the handler starts are recorded; the Coq "
          "model replays the same event list. The monitor checks on the observed statuses: undo starts only with all "
          "dependents ready; every abort rewrites statuses only by Do->Hold, Doing->Abort, Done->Undo inside the upper "
          "closure of the failed task's lanes and maps everything live in the lower closure; a settled change with a "
          "failed handler is in Error, nothing undoable in the lower closure is left Done, everything outside the upper "
          "closures completed. a task of the failed task's lanes that the independently stated healthy-lane exemption does not spare is aborted, and a settled Done task with undo handler sharing a lane with a failed task was spared by it. In the non-nested case exactly the non-spared lane tasks and what transitively waits on them change. Statuses are effective ones (Task.WaitedStatus is observed). The tombs that have been killed are observed after every event and compared with the model; every task with a dying tomb must be in Abort (handlers of healthy lanes are never stopped). Scripted-prefix families park a lane in Wait while another lane fails and undo chains with a Wait at the far end. A quarter of the histories come from the shared-prerequisite family (tasks in 2-3 lanes, a chain per lane, failures forced in two or three lanes one after the other). Non-trivial = a history with a failed handler in which some undo handler started."),
    exhaustive=dict(quick=False, thorough=False),
    trusted_base=[
        "hand-written model coq/models/TaskEngine.v of overlord/state (change.go abortLanes/abortTasks/taskEffectiveStatus, taskrunner.go run/Ensure/tryUndo/mustWait/abortLanes, task.go SetStatus/SetToWait), tied by the differential run (harness/overlay/overlord/state/zz_verif_c01_test.go)",
        "goroutine scheduling is modelled by the event list: the driver serialises handler completions (r.mu and the state lock make the critical sections of the real runner sequential); truly simultaneous completions are not exercised",
        "Go's map iteration order inside Ensure is an explicit argument of the model's Ensure event; the tie compares only at the Ensure fixpoint",
        "the closure sets R (upper) and R' (lower) used by the monitor are computed by bounded iteration (2n+2 rounds) in coq/models/TaskEngine.v; they are part of the monitor, not of a theorem",
    ],
    assumptions=["PARTIAL: proved for all graphs and event lists: undo order (fresh undo starts see all dependents ready), the abort status mapping, termination of the abort recursion within the model's fuel bounds (C01_abort_fuel, so no fuel hypothesis anywhere), the failing task ends in Error, a settled change with a failed task reports Error; for closed acyclic graphs and tame histories (user aborts on unready changes only, do handlers that Wait wait to become Done): no task is stranded (C01_no_deadlock: with no tomb, no task in Wait and no task scheduled for later, the Ensure loop body fires for some task unless all are ready; C01_no_deadlock_pass: a whole pass over any order visiting every task strictly raises the progress measure, so it changes the state). Also proved: an abort touches nothing outside the upper closure R (every state, every lane list); only started work is undone; a settled state has no tomb and reports Error iff some handler returned an error. Both halves of the closure sandwich are proved (nothing outside R is touched; everything in R' is no longer live). Settling is proved (C01_settles_error: bounded rounds of Ensure + finishing all handlers, no Wait / delayed retry outstanding). The abort set is characterised exactly when abortLanes does not nest (C01_abort_exact_*). NOT proved, only monitored: the abort set between R' and R when abortLanes nests (C01_sandwich_bounds_not_tight: neither bound is tight).",
                 "handlers return nil, an error, *Retry or *Wait and do not change task statuses themselves; a do handler waits to become Done, an undo handler to become Undone (the settle monitor skips histories where the driver crossed these on purpose)",
                 "graphs are closed (wait edges point to tasks of the change) and acyclic (edges go along a topological order): what the generator produces and CheckTaskDependencies enforces in snapd"],
)
