"""C31 — a downloaded snap is only kept if its digest matches (DESIGN.md §2 C31)."""


def classify(case):
    # no recorded finding: the stale-tail defect was repaired in /repo (commit adc145b, `fixed:` in KNOWN_FINDINGS);
    # a success with a target that is not exactly the expected content is a VIOLATION again
    return None


SPEC = dict(
    prop="C31",
    coq_targets=["props/C31.vo"],
    drivers=[
        dict(name="download", kind="test", pkg="./store", run="TestVerifC31Download",
             n=dict(quick=450, thorough=12000), timeout=dict(quick=300, thorough=1500),
             ev=dict(requires=["V.lib.Bytes", "V.models.Download"], case_type="Download.case",
                     mismatch="Download.mismatch", monitor="Download.monitor_fail")),
    ],
    classify=classify,
    rule=("the real store.Store.Download (cache and deltas off, downloadRetryStrategy replaced by retry.LimitCount(1..5)) "
          "against an httptest server that answers the i-th request with the i-th item of a generated script: honest "
          "content with or without Range support (206/200), status 206 whatever was asked, corrupted / truncated / "
          "over-long / random bodies, connection lost after n body bytes (declared Content-Length not reached), malformed "
          "chunk after n bytes (non-retryable copy error), connection dropped before any response, non-HTTP garbage, 302 "
          "redirects, 5xx, 4xx/402/201; scripts of 0..6 items, then dropped connections; pre-existing .partial: none, empty, "
          "correct prefix, complete, wrong bytes, over-long (correct + junk, random); declared size = length of the content "
          "(90%), 0 (5%) or inconsistent (5%); LeavePartialOnError on/off; 9 fixed corner cases first (ids 7 and 8: the former stale-tail inputs, regression); "
          "download cache scenario (1/7 of the random cases + 2 fixed): Config.CacheDownloads=3 under dirs.SetRootDir(temp), the "
          "same Store downloads the same DownloadInfo twice to two target paths, each call with its own script and partial file; "
          "after a successful call the later ones are cache hits (no request); up to three calls, sometimes with a file already at a target path (kept on a hit: EEXIST; model tie only, the monitor does not judge those calls); delta scenario (1/6 of the remaining random cases + 7 fixed): one delta in DownloadInfo, delta file served first by the same script (right / wrong digest / lost connection / arbitrary reply), base snap present or not, format right or not, fake xdelta3 that fails (after writing half a file), writes chosen bytes into targetPath.partial, or exits 0 without output; family `bytes on disk, then error replies, then the good body` (1/5 of the random cases + 5 fixed): an over-long or wrong body cut by a lost connection / an over-long or short partial file / a lying 206, then 1..3 of {5xx with or without body, 4xx with body, redirect, dropped connection} answering the Range retry, then the good body. Compared: error class "
          "(nil / HashError / other), presence and full content of the target, presence of .partial. Non-trivial = at "
          "least two requests served, or a non-empty partial file and one request."),
    exhaustive=dict(quick=False, thorough=False),
    trusted_base=[
        "hand-written model coq/models/Download.v of store/store_download.go (Store.Download, downloadImpl), tied by the differential run (harness/overlay/store/zz_verif_c31_test.go)",
        "SHA3-384 modelled as an ideal (collision-free) digest: `digest matches` is content equality",
        "net/http client and server, httputil.ShouldRetryError classification, gopkg.in/retry.v1: modelled by their observable effect per request (EOF before response = retryable, malformed response = not retryable, unexpected EOF in body = retryable, malformed chunk = not retryable, redirect followed inside the attempt); validated only by the differential run",
    ],
    assumptions=["PARTIAL: the HTTP stack, the retry classification, SHA3 and xdelta3 are modelled, not verified (xdelta3 is an arbitrary oracle in the model and a fake shell script in the driver); local file system errors (open/seek/truncate/rename/sync), context cancellation, the transfer speed monitor, rate limiting, cache eviction (cache.go 178-228), DownloadStream (604-644) and doDownloadReqImpl (648-655) are outside the model. In the model and tied: the full download, the delta path with fallback (useDeltas is forced on through the Store fields; its probing of a real xdelta3, lines 105-157, is not exercised), the cache manager hit / put path incl. a file already at the target path.",
                 "cache hits are not re-verified by the code (CacheManager.Get hard-links and returns): C31_cache_sequence_only_if_match assumes the cached file is not modified between Put and Get and that no file pre-exists at the target path",
                 "the model is the code since commit adc145b (file truncated when the server ignores Range); the full statement is proved with no guard and for every declared size incl. 0 (C31_target_only_if_match, C31_failure_leaves_no_target); C31_before_fix_refuted keeps the historical counterexample for the code before the repair; driver cases 7 and 8 are the regression inputs",
                 "retry strategy is count-limited in model and driver (the 90 s time limit of downloadRetryStrategy only ends the loop earlier, which is one of the modelled budgets)"],
)
