"""C21 — interface connection decisions follow the declared policy rules (DESIGN.md §2 C21)."""


def classify(case):
    return None


SPEC = dict(
    prop="C21",
    disabled="under construction",
    coq_targets=["props/C21.vo"],
    drivers=[
        dict(name="policy", kind="main", pkg="./zzverif/c21",
             n=dict(quick=700, thorough=20000),
             timeout=dict(quick=300, thorough=1800),
             ev=dict(requires=["V.lib.Bytes", "V.models.Policy"], case_type="Policy.case",
                     mismatch="Policy.mismatch", monitor="Policy.monitor_fail")),
    ],
    classify=classify,
    rule="",
    exhaustive=dict(quick=False, thorough=False),
    trusted_base=[],
    assumptions=[],
)
