"""C21 — interface connection decisions follow the declared policy rules (DESIGN.md §2 C21)."""

# the generator pools of harness/overlay/zzverif/c21/gen.go; the driver prints these strings as identifiers
_POOL = ["ia", "ib", "ic", "n1", "n2", "k1", "k2", "k3", "x", "y", "true", "5", "-3", "pub-one", "pub-two", "canonical",
         "snapidsnapidsnapidsnapidsnapid01", "snapidsnapidsnapidsnapidsnapid02", "snapidsnapidsnapidsnapidsnapid03",
         "core", "kernel", "gadget", "app", "os", "snapd", "base", "ubuntu", "debian", "fedora", "store1", "store2", "store3",
         "brand1", "brand2", "model1", "model2", "", "ubuntu-core", "substore", "k1.k1", "k2.k3", ".k1.", "k9", "$INTERFACE",
         "$OTHER", "$PLUG_PUBLISHER_ID", "$SLOT_PUBLISHER_ID", "$UNKNOWN", "brand1/model1", "brand1/model2", "brand2/model1",
         "brand2/model2"]


def _ident(x):
    for a, b in (("-", "_"), ("$", "D_"), (".", "_dot_"), ("/", "_sl_")):
        x = x.replace(a, b)
    return "s_" + x


_PRELUDE = "\n".join('Definition %s : bytes := bs "%s".' % (_ident(x), x) for x in _POOL)


def classify(case):
    return None


SPEC = dict(
    prop="C21",
    disabled="under construction",
    coq_targets=["props/C21.vo"],
    drivers=[
        dict(name="policy", kind="main", pkg="./zzverif/c21",
             n=dict(quick=400, thorough=12000),
             timeout=dict(quick=300, thorough=1800),
             ev=dict(requires=["V.lib.Bytes", "V.models.Policy"], case_type="Policy.case",
                     mismatch="Policy.mismatch", monitor="Policy.monitor_fail", prelude=_PRELUDE)),
    ],
    classify=classify,
    rule="",
    exhaustive=dict(quick=False, thorough=False),
    trusted_base=[],
    assumptions=[],
)
