"""C21 — interface connection decisions follow the declared policy rules (DESIGN.md §2 C21)."""

# the generator pools of harness/overlay/zzverif/c21/gen.go; the driver prints these strings as identifiers
_POOL = ["ia", "ib", "ic", "n1", "n2", "k1", "k2", "k3", "x", "y", "true", "5", "-3", "pub-one", "pub-two", "canonical",
         "snapidsnapidsnapidsnapidsnapid01", "snapidsnapidsnapidsnapidsnapid02", "snapidsnapidsnapidsnapidsnapid03",
         "core", "kernel", "gadget", "app", "os", "snapd", "base", "ubuntu", "debian", "fedora", "store1", "store2", "store3",
         "brand1", "brand2", "model1", "model2", "", "ubuntu-core", "substore", "k1.k1", "k2.k3", ".k1.", "k9", "$INTERFACE",
         "$OTHER", "$PLUG_PUBLISHER_ID", "$SLOT_PUBLISHER_ID", "$UNKNOWN", "brand1/model1", "brand1/model2", "brand2/model1",
         "brand2/model2",
         "led", "buzzer", "led-admin", "xbuzzer", "xn1x", "ledbuzzer", "le", "led|buzzer", "buzzer|led", "n1|n2", "led|n1|buzzer",
         "ia|led", "n2|led-admin", "xq", "qy", "qxq", "x|y", "y|5|x", "true|-3"]


def _ident(x):
    for a, b in (("-", "_"), ("$", "D_"), (".", "_dot_"), ("/", "_sl_"), ("|", "_bar_")):
        x = x.replace(a, b)
    return "s_" + x


_PRELUDE = "\n".join('Definition %s : bytes := bs "%s".' % (_ident(x), x) for x in _POOL)


def classify(case):
    return None


SPEC = dict(
    prop="C21",
    coq_targets=["props/C21.vo"],
    drivers=[
        dict(name="policy", kind="main", pkg="./zzverif/c21",
             n=dict(quick=560, thorough=12000),
             timeout=dict(quick=300, thorough=1800),
             ev=dict(requires=["V.lib.Bytes", "V.models.Policy"], case_type="Policy.case",
                     mismatch="Policy.mismatch", monitor="Policy.monitor_fail", prelude=_PRELUDE)),
    ],
    classify=classify,
    rule=("a fixed list of the shapes named in the property (no declaration, interface mismatch, deny and allow both matching, "
          "the four levels disagreeing in both directions, on-core-desktop true/false on classic / core / core desktop as allow and as deny constraint at each of the four levels and for installation on both sides and both levels, publisher-id lists of 2-3 entries with $PLUG/$SLOT_PUBLISHER_ID or an unknown $X in every position x resolvable / unresolvable x the compared publisher equal to an earlier / later literal, the special's value, nothing or unset, on plug and slot rules as allow and deny, snap-id lists for installation, device scope with and without a model and with friendly stores, $SLOT_PUBLISHER_ID, nested map/list attribute constraints, slots-per-plug forms, $PLUG_PUBLISHER_ID with and without "
          "declarations) followed by random candidates: 40% Check, 40% CheckAutoConnect, 20% InstallCandidate.Check. Each has "
          "a random environment (system kind classic / core / core desktop, os id, optional model brand/model/store, optional store assertion "
          "with friendly stores), plug and slot (name, interface from 3, snap type from app/gadget/kernel/os/snapd/base, "
          "nested static and dynamic attributes), optional plug/slot snap-declarations and a base-declaration whose rules "
          "(per interface: shortcut, or up to six subrules each a shortcut, one alternative or a list) carry 1-3 constraints "
          "from plug-names/slot-names (literals and top-level alternations of literals such as led|buzzer, $INTERFACE, unknown $X; candidate names include proper prefixes, suffixes, extensions and superstrings of the alternatives: le, led-admin, xbuzzer, ledbuzzer, xn1x), plug/slot-attributes (maps, alternatives, nested maps, "
          "literals and alternations of literals (values include xq, qy, qxq next to x|y), $MISSING, $SLOT(path), $PLUG(path), $PLUG/SLOT_PUBLISHER_ID), snap types, snap ids, publisher ids (incl. "
          "$PLUG/$SLOT_PUBLISHER_ID, unknown $X), slots-per-plug, on-classic (bool or distro list), on-core-desktop, "
          "on-store/on-brand/on-model; presence per level is drawn so that each of the four levels decides in a fair share. "
          "Every declaration is signed with an assertstest key and decoded from its text form. 4% of the cases carry a "
          "malformed rule (empty rule map, connection alternative without constraints, misplaced slots-per-plug). Each case "
          "is run three times on the real code: as is, with a deny alternative added to every rule, with the rules below the "
          "deciding level replaced. Non-trivial = some level has a rule for the interface and the declarations compile."),
    exhaustive=dict(quick=False, thorough=False),
    trusted_base=[
        "hand-written model coq/models/Policy.v of interfaces/policy/{policy,helpers}.go, asserts/ifacedecls.go (rule compilation: shortcuts, defaults, alternatives) and asserts/constraint.go (attribute matchers, device scope), tied by the differential run (harness/overlay/zzverif/c21)",
        "the driver classifies leaf strings of attribute constraints ($MISSING, $SLOT(), $PLUG(), $*_PUBLISHER_ID, literal) and projects snap.Info.Type() to a string; Go regexp is not modelled: generated name/attribute patterns are literals or top-level alternations of literals over [a-z0-9-]",
        "release.OnClassic / release.ReleaseInfo / release.OnCoreDesktop are set by the driver (exported variables)",
    ],
    assumptions=[
        "regular expressions in plug-names/slot-names and attribute constraints are restricted to top-level alternations of literals (model and generator), matched against the whole string; the rest of the regexp language is outside the model",
        "attribute values are strings, bools, int64, lists and string-keyed maps (no nil, no floats)",
        "plugs-per-slot, and slots-per-plug of plain (non-auto) connections, are not in the tie: the code normalises them to `*` and ConnectCandidate.Check does not return them",
        "InstallCandidateMinimalCheck (--dangerous installs) is not modelled",
    ],
)
