"""C03 — every change settles and its reported status is consistent and monotone (DESIGN.md §2 C03).
Shares the model coq/models/TaskEngine.v and the driver harness/overlay/overlord/state/zz_verif_c01_test.go with C01/C02."""


def classify(case):
    # finding 11 (Change.Abort on an unready change panicked) was repaired in /repo by d3068df: nothing maps to a known
    # key any more; a panic seen by the f11 regression entry is an ordinary violation.
    return None


_REQ = ["V.models.TaskEngine"]

SPEC = dict(
    prop="C03",
    overlay_tags=["c01"],
    coq_targets=["props/C03.vo"],
    drivers=[
        dict(name="hist", kind="test", pkg="./overlord/state", run="TestVerifC03Hist",
             n=dict(quick=220, thorough=6000), timeout=dict(quick=240, thorough=1500),
             ev=dict(requires=_REQ, case_type="TaskEngine.case", mismatch="TaskEngine.mismatch",
                     monitor="TaskEngine.monitor_fail03")),
        dict(name="f11", kind="test", pkg="./overlord/state", run="TestVerifC03F11",
             n=dict(quick=60, thorough=2000), timeout=dict(quick=240, thorough=1500),
             ev=dict(requires=_REQ, case_type="TaskEngine.case", mismatch="TaskEngine.mismatch",
                     monitor="TaskEngine.f11_fail")),
    ],
    classify=classify,
    rule=("hist: random histories of the REAL overlord/state TaskRunner on random task DAGs (1-7 tasks, 1-9 thorough; lanes, "
          "multi-lane tasks, tasks without undo handler; failures in do and undo handlers, Retry, Wait and its resolution, "
          "clock ticks, user aborts in a quarter of the histories), drained until the change settles; after every event "
          "Change.Status, IsReady, ReadyTime, Err and the task statuses are recorded and the Coq model replays the event "
          "list. The monitor checks on the observed values: Status equals the independently written aggregate in every observation, Wait branch included: undo chains whose far-end undo handler answers Wait{Undone}, parked lanes and 25% typed Wait answers are generated (memo-free "
          "blocked-on-Wait statement + priority list), IsReady <-> ready time set <-> every task ready, once ready the "
          "change stays ready with a ready status, Err names exactly the failed tasks, each with the error it failed with (handlers may log ERROR lines of their own and ask for Retry before failing; error texts contain format verbs such as `100% full`, `%s`, `%d%%`), no panic "
          "outside a user abort. f11: graphs of 1-4 tasks run for 0-10 random steps with a 15% chance of Change.Abort per "
          "step, stopping at the abort; first case is the scripted witness [C waits A,B; A,B done; abort]. Its monitor "
          "flags every abort of an UNREADY change that panicked (finding 11). Non-trivial = the change settled or panicked."),
    exhaustive=dict(quick=False, thorough=False),
    trusted_base=[
        "hand-written model coq/models/TaskEngine.v of overlord/state (change.go Status/isChangeWaiting/isTaskWaiting/detectChangeReady/taskStatusChanged/markReady/Abort/Err, task.go SetStatus/changeStatus), tied by the differential run (harness/overlay/overlord/state/zz_verif_c01_test.go)",
        "goroutine scheduling is modelled by the event list (see C01); change-update notices and Change.SetStatus (explicit change status) are not modelled",
        "the model's abort (quiet status rewrite, then one readiness evaluation) mirrors Change.deferReadyDetection of commit d3068df (notes/C03-fix.diff as applied)",
    ],
    assumptions=["PARTIAL: proved: Status is ready iff all tasks are ready; Status equals the independently written aggregate, Wait branch included, in every reachable state of a tame history on a closed acyclic graph (and for any task list under explicit graph/no-mixing hypotheses); the ready flag is never reset (all event lists); over all histories in which user aborts hit unready changes only: no panic, IsReady <-> all tasks ready, running handlers belong to unready tasks, an abort of an unready change never panics nor marks the change ready while a task is unready, a ready change is final. a task is in Error iff its handler returned an error, Err names exactly those tasks whenever the change reports Error, the status table of a settled change. Settling is proved (C03_settles: after n(5n+1)+5n+1 rounds of Ensure + finishing every running handler, from any tame state without Wait tasks or delayed retries, every task is ready). NOT proved, only monitored: the TEXT of the Err lines (task logs and formatting are not modelled).",
                 "user aborts are issued on unready changes only (daemon.abortChange checks IsReady); the driver also aborts ready changes occasionally to show the guard is needed (C03_abort_ready_refuted) and the monitor ignores those panics only",
                 "finding 11 (Change.Abort on an unready change could panic) is repaired in /repo (d3068df, KNOWN_FINDINGS `fixed:`); the f11 driver entry is its regression test"],
)
