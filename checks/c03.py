"""C03 — every change settles and its reported status is consistent and monotone (DESIGN.md §2 C03).
Shares the model coq/models/TaskEngine.v and the driver harness/overlay/overlord/state/zz_verif_c01_test.go with C01/C02."""


def classify(case):
    # finding 11: only the dedicated driver entry (mode f11, monitor TaskEngine.f11_fail = `a user abort issued on an
    # UNREADY change panicked with "unexpectedly became unready"`) can map to the known key; any failure of the
    # general C03 monitor (driver entry hist) is reported as a violation.
    i = case.get("input") or {}
    if i.get("mode") != "f11":
        return None
    steps = case.get("observed") or []
    if not steps:
        return None
    last = steps[-1]
    was_ready = steps[-2]["obs"]["ready"] if len(steps) > 1 else False
    if last["ev"]["k"] == "abort" and last["obs"]["panic"] and not was_ready:
        return "abort-unready-transient-ready"
    return None


_REQ = ["V.models.TaskEngine"]

SPEC = dict(
    prop="C03",
    overlay_tags=["c01"],
    coq_targets=["props/C03.vo"],
    drivers=[
        dict(name="hist", kind="test", pkg="./overlord/state", run="TestVerifC03Hist",
             n=dict(quick=220, thorough=6000), timeout=dict(quick=240, thorough=1500),
             ev=dict(requires=_REQ, case_type="TaskEngine.case", mismatch="TaskEngine.mismatch",
                     monitor="TaskEngine.monitor_fail03")),
        dict(name="f11", kind="test", pkg="./overlord/state", run="TestVerifC03F11",
             n=dict(quick=60, thorough=2000), timeout=dict(quick=240, thorough=1500),
             ev=dict(requires=_REQ, case_type="TaskEngine.case", mismatch="TaskEngine.mismatch",
                     monitor="TaskEngine.f11_fail")),
    ],
    classify=classify,
    rule=("hist: random histories of the REAL overlord/state TaskRunner on random task DAGs (1-7 tasks, 1-9 thorough; lanes, "
          "multi-lane tasks, tasks without undo handler; failures in do and undo handlers, Retry, Wait and its resolution, "
          "clock ticks, user aborts in a quarter of the histories), drained until the change settles; after every event "
          "Change.Status, IsReady, ReadyTime, Err and the task statuses are recorded and the Coq model replays the event "
          "list. The monitor checks on the observed values: Status equals the independently written aggregate (memo-free "
          "blocked-on-Wait statement + priority list), IsReady <-> ready time set <-> every task ready, once ready the "
          "change stays ready with a ready status, Err names exactly the failed tasks with their messages, no panic "
          "outside a user abort. f11: graphs of 1-4 tasks run for 0-10 random steps with a 15% chance of Change.Abort per "
          "step, stopping at the abort; first case is the scripted witness [C waits A,B; A,B done; abort]. Its monitor "
          "flags every abort of an UNREADY change that panicked (finding 11). Non-trivial = the change settled or panicked."),
    exhaustive=dict(quick=False, thorough=False),
    trusted_base=[
        "hand-written model coq/models/TaskEngine.v of overlord/state (change.go Status/isChangeWaiting/isTaskWaiting/detectChangeReady/taskStatusChanged/markReady/Abort/Err, task.go SetStatus/changeStatus), tied by the differential run (harness/overlay/overlord/state/zz_verif_c01_test.go)",
        "goroutine scheduling is modelled by the event list (see C01); change-update notices and Change.SetStatus (explicit change status) are not modelled",
        "abort_change_fixed in the model is the proposed repair notes/C03-fix.diff, not code that exists in /repo",
    ],
    assumptions=["PARTIAL: proved: Status is ready iff all tasks are ready; Status equals the priority aggregate when no task is in Wait; the ready flag is never reset (all event lists); over all histories WITHOUT user aborts: no panic, IsReady <-> all tasks ready, running handlers belong to unready tasks, a ready change is final; finding 11 witness and the repair on it. NOT proved, only monitored: settling (liveness), the Wait branch of the aggregate against the memo-free statement, ready-once for histories with user aborts of unready changes (false on the current code: finding 11), Err.",
                 "user aborts are issued on unready changes only (daemon.abortChange checks IsReady); the driver also aborts ready changes occasionally to show the guard is needed (C03_abort_ready_refuted) and the monitor ignores those",
                 "KNOWN FINDING abort-unready-transient-ready (finding 11): Change.Abort on an unready change can panic; recorded, not repaired; proposed fix in notes/C03-fix.diff"],
)
