"""C35 — revisions and epochs round-trip; epoch compatibility is set intersection (DESIGN.md §2 C35)."""


def classify(case):
    i = case.get("input") or {}
    if i.get("kind") == "rev" and i.get("n") == -9223372036854775808:
        return "rev-minint64"
    return None


SPEC = dict(
    prop="C35",
    coq_targets=["props/C35.vo"],
    drivers=[
        dict(name="codec", kind="main", pkg="./zzverif/c35",
             n=dict(quick=1500, thorough=40000),
             ev=dict(requires=["V.lib.Bytes", "V.models.RevEpoch"], case_type="RevEpoch.case",
                     mismatch="RevEpoch.mismatch", monitor="RevEpoch.monitor_fail")),
    ],
    classify=classify,
    rule=("revisions: boundary integers (0, +-1, powers, int32/int64 limits) plus random int64 of every magnitude, each "
          "through String/ParseRevision, encoding/json and yaml.v2; revision strings: a fixed list of edge cases plus random "
          "strings over `x0-9unset+- \"` (quoted and bare, 17-21 digit overflow candidates) through ParseRevision and "
          "Revision.UnmarshalJSON; epochs: ALL (read, write) pairs with each side nil or a list of length <= 2 over {0,1,2}, "
          "plus random lists (nil, explicitly empty, strictly increasing, non-monotone, > 10 entries, values next to 2^32) "
          "with a second epoch for CanRead, each through Validate/String/MarshalJSON and parsed back with encoding/json; "
          "epoch strings: edge list plus random `N`/`N*`/garbage through json.Unmarshal. Non-trivial = revision != 0, "
          "accepted string, valid non-zero epoch (distinct inputs only)."),
    exhaustive=dict(quick=False, thorough=False),
    trusted_base=[
        "hand-written model coq/models/RevEpoch.v of snap/revision.go and snap/epoch.go, tied by the differential run (harness/overlay/zzverif/c35/main.go)",
        "decimal printing/parsing modelled with the standard library's N.to_uint / N.of_uint (coq/lib/Dec.v)",
        "encoding/json and yaml.v2 themselves are not modelled: the structured epoch form is read by a model reader for the exact bytes json.Marshal prints; arbitrary JSON spellings (white space, key order, unknown keys, null) are outside the model and only run on the implementation",
    ],
    assumptions=["PARTIAL only with respect to encoding/json and yaml.v2, which are not modelled: the epoch round trip is proved for the short forms through fromString and for the structured form through a reader of exactly the byte language json.Marshal prints (no white space, fixed key order) followed by fromStructured; that Go's decoder reads those bytes the same way is checked by the differential run on every generated epoch. Revision round trip, rejection, CanRead = set intersection and valid-reads-self are proved in full.",
                 "Go int is 64 bit (amd64)",
                 "Revision.UnmarshalJSON on the single byte `\"` (never produced by encoding/json) panics in the Go code and is not exercised",
                 "epoch numbers are uint32: theorems assume list entries < 2^32"],
)
