"""C18 — only correctly signed, currently valid assertions are accepted (DESIGN.md §2 C18)."""


def classify(case):
    i = case.get("input") or {}
    if (i.get("mut") or {}).get("kind") == "unhashed":
        return "sig-unhashed-subpacket"
    return None


SPEC = dict(
    prop="C18",
    disabled="under construction",
    coq_targets=["props/C18.vo"],
    drivers=[
        dict(name="check", kind="test", pkg="./asserts", run="TestVerifC18",
             n=dict(quick=300, thorough=6000),
             timeout=dict(quick=300, thorough=1800),
             ev=dict(requires=["V.lib.Bytes", "V.models.AssertCheck"], case_type="AssertCheck.case",
                     mismatch="AssertCheck.mismatch", monitor="AssertCheck.monitor_fail")),
    ],
    classify=classify,
    rule="",
    exhaustive=dict(quick=False, thorough=False),
    trusted_base=[],
    assumptions=[],
)
