"""C18 — only correctly signed, currently valid assertions are accepted (DESIGN.md §2 C18)."""


# Known classes of accepted assertions whose DECODED signature differs from the signed one while the signature core (what
# verification reads) is the same. The driver names the class from the bytes (observed.sig_change); any other class, and
# any accepted change of the core or of the content, stays a violation.
_SIG_CLASSES = {
    "unhashed": "sig-unhashed-subpacket",
    "mpi-bitlength": "sig-mpi-bitlength",
    "packet-length": "sig-packet-length",
    "packet-header-form": "sig-packet-header-form",
}


def classify(case):
    o = case.get("observed") or {}
    if o.get("accepted"):
        return _SIG_CLASSES.get(o.get("sig_change"))
    return None


SPEC = dict(
    prop="C18",
    coq_targets=["props/C18.vo"],
    drivers=[
        dict(name="check", kind="test", pkg="./asserts", run="TestVerifC18",
             n=dict(quick=270, thorough=6000),
             timeout=dict(quick=300, thorough=1800),
             ev=dict(requires=["V.lib.Bytes", "V.models.AssertCheck"], case_type="AssertCheck.case",
                     mismatch="AssertCheck.mismatch", monitor="AssertCheck.monitor_fail")),
    ],
    classify=classify,
    rule=("real asserts.Database (memory backstore, optionally a WithStackedBackstore database on top; trusted root account + root key) and a signing key whose account-key "
          "assertion (signed by the root) is trusted / stored / absent, for the assertion's authority or another account, "
          "with since/until and optional header constraints; the assertion is a `model` (timestamped), `test-only` or `test-only-2` signed "
          "with that key. Enumerated first: clock (MockTimeNow) and timestamp at since-1, since, since+1, until-1, until, "
          "until+1 for trusted and stored keys and both types, the same with SetEarliestTime, no-until key far in the "
          "future, unknown key, other authority, five constraint sets that admit / do not admit; eight constraints headers naming assertion types unknown to this snapd (`future-assertion-type`), alone and mixed with known types, x assertions of three types (model, test-only, test-only-2) x trusted / stored key; the SAME account-key at two revisions in two layers (trusted+stored, stacked top+stored, trusted+stacked top via Database.WithStackedBackstore) with the first layer holding the newer revision (expired / constrained / moved to another account / not yet valid / prolonged) or the older one, with both clock modes; structural mutations "
          "(signature of another genuine assertion; re-framings of the signature packet: extra unhashed subpacket, smaller MPI bit length with the same byte count, overstated packet length, old-format and five-octet packet headers, MPI with a leading zero byte; duplicated / added / swapped header lines). "
          "Then random: single-bit and byte xor, byte insertion, byte deletion at random offsets of the encoded assertion "
          "(headers, separator, base64 signature), 20% random key situation x clock x timestamp without mutation. Observed: "
          "decode ok, Check accepted, Add accepted and found again. Non-trivial = the key is known to the database."),
    exhaustive=dict(quick=False, thorough=False),
    trusted_base=[
        "hand-written model coq/models/AssertCheck.v of asserts/database.go (Check, findAccountKey, DefaultCheckers) and asserts/account_key.go (validity window, constraints), tied by the differential run (harness/overlay/asserts/zz_verif_c18_test.go, in-package test so that asserts.MockTimeNow is available)",
        "RSA / SHA-512 / OpenPGP packet parsing are NOT modelled: `verify` is a Section variable; the correspondence instantiates it with the idealised signature relative to the genuinely signed (key id, content, signature core)",
        "the driver projects an assertion to (authority, sign key id, timestamp, string headers, content, base64-decoded signature, signature core = version, type, algorithms, hashed subpackets, hash tag and MPI bytes of the OpenPGP signature packet; sig_change = which framing field differs from the genuine signature)",
    ],
    assumptions=[
        "PARTIAL: signature verification is an oracle; `C18_any_mutation_rejected_partial` holds under the hypothesis that only genuinely produced (key, content, signature core) triples verify; on the real code the conclusion is checked for byte and structural mutations only",
        "KNOWN FINDINGS sig-unhashed-subpacket, sig-mpi-bitlength, sig-packet-length, sig-packet-header-form: the decoded signature is not pinned down by verification (only its core is); `C18_decoded_signature_mutation_refuted`. An accepted assertion whose decoded signature differs in any OTHER way, or whose core or content differs, is a violation",
        "assertion types without authority (account-key-request, serial-request, device-session-request) and CheckCrossConsistency are outside the model; the driver uses types whose cross-consistency check is trivial",
        "account-key constraints are restricted to literal header values; times are whole seconds",
    ],
)
