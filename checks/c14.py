"""C14 — no two in-progress changes ever operate on the same snap (DESIGN.md §2 C14)."""


def classify(case):
    return None


SPEC = dict(
    prop="C14",
    disabled="under construction",
    gens=[dict(name="ConflictKinds", cmd=["go", "run", "-C", "translators", "main.go", "conflictkinds.go", "conflictkinds"],
               what="case literals and clause shapes of checkChangeConflictExclusiveKinds and isIrrelevantChange")],
    drivers=[
        dict(name="direct", kind="test", pkg="./overlord/snapstate", run="TestVerifC14Direct",
             n=dict(quick=300, thorough=5000), timeout=dict(quick=300, thorough=1500),
             ev=dict(requires=["V.lib.Bytes", "V.models.Conflict"], case_type="Conflict.case",
                     mismatch="Conflict.mismatch", monitor="Conflict.monitor_fail")),
    ],
    classify=classify,
    rule="",
    exhaustive=dict(quick=True, thorough=True),
    trusted_base=[],
    assumptions=[],
)
