"""C14 — no two in-progress changes ever operate on the same snap (DESIGN.md §2 C14)."""


def classify(case):
    """no recorded finding: the former class new-exclusive-vs-refresh is repaired in /repo (commit ed8df80, `fixed:` line in
    KNOWN_FINDINGS); the direct cases of that class stay in the exhaustive enumeration and must now observe a conflict"""
    return None


SPEC = dict(
    prop="C14",
    # only main.go + conflictkinds.go are compiled, so another builder's half-written translator cannot break this one
    gens=[dict(name="ConflictKinds", cmd=["go", "run", "-C", "translators", "main.go", "conflictkinds.go", "conflictkinds"],
               what="case literals and clause shapes of checkChangeConflictExclusiveKinds and isIrrelevantChange")],
    drivers=[
        dict(name="direct", kind="test", pkg="./overlord/snapstate", run="TestVerifC14Direct",
             n=dict(quick=200, thorough=4000), timeout=dict(quick=300, thorough=1500),
             ev=dict(requires=["V.lib.Bytes", "V.models.Conflict"], case_type="Conflict.case",
                     mismatch="Conflict.mismatch", monitor="Conflict.monitor_fail")),
        dict(name="history", kind="test", pkg="./overlord/snapstate", run="TestSnapManager", gocheck="verifC14Suite",
             n=dict(quick=60, thorough=1500), timeout=dict(quick=300, thorough=1500),
             ev=dict(requires=["V.lib.Bytes", "V.models.Conflict"], case_type="Conflict.case",
                     mismatch="Conflict.mismatch", monitor="Conflict.monitor_fail")),
        dict(name="iface", kind="test", pkg="./overlord/ifacestate", run="TestInterfaceManager",
             gocheck="verifC14IfaceSuite.TestVerifC14Iface$",
             n=dict(quick=30, thorough=800), timeout=dict(quick=300, thorough=1500),
             ev=dict(requires=["V.lib.Bytes", "V.models.Conflict"], case_type="Conflict.case",
                     mismatch="Conflict.mismatch", monitor="Conflict.monitor_fail")),
        dict(name="snapshots", kind="test", pkg="./overlord/snapshotstate", run="TestVerifC14Snapshots",
             n=dict(quick=20, thorough=600), timeout=dict(quick=300, thorough=1500),
             ev=dict(requires=["V.lib.Bytes", "V.models.Conflict"], case_type="Conflict.case",
                     mismatch="Conflict.mismatch", monitor="Conflict.monitor_fail")),
    ],
    classify=classify,
    rule=("direct: one synthetic change in a fresh state, EVERY combination of kind (the 7 special-cased exclusive kinds, the 2 exempt "
          "kinds, install-snap, remove-snap, auto-refresh) x task shape (no task / affected snap via snap-setup, via snap-setup-task, "
          "via a by-kind function, none / Done and not Done tasks mixed) x snapd prepare-snap task (none, lower, higher, empty "
          "version, other snap) x ignored change id (none, this change, unknown id) x query (CheckChangeConflictMany on several snap "
          "sets, checkChangeConflictExclusiveKinds for a new exclusive change, checkChangeConflictIgnoringOneChange with nil / equal "
          "/ modified SnapState), one query per case (quick tier: a covering subset of the queries); plus random states of 0-4 such "
          "changes. history: through the public API with the suite's fake store and backend: every ordered pair of requests among "
          "Remove/Disable/Enable/Revert/Switch/Update/Install on 4 snaps (quick: all same-snap pairs and a sample of the others), "
          "repeated after the first change made partial progress and after it finished; plus random sequences of 4-14 requests and "
          "progress events (task Done, task back to Do, finish change); the history driver also asks snapstate.Alias / "
          "DisableAllAliases / Prefer. iface: with interfaceManagerSuite's fixtures (consumer:plug-producer:slot connected and active, "
          "consumer:plug2-producer:slot2 remembered in `conns` but not active, consumer2:plug free) the entry points ifacestate.Connect, "
          "Disconnect, Forget(active), Forget(remembered but inactive), Forget(unknown), each with another change (enable-snap / "
          "pre-download / remodel) on the plug snap, the slot snap or an unrelated snap in progress and after it finished, and asked "
          "twice in a row (45 histories in the quick tier) + 30 random histories; recorded like the history driver; the model operation "
          "names the two snaps of the connection as checked and the affected snaps of the tasks created, the monitor also demands "
          "that the tasks of an accepted request affect only checked snaps. snapshots: snapshotstate.Save (one / two snaps), Restore "
          "(whole set / one snap of it), Check, Forget with another change (install-snap / pre-download / remodel) on a snap of the "
          "request or another snap in progress and finished, asked twice (29 histories) + 20 random; a refused Save must not allocate "
          "a snapshot set id (checked by the driver). Non-trivial = at least one change present (direct) / a "
          "rejected and two accepted requests (history)."),
    exhaustive=dict(quick=False, thorough=True),
    trusted_base=[
        "translators/conflictkinds.go (go/ast): kinds per clause shape of checkChangeConflictExclusiveKinds / isIrrelevantChange; dies if a clause has another shape",
        "hand-written model coq/models/Conflict.v of overlord/snapstate/conflict.go, tied by the differential runs "
        "(harness/overlay/overlord/snapstate/zz_verif_c14_test.go, zz_verif_c14_api_test.go)",
        "changeIsSnapdDowngrade (version comparison, reading the current snapd info) is an attribute of the modelled change, validated by the direct driver on four version situations",
        "the iface driver puts other subsystems' changes into the state directly (model operation Inject, outside the theorems' "
        "well-formed histories); ifacestate's auto-connect / hotplug / ConnectOnInstall paths (tasks created inside running changes) are not exercised",
        "in the history driver handlers never run: progress is made by setting task statuses; the suite's fakeStore / fakeSnappyBackend stand for the store and the system",
    ],
    assumptions=[
        "the per-snap invariant is about requests that go through the conflict check and whose tasks affect only snaps they checked (req_wf); "
        "call sites that create tasks without calling CheckChangeConflict* are outside the model (which API calls the check is tied by the "
        "history and iface drivers for Remove/Disable/Enable/Revert/Switch/Update/Install, Alias/DisableAllAliases/Prefer, "
        "ifacestate.Connect/Disconnect/Forget, snapshotstate.Save/Restore/Check/Forget, CheckChangeConflictRunExclusively (direct); "
        "devicestate.Remodel and the recovery-system requests themselves, quota and service requests, RemoveManualAlias, snapctl-initiated "
        "requests are not exercised)",
        "a finished change is final: no progress events or tasks are added to a change whose tasks are all ready (Change.IsReady is sticky in the code)",
        "a change without tasks counts as ready (Change.Status() is Hold); Change.IsReady() is false for it but it has no task to conflict with",
        "which conflicting change the error names depends on map iteration order and is not compared; only conflict / no conflict is",
    ],
)
