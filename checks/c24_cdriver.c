/* C24 — driver around the REAL C validators of snapd. Built at check time in the scratch directory from
 *   /repo/cmd/libsnap-confine-private/{snap,error,string-utils,utils,cleanup-funcs,panic}.c   (unmodified)
 *   /repo/cmd/snap-update-ns/bootstrap.c                                                     (unmodified)
 * with an empty config.h and a sys/capability.h that includes <linux/capability.h> (see checks/c24.py).
 *
 * Protocol (stdin -> stdout, one answer line per request line; strings are hex with a leading x, so x = empty):
 *   N x<hex>                       -> six 0/1 characters: sc_snap_name_validate sc_instance_name_validate
 *                                     sc_instance_key_validate sc_snap_component_validate(s, NULL)
 *                                     validate_snap_name validate_instance_name
 *   T x<tag> x<instance> x<comp>|- -> one 0/1 character: sc_security_tag_validate(tag, instance, comp or NULL)
 *   H x<tag>                       -> one 0/1 character: sc_is_hook_security_tag(tag)
 */
#include <stdio.h>
#include <stdlib.h>
#include <string.h>
#include <stdbool.h>

#include "libsnap-confine-private/snap.h"
#include "libsnap-confine-private/error.h"

/* cmd/snap-update-ns/bootstrap.c */
int validate_snap_name(const char *snap_name);
int validate_instance_name(const char *instance_name);

/* bootstrap.c calls capset() in a function the driver never runs */
int capset(void *h, void *d)
{
	(void)h;
	(void)d;
	return -1;
}

static int hexval(int c)
{
	if (c >= '0' && c <= '9')
		return c - '0';
	if (c >= 'a' && c <= 'f')
		return c - 'a' + 10;
	return -1;
}

/* decodes x<hex> in place into a NUL terminated string; returns NULL for "-" */
static char *unhex(char *tok)
{
	if (tok == NULL) {
		fprintf(stderr, "c24 driver: missing field\n");
		exit(3);
	}
	if (strcmp(tok, "-") == 0)
		return NULL;
	if (tok[0] != 'x') {
		fprintf(stderr, "c24 driver: bad field %s\n", tok);
		exit(3);
	}
	char *out = tok, *in = tok + 1;
	while (in[0] && in[1]) {
		int v = hexval(in[0]) * 16 + hexval(in[1]);
		if (v <= 0) {
			fprintf(stderr, "c24 driver: bad hex (NUL bytes cannot be passed)\n");
			exit(3);
		}
		*out++ = (char)v;
		in += 2;
	}
	*out = 0;
	return tok;
}

static char ok_err(sc_error ** e)
{
	if (*e != NULL) {
		sc_error_free(*e);
		*e = NULL;
		return '0';
	}
	return '1';
}

int main(void)
{
	char *line = NULL;
	size_t cap = 0;
	while (getline(&line, &cap, stdin) > 0) {
		size_t n = strlen(line);
		if (n && line[n - 1] == '\n')
			line[n - 1] = 0;
		char *save = NULL;
		char *kind = strtok_r(line, " ", &save);
		if (kind == NULL)
			continue;
		if (strcmp(kind, "N") == 0) {
			char *s = unhex(strtok_r(NULL, " ", &save));
			sc_error *e = NULL;
			char out[8];
			sc_snap_name_validate(s, &e);
			out[0] = ok_err(&e);
			sc_instance_name_validate(s, &e);
			out[1] = ok_err(&e);
			sc_instance_key_validate(s, &e);
			out[2] = ok_err(&e);
			sc_snap_component_validate(s, NULL, &e);
			out[3] = ok_err(&e);
			out[4] = validate_snap_name(s) == 0 ? '1' : '0';
			out[5] = validate_instance_name(s) == 0 ? '1' : '0';
			out[6] = 0;
			puts(out);
		} else if (strcmp(kind, "T") == 0) {
			char *tag = unhex(strtok_r(NULL, " ", &save));
			char *inst = unhex(strtok_r(NULL, " ", &save));
			char *comp = unhex(strtok_r(NULL, " ", &save));
			puts(sc_security_tag_validate(tag, inst, comp) ? "1" : "0");
		} else if (strcmp(kind, "H") == 0) {
			char *tag = unhex(strtok_r(NULL, " ", &save));
			puts(sc_is_hook_security_tag(tag) ? "1" : "0");
		} else {
			fprintf(stderr, "c24 driver: unknown request %s\n", kind);
			return 3;
		}
		fflush(stdout);
	}
	return 0;
}
