"""C16 — auto-refresh runs inside timer windows and is never postponed past the limit (DESIGN.md §2 C16)."""
import re


def classify(case):
    """A monitor-failing case is keyed ONLY when every other clause of the monitor holds on it and the failing
    Includes clause has exactly the recorded shape. Anything else (limit clause, in-window clauses, round trip, or an
    Includes failure of another shape, or two different clauses at once) returns None -> VIOLATION."""
    i = case.get("input") or {}
    o = case.get("observed") or {}
    if i.get("kind") != "next" or "includes_start" not in o or "start_unix" not in o:
        return None
    ws, we, last, now = o["start_unix"], o["end_unix"], i.get("last", 0), i.get("now", 0)
    # the in-window clauses of Timer.monitor_fail (CNext), re-evaluated here: all must hold
    if we < now or (ws <= last <= we) or we < ws or ws < (last // 86400) * 86400:
        return None
    inc_start, inc_tail = o["includes_start"], o.get("includes_last_minute", True)
    if inc_start and inc_tail:
        return None
    from2400 = bool(o.get("from_span_starting_2400"))
    if from2400:
        # the window was produced by a flattened clock span whose START is 24:00 (Next places it at 00:00 of the day
        # after the matched day). Such a span never contributes to Includes (C16_span_2400_never_includes), so an instant
        # of this window (its start, its last minute) is rejected unless another span happens to cover it.
        if ws % 86400 == 0:
            return "start-clock-24:00"
        return None
    if inc_start and not inc_tail and o.get("last_minute_on_later_day"):
        # start accepted, last minute rejected, and that minute lies on a later calendar day than the start
        return "window-crossing-midnight-tail"
    return None


SPEC = dict(
    prop="C16",
    coq_targets=["props/C16.vo"],
    gens=[dict(name="RefreshConsts", cmd=["go", "run", "-C", "translators", ".", "refreshconsts"],
               what="maxPostponement, refreshRetryDelay, default timer of overlord/snapstate/autorefresh.go; both timeutil.Next call sites pass maxPostponement; "
                    "Ensure resets nextRefresh when the timer string changed; lastRefreshSchedule assigned only there")],
    drivers=[
        dict(name="timer", kind="test", pkg="./timeutil", run="TestVerifC16",
             n=dict(quick=900, thorough=30000), timeout=dict(quick=300, thorough=1800),
             ev=dict(requires=["V.models.Timer"], case_type="Timer.case", prelude="Open Scope Z_scope.",
                     mismatch="Timer.mismatch", monitor="Timer.monitor_fail")),
        dict(name="text", kind="test", pkg="./timeutil", run="TestVerifC16Text",
             n=dict(quick=700, thorough=30000), timeout=dict(quick=300, thorough=1800),
             ev=dict(requires=["V.lib.Bytes", "V.models.Timer", "V.models.TimerText"], case_type="TimerText.tcase",
                     mismatch="TimerText.tmismatch", monitor="TimerText.tmonitor_fail")),
        dict(name="manager", kind="test", pkg="./overlord/snapstate", run="TestVerifC16Manager", env=dict(TZ="UTC"),
             n=dict(quick=120, thorough=600), timeout=dict(quick=300, thorough=1800),
             ev=dict(requires=["V.lib.Bytes", "V.models.Timer", "V.models.TimerText", "V.models.AutoRefresh"], case_type="AutoRefresh.mcase",
                     prelude="Open Scope Z_scope.", mismatch="AutoRefresh.mmismatch", monitor="AutoRefresh.mmonitor_fail")),
    ],
    classify=classify,
    rule=("timers generated from the documented grammar (1-2 event sets; weekday, numbered weekday, spans incl. wrapping and "
          "numbered ends; clock times incl. 0:00/24:00/23:59, ranges, spread `~`, `/N` splits) plus the documented examples "
          "and the default `00:00~24:00/4`; last = random second in 2000-2040 (UTC), now = last + {negative, 0, minutes, "
          "hours, days, up to 120 days}. next: Schedule.Next(last) with timeNow hooked -> window, Includes(window.Start), "
          "Includes(window.End - 1min); top: timeutil.Next(schedules, last, maxd) with maxd = 95 days or < 3 days, a fifth of them "
          "around the limit; inc: Includes at a random instant; parse: ParseSchedule on grammar timers and on a malformed "
          "stream (random text; valid timers with one character changed/inserted/removed) with the String -> ParseSchedule "
          "round trip. text: ParseSchedule and String on an edge list (empty fragments, `,,` runs, 24:00/24:01/25:00, /0, /2^32, mon0..mon6, "
          "numbered ends, stray separators, upper case, blanks), grammar timers, random text over the timer alphabet and valid timers with 1-2 "
          "characters changed/inserted/removed; the model parser's verdict and AST and the model formatter's bytes are compared with the real ones. "
          "top cases include boundary placement: last+maxd at the first offered window's start-1s/start/start+1s/start-59..61min/middle/end-1s/end/end+1s. "
          "manager: histories of 2-6 steps (set refresh.timer / initial last-refresh / Ensure) against the real autoRefresh manager with the "
          "fixtures of autoRefreshTestSuite (fake store recording list-refresh = an attempt); timers are written relative to the time the history "
          "starts (Ensure reads the real clock): `{+N}` = HH:MM in N minutes, `{d+K}` = weekday in K days; enumerated: planned under A, timer changed to B "
          "(earlier / later / unset / managed / invalid / back to A), first refresh ever, overdue, limit just ahead; plus random histories with valid, "
          "invalid, unset and managed timers. Observed per Ensure: nextRefresh, attempt. "
          "Non-trivial = accepted timer / a history that planned or attempted."),
    exhaustive=dict(quick=False, thorough=False),
    trusted_base=[
        "hand-written model coq/models/Timer.v of timeutil/schedule.go and coq/lib/Civil.v (proleptic Gregorian calendar), tied by the differential run "
        "(harness/overlay/timeutil/zz_verif_c16_test.go); window, Includes and delay results are compared exactly",
        "hand-written model coq/models/TimerText.v of ParseSchedule (incl. the validTime regexp as a hand-written matcher) and Schedule.String, tied by the `text` driver; "
        "decimal printing/parsing through coq/lib/Dec.v (N.to_uint / N.of_uint)",
        "translators/refreshconsts.go (go/ast): maxPostponement, refreshRetryDelay, default timer; shape of the timer-change check in autoRefresh.Ensure and of the timeutil.Next call sites",
        "hand-written model coq/models/AutoRefresh.v of the planning logic of autoRefresh.Ensure, tied by the `manager` driver (harness/overlay/overlord/snapstate/zz_verif_c16_test.go); "
        "autoRefresh.Ensure reads the real clock, so histories run at the current time with timers relative to it (replay reproduces the relative history, not the absolute times); 2 s slack on observed times",
        "UTC only: time zones and DST are not modelled (Go's time package is trusted for UTC date arithmetic)",
        "randutil.RandomDuration is not modelled: for spread windows the delay is checked to lie in [start-now, start-now+bound)",
    ],
    assumptions=["PARTIAL: (a) termination of Schedule.Next's day search is proved (C16_next_fuel, fuel = days(last..now)+64; calendar facts by one vm_compute sweep over a 400-year cycle "
                 "lifted by periodicity); the differential run evaluates the model with fuel 400 days; "
                 "(b) manager level: refresh.hold / gating holds, metered connections, the legacy refresh.schedule option, store failures and changes in flight are not modelled "
                 "(the driver keeps them out); advancing the clock cannot be played (Ensure uses time.Now), so `an attempt at its planned time` is covered by the theorem and by "
                 "checking every PLANNED time, not by waiting for it.",
                 "C16_limit is proved for any list of windows, i.e. for any schedule functions",
                 "the format->parse round trip holds up to norm_sched (Spread/Split of spans with end = start are not printed); theorem and driver use the same normalisation",
                 "all times UTC, whole seconds"],
)
