"""C16 — auto-refresh runs inside timer windows and is never postponed past the limit (DESIGN.md §2 C16)."""
import re


def classify(case):
    i = case.get("input") or {}
    o = case.get("observed") or {}
    if i.get("kind") != "next" or "includes_start" not in o:
        return None
    sched = o.get("sched", "")
    if not o["includes_start"]:
        # a clock span whose START is 24:00 (finding 4)
        if re.search(r"(^|,)24:00", sched):
            return "start-clock-24:00"
        return None
    if not o.get("includes_last_minute", True):
        # the window crosses midnight: its last minute lies on the day after its start
        if o.get("start", "")[:10] != o.get("end", "")[:10]:
            return "window-crossing-midnight-tail"
    return None


SPEC = dict(
    prop="C16",
    coq_targets=["props/C16.vo"],
    drivers=[
        dict(name="timer", kind="test", pkg="./timeutil", run="TestVerifC16",
             n=dict(quick=900, thorough=30000), timeout=dict(quick=300, thorough=1800),
             ev=dict(requires=["V.models.Timer"], case_type="Timer.case", prelude="Open Scope Z_scope.",
                     mismatch="Timer.mismatch", monitor="Timer.monitor_fail")),
    ],
    classify=classify,
    rule=("timers generated from the documented grammar (1-2 event sets; weekday, numbered weekday, spans incl. wrapping and "
          "numbered ends; clock times incl. 0:00/24:00/23:59, ranges, spread `~`, `/N` splits) plus the documented examples "
          "and the default `00:00~24:00/4`; last = random second in 2000-2040 (UTC), now = last + {negative, 0, minutes, "
          "hours, days, up to 120 days}. next: Schedule.Next(last) with timeNow hooked -> window, Includes(window.Start), "
          "Includes(window.End - 1min); top: timeutil.Next(schedules, last, maxd) with maxd = 95 days or < 3 days, a fifth of them "
          "around the limit; inc: Includes at a random instant; parse: ParseSchedule on grammar timers and on a malformed "
          "stream (random text; valid timers with one character changed/inserted/removed) with the String -> ParseSchedule "
          "round trip. Non-trivial = accepted timer."),
    exhaustive=dict(quick=False, thorough=False),
    trusted_base=[
        "hand-written model coq/models/Timer.v of timeutil/schedule.go and coq/lib/Civil.v (proleptic Gregorian calendar), tied by the differential run "
        "(harness/overlay/timeutil/zz_verif_c16_test.go); window, Includes and delay results are compared exactly",
        "UTC only: time zones and DST are not modelled (Go's time package is trusted for UTC date arithmetic)",
        "randutil.RandomDuration is not modelled: for spread windows the delay is checked to lie in [start-now, start-now+bound)",
    ],
    assumptions=["PARTIAL: (a) termination of Schedule.Next's day search is not proved; C16_in_window_partial is conditional on the search succeeding within the fuel "
                 "(400 days in the differential run; a case that needed more would be reported as a mismatch); (b) ParseSchedule/String are not modelled in Coq: "
                 "rejection of malformed timers, well-formedness of accepted ones and the format->parse round trip are MONITORED on the implementation, not proved; "
                 "(c) the call site in overlord/snapstate/autorefresh.go (timeutil.Next(refreshSchedule, lastRefresh, maxPostponement), maxPostponement = 95 days) is read, not extracted.",
                 "C16_limit is proved for any list of windows, i.e. for any schedule functions",
                 "all times UTC, whole seconds"],
)
