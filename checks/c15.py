"""C15 — snap-initiated refresh holds are bounded (DESIGN.md §2 C15)."""


def classify(case):
    """the recorded finding refused-updatemany-drops-holds: a refresh request naming several snaps (UpdateMany) that is
    refused because one snap has running apps, after another snap of the request had been prepared, drops that snap's
    hold records. Only the dedicated histories of the `requests` driver are keyed: exactly one refresh request, naming
    several snaps with a busy one among them, everything else holds and clock ticks. (The former class
    system-hold-until-now is repaired in /repo, commit c2c6542; a recurrence is a VIOLATION.)"""
    ops = (case.get("input") or {}).get("ops") or []
    # hook-rehold-after-refusal: only the dedicated histories of the `hooks` driver contain a hook run that asks for --hold
    # and then issues a further snapctl command (a second --hold, or --proceed before failing)
    hooks = [o for o in ops if o.get("k") == "hook"]
    if hooks and all(o.get("k") in ("hook", "tick") for o in ops):
        multi = [o for o in hooks if "hold" in (o.get("script") or [])[:-1]]
        if len(multi) == 1 and all((o.get("script") or []) == ["hold"] and not o.get("fails") for o in hooks if o is not multi[0]):
            return "hook-rehold-after-refusal"
        return None
    reqs = [o for o in ops if o.get("k") not in ("hold", "tick")]
    if len(reqs) == 1 and reqs[0].get("k") == "update" and len(reqs[0].get("snaps") or []) > 1 and reqs[0].get("busy") \
            and "lr" not in (case.get("input") or {}):
        return "refused-updatemany-drops-holds"
    return None


SPEC = dict(
    prop="C15",
    # only main.go + holdconsts.go are compiled, so another builder's half-written translator cannot break this one
    gens=[dict(name="HoldConsts", cmd=["go", "run", "-C", "translators", "main.go", "holdconsts.go", "holdconsts"],
               what="maxPostponement, maxPostponementBuffer, maxOtherHoldDuration, maxDuration; both gating call sites "
                    "(snapctl refresh --hold, gate-auto-refresh hook error path) pass the zero duration at the auto-refresh level")],
    drivers=[
        dict(name="holds", kind="test", pkg="./overlord/snapstate", run="TestVerifC15Holds",
             n=dict(quick=120, thorough=6000), timeout=dict(quick=300, thorough=1500),
             ev=dict(requires=["V.models.Holds"], case_type="Holds.case",
                     mismatch="Holds.mismatch", monitor="Holds.monitor_fail")),
        dict(name="requests", kind="test", pkg="./overlord/snapstate", run="TestSnapManager", gocheck="verifC15Suite",
             n=dict(quick=40, thorough=1500), timeout=dict(quick=300, thorough=1500),
             ev=dict(requires=["V.models.Holds"], case_type="Holds.case",
                     mismatch="Holds.mismatch", monitor="Holds.monitor_fail")),
        dict(name="hooks", kind="test", pkg="./overlord/hookstate", run="TestHookManager",
             gocheck="verifC15HookSuite.TestVerifC15Hooks$",
             n=dict(quick=12, thorough=400), timeout=dict(quick=300, thorough=1500),
             ev=dict(requires=["V.models.Holds"], case_type="Holds.case",
                     mismatch="Holds.mismatch", monitor="Holds.monitor_fail")),
    ],
    classify=classify,
    rule=("histories of 6-25 operations on 2-4 installed snaps run against the real HoldRefresh / HoldRefreshesBySystem / "
          "ProceedWithRefresh / resetGatingForRefreshed / HeldSnaps with the package clock (timeNow) and LastRefreshTime set by the "
          "driver; after EVERY operation the snaps-hold table (first-held, hold-until, level), HeldSnaps at both levels, the "
          "result (remaining duration / refused) and the clock are recorded. Fixed part: the regression history of the repaired system-hold-until-now defect; snap 1 holding "
          "itself and snap 2 three times with every pair of waits from {1ns,47h,48h-1ns,48h,48h+1ns,10d} for three initial "
          "last-refresh times (108 histories); self holds around the 90 day bound; system holds (timed and forever) across a "
          "refresh; the explicit-duration witness. Random part: op mix hold 36% / system hold 10% / proceed 8% / refresh 10% / "
          "reset or last-refresh alone 6% / tick 30%, ticks landing on or 1 ns next to 48h/90d/95d after earlier events; every "
          "fifth history also uses explicit durations and HoldRefresh with holder system (compared with the model only). "
          "Non-trivial = a history in which a gating snap's hold was reported and a request was refused. "
          "requests driver (gocheck suite with the package's fake store/backend, gate-auto-refresh-hook and refresh-app-awareness on, "
          "running apps faked with MockRefreshAppsCheck): holds by gating snaps, proceeds, clock ticks, last-refresh updates and REAL "
          "snapstate.Update / UpdateMany / Revert requests that are accepted, refused because of running apps, or refused by a change "
          "conflict; fixed part: snap 2 holds snap 1, after 1 h / 47 h a request (5 kinds) hits snap 1, snap 2 holds again, the clock "
          "passes 48 h after the first hold (10 histories), the 2 histories of the recorded finding, 1 conflict history; 40 random "
          "histories. The same table / HeldSnaps / clock observations and the same monitor as the holds driver; the monitor keeps its "
          "own episode starts and allows a hold record to disappear only after proceed, an accepted refresh request, or a refused hold. "
          "Refresh selection: the holds driver also calls snapsToRefresh (auto-refresh phase 2) on a task whose candidates are all "
          "snaps, the requests driver also issues snapstate.UpdateMany without names, general and with Flags.IsAutoRefresh (every "
          "installed snap has an update in the fake store): the snaps it goes on with must be exactly the candidates not reported "
          "by HeldSnaps at that level just before (monitor) and equal the model's refresh_targets. "
          "System-wide hold: the holds driver sets core refresh.hold (unset / forever / a time) through a config transaction and asks "
          "the real SnapHolds (package clock; around the end of the hold to the nanosecond) and the real autoRefresh.isRefreshHeld "
          "(the gate of the scheduler; it reads the REAL clock, so only hold times far in the past or 100 years ahead are used with it), "
          "44 histories in the quick tier. "
          "hooks driver (overlord/hookstate, gateAutoRefreshHookSuite fixtures, clock set through an overlay-only export shim): real runs "
          "of snap-a's gate-auto-refresh hook through the HookManager, the hook body being a script of real `snapctl refresh --hold` / "
          "`--proceed` commands (ctlcmd.Run) that exits 0 or non-zero, so the real Done/Error fallbacks run; fixed part: hold, 24 h, hold, "
          "24 h (or 1 ns less), then each of 7 hook shapes (hold+fail, hold, silent fail, silent ok, proceed, proceed+fail, proceed then "
          "hold), observed again 1 h and 13 h later (14 histories), the 2 histories of the recorded finding; 12 random histories. A "
          "hook run is one atomic step for the monitor: a record that is there before and after it must keep its episode start."),
    exhaustive=dict(quick=False, thorough=False),
    trusted_base=[
        "translators/holdconsts.go (go/ast): constant expressions of the four durations; shape of the two HoldRefresh call sites",
        "hand-written model coq/models/Holds.v of overlord/snapstate/autorefresh_gating.go, tied by the differential run "
        "(harness/overlay/overlord/snapstate/zz_verif_c15_test.go): the whole snaps-hold table and HeldSnaps are compared after every operation",
        "hook runs: the model expands a hook run into HoldRefresh / ProceedWithRefresh calls as ctlcmd/refresh.go and hookstate/hooks.go "
        "do (harness/overlay/overlord/hookstate/zz_verif_c15_test.go); the hook body is a script, snap-confine / the real hook binary are not run; "
        "harness/overlay/overlord/snapstate/zz_verif_c15_export.go (overlay-only, tag verif) exposes the setter of snapstate's clock",
        "refresh requests: whether a request is accepted or refused (running apps, conflicts, store) is an outcome recorded by the "
        "requests driver, not modelled; the model says what each outcome does to the hold records "
        "(harness/overlay/overlord/snapstate/zz_verif_c15_api_test.go; handlers never run, LastRefreshTime is set by the driver)",
        "time.Time arithmetic is modelled as unbounded integer nanoseconds with Sub saturating at int64; monotonic clock readings, "
        "the mtime fallback of lastRefreshed (snaps without LastRefreshTime) and encoding/json of the state are not modelled",
    ],
    assumptions=[
        "the clock does not go backwards and no initial last-refresh time lies in the future",
        "every snap has LastRefreshTime set (the fallback to the snap file's mtime is not exercised)",
        "the 48 h bound is per hold episode (from the appearance of the entry to its removal by proceed / refresh / refusal), as the "
        "property states; a gating snap that is refused and asks again later starts a new episode",
        "resetGatingForRefreshed is modelled for one snap per call (its only call site); pruneGating, pruneSnapsHold (snap removal) are "
        "not operations of the model: both only delete entries, which preserves every invariant proved",
        "KNOWN FINDING refused-updatemany-drops-holds: `a refused refresh request leaves every hold record alone` is proved for requests "
        "that name one snap (C15_refused_refresh_changes_nothing) and refuted for requests naming several (C15_refused_multi_snap_request_refuted); "
        "for those the 48 h bound holds per model episode only, and a refused request ends the episode of the snaps prepared before the refusal",
        "KNOWN FINDING hook-rehold-after-refusal: `a hook run never restarts a hold episode` is proved for hooks that only ask for --hold "
        "or say nothing (C15_hook_hold_is_one_hold, C15_hook_hold_keeps_episode) and refuted for hooks that issue a further snapctl command "
        "after a refused --hold (C15_hook_rehold_refuted); across hook runs a refused hold ends the episode (the property's wording), so a "
        "gating snap whose hold was refused can hold again at the next hook run if the snap was not refreshed in between",
        "system-wide hold: autoRefresh.Ensure itself (timer, metered connection, launchAutoRefresh) is not run; its gate isRefreshHeld is "
        "called directly and compares with time.Now(), not the package clock; the real AutoRefresh with gating through the task runner "
        "(phase 1 -> gate-auto-refresh hooks -> conditional-auto-refresh -> phase 2) is not driven end to end: its pieces are "
        "(hook runs, snapsToRefresh, UpdateMany with IsAutoRefresh, HoldRefresh/ProceedWithRefresh)",
        "an accepted refresh request drops the hold records when its tasks are created, not when the refresh has happened; a refresh change "
        "that later fails or is undone does not restore them (no undo touches snaps-hold), so the gating snap can start a new episode although "
        "the snap was not refreshed: by the property's wording the episode ended with the accepted request; the 90 d bound is unaffected",
        "a system hold requested to end at exactly the current instant is an already expired hold (not reported at that instant "
        "either): the convention of the repair c2c6542; the monitor demands it, C15_system_hold states the exact end",
    ],
)
