"""C15 — snap-initiated refresh holds are bounded (DESIGN.md §2 C15)."""


def classify(case):
    """a history in which the administrator asks for a hold ending exactly at the current clock value"""
    i = case.get("input") or {}
    now = 0
    for op in i.get("ops") or []:
        if op.get("k") == "tick":
            now += op.get("d", 0)
        elif op.get("k") == "syshold" and not op.get("forever") and op.get("t", 0) == now:
            # only the dedicated minimal scenario is keyed: one snap, nothing but ticks around the request
            if i.get("n") == 1 and all(o.get("k") in ("tick", "syshold") for o in i["ops"]):
                return "system-hold-until-now"
    return None


SPEC = dict(
    prop="C15",
    disabled="under construction",
    gens=[dict(name="HoldConsts", cmd=["go", "run", "-C", "translators", "main.go", "holdconsts.go", "holdconsts"],
               what="maxPostponement, maxPostponementBuffer, maxOtherHoldDuration, maxDuration; both gating call sites pass the zero duration")],
    drivers=[
        dict(name="holds", kind="test", pkg="./overlord/snapstate", run="TestVerifC15Holds",
             n=dict(quick=250, thorough=6000), timeout=dict(quick=300, thorough=1200),
             ev=dict(requires=["V.models.Holds"], case_type="Holds.case",
                     mismatch="Holds.mismatch", monitor="Holds.monitor_fail")),
    ],
    classify=classify,
    rule="",
    exhaustive=dict(quick=False, thorough=False),
    trusted_base=[],
    assumptions=[],
)
