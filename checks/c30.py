"""C30 — registry views enforce access and rejected writes change nothing (DESIGN.md §2 C30)."""


def classify(case):
    return None


SPEC = dict(
    prop="C30",
    coq_targets=["props/C30.vo"],
    drivers=[
        dict(name="hist", kind="main", pkg="./zzverif/c30",
             n=dict(quick=200, thorough=12000),
             ev=dict(requires=["V.lib.JsonTree", "V.models.Registry"], case_type="Registry.case",
                     mismatch="Registry.mismatch", monitor="Registry.monitor_fail")),
    ],
    classify=classify,
    rule=("a generated view (1-4 top-level rules, a quarter of them with 1-2 nested content rules; request patterns of 1-3 "
          "parts over a b c d with up to two {placeholders}; storage paths over p q r containing the same placeholders; access "
          "read-write / read / write / default) accepted by registry.New with a schema that rejects the number 99; then 4-14 "
          "random operations on 1-2 live registry.Transaction objects over one committed JSONDataBag: View.Set (values shaped "
          "after the unmatched suffixes of the matching rules, or random nested maps with nulls and the marked 99), View.Unset, "
          "View.Get (also the empty request), Commit; finally all transactions commit and a fresh one reads back every request "
          "that was set; plus four fixed histories. Observed: error class of every Set/Unset (ok / not-found / bad-request / "
          "other), value tree or error class of every Get, verdict and committed databag after every Commit and New. "
          "Non-trivial = at least one Get returned a value."),
    exhaustive=dict(quick=False, thorough=False),
    trusted_base=[
        "hand-written model coq/models/Registry.v of registry/registry.go and registry/transaction.go, tied by the differential run (harness/overlay/zzverif/c30/main.go)",
        "JSON encoding is not modelled (scalars opaque, objects = key-sorted association lists); the schema is a driver-side registry.Schema implementation rejecting the number 99, modelled as Registry.drv_valid; in the theorems the schema is an arbitrary predicate",
    ],
    assumptions=["PARTIAL: read-after-write through the view is proved rule by rule, for nested pairs, and as 'Get returns the merge of the written parts'; that this merge rebuilds the value is not proved. Outside the compared model (RUnsupported, step skipped): a Set whose suffix placeholder is already filled in the storage path (same placeholder name twice in one request pattern; outcome depends on Go map order). Order-dependent Sets (one unmatched suffix a prefix of another) are compared as a relation: accepted-with-these-writes or BadRequest-with-nothing",
                 "single-letter keys (a key >= 1000 in a databag path stands for a {placeholder} sub-key, as the text {x} does in the Go code)",
                 "request and value keys are valid sub-keys; values contain no arrays"],
)
