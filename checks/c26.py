"""C26 — REST API requests are served only to callers the endpoint's access level allows (DESIGN.md §2 C26)."""


def classify(case):
    return None


SPEC = dict(
    prop="C26",
    gens=[dict(name="Endpoints", cmd=["go", "run", "-C", "translators", ".", "endpoints"],
               what="noticeReadInterfaces of daemon/api_notices.go (keys resolved from overlord/state/notices.go) and "
                    "every &Command{Path/PathPrefix, GET/PUT/POST, ReadAccess, WriteAccess} literal registered in the "
                    "`api` list of daemon/api.go, with checker types, polkit action strings and interface names")],
    drivers=[
        dict(name="serve", kind="test", pkg="./daemon", run="TestVerifC26",
             n=dict(quick=400, thorough=6000), timeout=dict(quick=300, thorough=1800),
             ev=dict(requires=["V.lib.Bytes", "V.gen.Endpoints", "V.models.Access"], case_type="Access.case",
                     mismatch="Access.mismatch", monitor="Access.monitor_fail")),
    ],
    classify=classify,
    rule=("serve: the REAL Command.ServeHTTP of a copy of every entry of the runtime `api` slice (same checkers, stub "
          "handlers exactly where the real ones are set) on forged requests. EXHAUSTIVE block: every endpoint x every "
          "registered verb x 16 credentialed RemoteAddr (socket in {snapd.socket, snapd-snap.socket, other, empty} x uid "
          "in {0,1000} x pid of a snap process / plain process) x {no Authorization, valid macaroon of a user in state} x "
          "(polkit, connections) in {(no, none), (yes, all listed interfaces actively connected), (dismissed, all)} "
          "[thorough: all 8 polkit modes x 7 connection sets incl. undesired / hotplug-gone / other snap's / unrelated "
          "interfaces]; plus, per endpoint x registered verb, 18 RemoteAddr strings that carry no credentials (empty, nil "
          "receiver's string, '@', TCP address, pid 0, uid nobody, out-of-range, negative, trailing/leading junk, wrong "
          "order, hex, double iface) and 7 unusual accepted spellings (leading zeros, forged iface= attachments, int32/uint32 "
          "limits, look-alike socket names) with everything else permissive; degraded mode; garbage / non-Macaroon "
          "Authorization headers; every unregistered verb (incl. DELETE, HEAD) with a root caller and with no creds; plus "
          "random points of the wide product. polkit.CheckAuthorization and cgroup.SnapNameFromPid are replaced at the "
          "package's mock points, connections and the user live in a real state.State. Observed: handler ran / 405 / "
          "401-403 / 500 / panic, and inside the handler ucrednetGetWithInterfaces(r.RemoteAddr). WHO-IS-CONNECTED block "
          "(exhaustive): every interface-gated endpoint x verb on the snap socket x calling instance in {some-snap, "
          "some-snap_dev, other-snap, lookup fails} x per listed interface all subsets of these three holding an active "
          "plug-side connection, plus slot-side-only, undesired, hotplug-gone, look-alike interface names (extended, "
          "truncated, upper case), unlisted interface, look-alike plug snap names."
          "plug / slot NAMES varied independently of the interface (plug or slot named like a listed interface while the "
          "interface is `content`; genuine connections with arbitrary names). POLKIT-ACTION block (exhaustive): every "
          "endpoint x verb, plain user, polkit granting exactly one action. "
          "attachparse: attach then parse back on 11 kinds of address x 10 interface strings (incl. the refutation witnesses), first and second attach. viewable: the real noticeTypesViewableBySnap on 3 socket kinds x 7 attachment lists x 32 type lists. snapctl: the real runSnapctl behind the real ServeHTTP with ctlcmd.Run recorded (was it called, with which uid) on every generated address. "
          "cred/parse/attach: (&ucrednet{..}).String() parsed back for boundary and random pid/uid/socket; "
          "ucrednetGetWithInterfaces and ucrednetAttachInterface on mutated credential strings, compared with the model. "
          "Non-trivial = handler ran, or a credentialed caller was denied."),
    exhaustive=dict(quick=True, thorough=True),
    trusted_base=[
        "translators/endpoints.go (go/ast): prints the Command literals registered in daemon/api.go; dies on unknown fields, checker types, build constraints or assignments to verb/access fields",
        "hand-written model coq/models/Access.v of daemon/ucrednet.go, daemon/access.go and the dispatch part of Command.ServeHTTP, tied by the differential run (harness/overlay/daemon/zz_verif_c26_test.go)",
        "the pinned policy table in coq/models/Access.v (path -> weakest admissible level for GET and for PUT/POST): hand-written, pinned from the endpoint table of the tree the check was built on; the theorems show the regenerated table is at least as strict",
        "Go regexp (raddrRegexp) is modelled by a hand-written single-pass matcher; strconv.ParseInt/ParseUint by Coq's decimal parser with explicit 32-bit ranges; both tied by the parse/cred cases",
        "the hand-written spec_notice_ifaces table (notice type -> interfaces) in coq/models/Access.v, pinned like the policy",
        "modelled, not verified: userFromRequest/auth.CheckMacaroon (a boolean `user present`), polkit (an answer per action id), cgroup.SnapNameFromPid (an optional name), ifacestate.ConnectionStates (a list of plug snap, interface, undesired, hotplug-gone); gorilla/mux routing is outside the model (the driver calls Command.ServeHTTP directly)",
    ],
    assumptions=[
        "the attach/parse round trip is proved in full for interface strings without `;` (C26_attach_roundtrip, with & inside the value accounted for); the unguarded statements (socket path with `;`, interface with `;`) are refuted by witnesses that the driver replays on the real code on every run (C26_roundtrip_unguarded_refuted); such strings cannot occur in snapd (listener's own socket path, interface names [a-z0-9-]+)",
        "C26_notices_types_need_connection covers the type filter noticeTypesViewableBySnap only; the per-user filtering of notices (user-id / users filters, noticeViewableByUser) is handler logic outside this property (C08)",
        "dirs.SnapdSocket = /run/snapd.socket and dirs.SnapSocket = /run/snapd-snap.socket (default root directory); only their being different matters to the theorems",
        "connection references in state are well formed (interfaces.ParseConnRef does not fail) and ifacestate.ConnectionStates does not return an error; both error paths deny access in the code; a cgroup lookup that succeeds with an empty snap name is not generated",
        "the round trip is stated for real peers: 0 < pid < 2^31, uid != 2^32-1, socket path without `;` (the listener's own address)",
        "routing (which Command a URL reaches) is gorilla/mux and not part of the property's model",
    ],
)
