"""C04 — a restart at any checkpoint resumes changes without redoing finished work (DESIGN.md §2 C04)."""


def classify(case):
    """the one recorded class: in every restart of the case the restart run and the baseline run (same history without the
    restart) end with the same statuses except for tasks that were persisted in Abort at the crash point (their do handler was
    still running when their lane was aborted), every other clause of the monitor holds, and at least one such task differs.
    The driver evaluates the clauses itself (observed.restarts[].class); anything else - a finished task run again, a lost
    task, a difference at a task that was not in Abort - is not keyed and stays a VIOLATION"""
    obs = case.get("observed") or {}
    rs = obs.get("restarts") or []
    classes = [r.get("class") for r in rs] + [r.get("class") for r in (obs.get("stops") or [])]
    releases_ok = all(r[1] for r in (obs.get("releases") or []))
    if releases_ok and classes and all(c in ("same", "abort-only") for c in classes) and "abort-only" in classes:
        return "restart-with-task-in-abort"
    return None


SPEC = dict(
    prop="C04",
    gens=[dict(name="UnlockOrder", cmd=["go", "run", "-C", "translators", ".", "unlockorder"],
               what="order of marshal / Checkpoint / unlock steps in State.Unlock")],
    drivers=[
        dict(name="ckptorder", kind="test", pkg="./overlord/state", run="TestVerifC04CkptOrder",
             n=dict(quick=12, thorough=200), timeout=dict(quick=300, thorough=1800),
             ev=dict(requires=["V.models.Restart"], case_type="Restart.ocase",
                     mismatch="(fun _ => false)", monitor="Restart.omonitor_fail")),
        dict(name="restart", kind="test", pkg="./overlord/state", run="TestVerifC04Restart",
             n=dict(quick=30, thorough=1500), timeout=dict(quick=300, thorough=1800),
             ev=dict(requires=["V.models.Restart"], case_type="Restart.case",
                     mismatch="Restart.mismatch", monitor="Restart.monitor_fail")),
    ],
    classify=classify,
    rule=("case 0: the scripted witness of the recorded class (two parallel failing tasks, crash after the first has failed). "
          "Then alternately chains (task j waits for task j-1, random extra edges, 1-5 tasks) and general DAGs in the default lane "
          "(2-4 tasks, each edge to an earlier task with probability 2/5, so independent tasks run in parallel); a random set "
          "of failing do handlers (2 cases of 3) and of tasks without undo handler. The change runs through the real "
          "state.TaskRunner; every handler modifies the state (checkpoint while Doing/Undoing) and then blocks on a gate, so the "
          "driver decides the schedule: E = Ensure passes until nothing more starts or changes, F id = that handler returns "
          "(the driver waits for the runner's bookkeeping); policy: E, then release the running handlers oldest start first, "
          "repeat. The Backend keeps every checkpoint payload. EVERY action boundary is a crash point j: restart run = "
          "ReadState(last payload) + fresh runner + same policy; baseline run = a fresh state on which actions 1..j are "
          "replayed, then the same policy (the run without restart in which an Ensure happens at that moment). Compared with "
          "the model: final statuses, statuses at each crash point, final statuses of restart and baseline runs, handler "
          "start counts after the restart. Monitored: restart final = baseline final, same task ids, no do start for a "
          "task past Doing in the payload, no undo start for Undone/Hold/Error, at least one start for a task persisted "
          "Doing/Undoing; what a handler recorded before releasing the lock is in the payload a crash would find right after the "
          "release and at every later crash point (half of the handlers release through st.Unlocker(), the others through Unlock). "
          "At every crash point with handlers in flight also a GRACEFUL STOP: the history replayed on a fresh state, "
          "TaskRunner.Stop() while the do/undo handlers are blocked (they give up with a plain cancellation error once the "
          "runner is stopping and their tomb is dying), ReadState of the last payload, fresh runner, policy: a stopped handler "
          "must leave its task in Doing/Undoing (Abort: Undo/Hold) and the run must end like the baseline. "
          "Non-trivial = some restart caught a task in Doing or Undoing. "
          "Driver ckptorder: 1-3 goroutines doing 4-12 lock/modify/unlock cycles each (every modification bumps a sequence "
          "marker stored in the state data) concurrently with a TaskRunner executing a chain of 1-3 tasks whose handlers also "
          "modify the state, against a Backend whose Checkpoint (a) tries the state mutex (must be held by the caller), "
          "(b) sleeps 0-3 ms pseudo-randomly per call, (c) records the markers in completion order and keeps the payload whose "
          "write completed last; monitored: lock held at every call, markers non-decreasing, last completed marker = newest, "
          "task statuses in that payload = in memory at quiescence; after every release that followed a modification - some "
          "goroutines and handlers release through st.Unlocker() - a completed write contains the modification."),
    exhaustive=dict(quick=False, thorough=False),
    trusted_base=[
        "translators/unlockorder.go (go/ast): the lock-relevant steps of State.Unlock and of the closure of State.Unlocker in source order; the callers of the bare s.unlock() and of s.mu.Unlock() in overlord/state",
        "the persistence assumption of the model (the store holds the payload of the last unlock: checkpoints atomic and in order) is tied by C04_checkpoint_written_under_lock over the regenerated step list and by the ckptorder driver (state lock held during every Backend.Checkpoint call, writes complete in unlock order under concurrent unlockers, a runner and slow writes); the Backend implementation below Checkpoint (the file write) is C06",
        "hand-written compact model coq/models/Restart.v of TaskRunner.Ensure/run/mustWait/tryUndo and Change.AbortLanes for a single lane (overlord/state/taskrunner.go, change.go), tied by the differential run (harness/overlay/overlord/state/zz_verif_c04_test.go)",
        "goroutine scheduling is modelled by the event list; the driver makes the real runner deterministic by gating every handler (it never lets two completions race inside the runner)",
        "persist/reload is the identity on the task list in this model; the codec itself is C05's subject",
    ],
    assumptions=[
        "same-outcome (C04_same_outcome) is proved for every graph, configuration and continuation under the guard that no RUNNING task is in Abort at the restart point, against the baseline 'the same run without restart in which an Ensure pass happens at that moment'; without the guard it is false of the model and of the real runner (C04_same_outcome_parallel_refuted; KNOWN_FINDINGS restart-with-task-in-abort)",
        "that in every reachable state a running handler belongs to a task in Doing, Undoing or Abort (so that the guard reads 'not Abort') is not proved; the hypothesis of the theorem says Doing or Undoing explicitly",
        "handlers are deterministic functions of the task (idempotence hypothesis of the property); no Retry/Wait outcomes; one change; all tasks in the default lane (lanes are not modelled: the abort of a lane is the abort of the change)",
        "a crash point is a completed checkpoint at an action boundary (a crash inside Checkpoint is C06)",
        "never-after-done, no-loss-no-dup and status monotonicity are proved for every graph, configuration and event list; 'a task persisted as Doing/Undoing is started again' is monitored, not proved",
    ],
)
