"""C04 — a restart at any checkpoint resumes changes without redoing finished work (DESIGN.md §2 C04)."""


def classify(case):
    return None


SPEC = dict(
    prop="C04",
    drivers=[
        dict(name="restart", kind="test", pkg="./overlord/state", run="TestVerifC04Restart",
             n=dict(quick=30, thorough=600), timeout=dict(quick=300, thorough=1800),
             ev=dict(requires=["V.models.Restart"], case_type="Restart.case",
                     mismatch="Restart.mismatch", monitor="Restart.monitor_fail")),
    ],
    classify=classify,
    rule=("changes of 1-5 tasks forming a chain (task j waits for task j-1) with random extra edges to earlier tasks, a "
          "random set of failing do handlers (2 cases of 3 have at least one) and of tasks without undo handler, run through "
          "the real state.TaskRunner with deterministic handlers that modify the state themselves (so there are checkpoints "
          "while a task is Doing/Undoing); the driver's Backend keeps EVERY checkpoint payload; for every second payload "
          "(quick; every payload in thorough) and the last one: state.ReadState, a fresh TaskRunner with the same handlers, "
          "run to quiescence. Compared with the model: final statuses without restart; per restart the final statuses and "
          "the number of do/undo handler starts after the restart. Monitored: same final statuses as without restart, same "
          "task ids, no do start for a task whose payload status is past Doing, no undo start for Undone/Hold/Error, at "
          "least one start for a task persisted as Doing/Undoing. Non-trivial = some restart caught a task in Doing or Undoing."),
    exhaustive=dict(quick=False, thorough=False),
    trusted_base=[
        "hand-written compact model coq/models/Restart.v of TaskRunner.Ensure/run/mustWait/tryUndo and Change.AbortLanes for a single lane (overlord/state/taskrunner.go, change.go), tied by the differential run (harness/overlay/overlord/state/zz_verif_c04_test.go)",
        "goroutine scheduling is modelled by the event list; the driver only produces schedule-deterministic graphs (chains)",
        "persist/reload is the identity on the task list in this model; the codec itself is C05's subject",
    ],
    assumptions=[
        "PARTIAL: same-outcome is proved on a complete finite domain only (chains of <= 3 tasks, all 64 handler configurations, every crash point of the deterministic schedule) and monitored beyond it; never-after-done, no-loss-no-dup and status monotonicity are proved for every graph, configuration and event list",
        "handlers are deterministic functions of the task (idempotence hypothesis of the property); no Retry/Wait outcomes; one change; all tasks in the default lane",
        "a crash point is a completed checkpoint (a crash inside Checkpoint is C06)",
        "same-outcome is false for parallel tasks caught in Abort by the restart (C04_same_outcome_parallel_refuted): such a task is undone, not run again; this is the runner's documented in-flight semantics, not recorded as a defect",
    ],
)
