"""C27 — generated desktop files cannot launch anything but the snap's own apps (DESIGN.md §2 C27, §4 finding 2)."""


def classify(case):
    """the recorded finding: the installed desktop file NAME is copied unquoted into Exec=env BAMF_DESKTOP_FILE_HINT=<name> ...;
    only names containing a space, tab or line break are keyed."""
    i = case.get("input") or {}
    f = i.get("file") or ""
    if " " in f or "\t" in f or "\n" in f:
        return "desktop-file-name-with-whitespace"
    return None


SPEC = dict(
    prop="C27",
    gens=[dict(name="DesktopRegexes", cmd=["go", "run", "-C", "translators", ".", "desktopregexes"],
               what="the alternatives of isValidDesktopFileLine (wrappers/desktop.go), one anchored expression each")],
    drivers=[
        dict(name="sanitize", kind="test", pkg="./wrappers", run="TestVerifC27Sanitize",
             n=dict(quick=400, thorough=8000), timeout=dict(quick=300, thorough=1800),
             ev=dict(requires=["V.lib.Bytes", "V.models.Desktop"], case_type="Desktop.case",
                     mismatch="Desktop.mismatch", monitor="Desktop.monitor_fail")),
    ],
    classify=classify,
    rule=("desktop file contents of 0-9 lines drawn from: blank/whitespace lines, comments, group headers (valid and "
          "near-misses), every allowlisted key and a dozen non-allowlisted ones with valid/invalid locale suffixes, Exec= "
          "forms (own app with/without arguments, other commands, prefixes of the app command, instance-key forms, control "
          "bytes), Icon= forms (${SNAP} paths with .. / . / empty segments, absolute paths, snap.<name>. theme names of this "
          "and other snaps), ${SNAP} occurrences, random bytes incl. NUL and invalid UTF-8, long lines; LF, CRLF, blank and "
          "missing final line ends; 7 snaps (with and without instance key, app named like the snap, no apps) x 15 desktop "
          "file names (ordinary, no extension, dots, spaces, tab, =, ${SNAP}); the real sanitizeDesktopFile is called with "
          "the installed name computed as deriveDesktopFilesContent does. Non-trivial = non-empty output."),
    exhaustive=dict(quick=False, thorough=False),
    trusted_base=[
        "translators/regexes.go: prints each alternative of isValidDesktopFileLine (parsed with Go's regexp/syntax)",
        "hand-written model coq/models/Desktop.v of wrappers/desktop.go, tied by the differential run "
        "(harness/overlay/wrappers/zz_verif_c27_test.go, in-package, real sanitizeDesktopFile)",
        "Go regexp replaced by the derivative matcher rmatch (proved equal to the denotational semantics) on the same "
        "expressions, byte-wise: all classes in them are ASCII and positive, so rune-wise and byte-wise matching coincide",
        "bufio.Scanner/ScanLines modelled by split_lines + drop_cr; filepath.Base/Ext/Clean by hand models on slash/dot "
        "splits; how a desktop environment launches Exec= is modelled as word splitting at spaces followed by env(1) "
        "skipping NAME=VALUE words (quoting rules of the Desktop Entry spec are not modelled)",
    ],
    assumptions=[
        "bufio.Scanner's 64 KiB token limit is not modelled (a longer line makes the real sanitizer stop silently); generated lines stay below it",
        "app names contain no slash (snap.ValidateApp guarantees it), so filepath.Base(wrapper) is the joined snap.app name",
        "GUARD of the launch theorem: the installed desktop file name contains no space (finding: it may, see KNOWN_FINDINGS)",
    ],
)
