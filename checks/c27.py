"""C27 — generated desktop files cannot launch anything but the snap's own apps (DESIGN.md §2 C27, §4 finding 2)."""


def classify(case):
    """no recorded finding: the unquoted desktop file name was repaired in /repo (0f3f7c0); a recurrence is a VIOLATION."""
    return None


SPEC = dict(
    prop="C27",
    gens=[dict(name="DesktopRegexes", cmd=["go", "run", "-C", "translators", ".", "desktopregexes"],
               what="the alternatives of isValidDesktopFileLine (wrappers/desktop.go), one anchored expression each")],
    drivers=[
        dict(name="sanitize", kind="test", pkg="./wrappers", run="TestVerifC27Sanitize",
             n=dict(quick=400, thorough=8000), timeout=dict(quick=300, thorough=1800),
             ev=dict(requires=["V.lib.Bytes", "V.models.Desktop"], case_type="Desktop.case",
                     mismatch="Desktop.mismatch", monitor="Desktop.monitor_fail")),
    ],
    classify=classify,
    rule=("desktop file contents of 0-9 lines drawn from: blank/whitespace lines, comments, group headers (valid and "
          "near-misses), every allowlisted key and a dozen non-allowlisted ones with valid/invalid locale suffixes, Exec= "
          "forms (own app with/without arguments, the same with blanks or tabs after = and trailing blanks, other commands, prefixes of the app command, instance-key forms, control "
          "bytes), Icon= forms (${SNAP} paths with .. / . / empty segments, absolute paths, snap.<name>. theme names of this "
          "and other snaps), ${SNAP} occurrences, random bytes incl. NUL and invalid UTF-8, long lines; LF, CRLF, blank and "
          "missing final line ends; 7 snaps (with and without instance key, app named like the snap, no apps) x 48 desktop "
          "file names (ordinary, no extension, dots, spaces, tab, line break, quotes, backslash, %, $, backquote, ${SNAP}, "
          "control characters inside, last, FIRST and alone incl. newline, CR, tab, U+007F, U+0085, invalid UTF-8); each file is written into meta/gui under a scratch root and the "
          "real deriveDesktopFilesContent (name filter + sanitizeDesktopFile) is run. Non-trivial = non-empty output."),
    exhaustive=dict(quick=False, thorough=False),
    trusted_base=[
        "translators/regexes.go: prints each alternative of isValidDesktopFileLine (parsed with Go's regexp/syntax)",
        "hand-written model coq/models/Desktop.v of wrappers/desktop.go, tied by the differential run "
        "(harness/overlay/wrappers/zz_verif_c27_test.go, in-package, real sanitizeDesktopFile)",
        "Go regexp replaced by the derivative matcher rmatch (proved equal to the denotational semantics) on the same "
        "expressions, byte-wise: all classes in them are ASCII and positive, so rune-wise and byte-wise matching coincide",
        "bufio.Scanner/ScanLines modelled by split_lines + drop_cr; filepath.Base/Ext/Clean/Glob(*.desktop) and "
        "unicode.IsControl by hand models; how a desktop environment launches Exec= is modelled per the Desktop Entry "
        "spec: arguments split at spaces, a double-quoted argument is one word with backslash escapes, %% is a literal "
        "percent, then env(1) skips NAME=VALUE words",
    ],
    assumptions=[
        "bufio.Scanner's 64 KiB token limit is not modelled (a longer line makes the real sanitizer stop silently); generated lines stay below it",
        "app names contain no slash (snap.ValidateApp guarantees it), so filepath.Base(wrapper) is the joined snap.app name",
        "GUARDS of the launch theorem are on paths snapd builds from validated names only: wrapper paths without space, =, $, "
        "double quote, %; mount directory non-empty and without double quote, backslash, $. No guard on the desktop file name.",
    ],
)
