package main

import (
	"fmt"
	"go/ast"
	"go/token"
	"strconv"
	"strings"
)

// conflictkinds: the change kinds that overlord/snapstate/conflict.go treats specially (C14), read from the case
// literals of checkChangeConflictExclusiveKinds and isIrrelevantChange, each classified by the SHAPE of its case body:
//   always      case K: return &ChangeConflictError{...}
//   ignorable   case K: if ignoreChangeID != "" && chg.ID() == ignoreChangeID { continue }; return &ChangeConflictError{...}
//   downgrade   case K: if <ignored> { continue }; if downgrading, err := changeIsSnapdDowngrade(st, chg); ... else if !downgrading { X }; return ...
//               where X is `continue` (such a change does not stop a new exclusive change) or mentions newExclusiveChangeKind
//   default     if newExclusiveChangeKind != "" { return &ChangeConflictError{...} }
// and the loop skips changes with chg.Status().Ready().

func ckStrings(list []ast.Expr) []string {
	var out []string
	for _, e := range list {
		bl, ok := e.(*ast.BasicLit)
		if !ok || bl.Kind != token.STRING {
			die("conflictkinds: case label is not a string literal")
		}
		s, err := strconv.Unquote(bl.Value)
		if err != nil {
			die("conflictkinds: %v", err)
		}
		out = append(out, s)
	}
	return out
}

func ckIsIgnoreContinue(s ast.Stmt, fs *token.FileSet, b []byte) bool {
	is, ok := s.(*ast.IfStmt)
	if !ok || is.Else != nil || is.Init != nil || len(is.Body.List) != 1 {
		return false
	}
	br, ok := is.Body.List[0].(*ast.BranchStmt)
	if !ok || br.Tok != token.CONTINUE {
		return false
	}
	cond := strings.Join(strings.Fields(string(src(fs, b, is.Cond))), " ")
	return cond == `ignoreChangeID != "" && chg.ID() == ignoreChangeID`
}

func ckIsConflictReturn(s ast.Stmt, fs *token.FileSet, b []byte) bool {
	rs, ok := s.(*ast.ReturnStmt)
	if !ok || len(rs.Results) != 1 {
		return false
	}
	return strings.HasPrefix(string(src(fs, b, rs.Results[0])), "&ChangeConflictError{")
}

func ckMentions(n ast.Node, name string) bool {
	found := false
	ast.Inspect(n, func(x ast.Node) bool {
		if id, ok := x.(*ast.Ident); ok && id.Name == name {
			found = true
		}
		return true
	})
	return found
}

func ckCoqList(name string, xs []string) string {
	var items []string
	for _, x := range xs {
		items = append(items, fmt.Sprintf("bs %q", x))
	}
	return fmt.Sprintf("Definition %s : list bytes := [%s].\n", name, strings.Join(items, "; "))
}

func init() {
	cmds["conflictkinds"] = func() {
		fs, f, b := parseFile("overlord/snapstate/conflict.go")
		fd := findFunc(f, "checkChangeConflictExclusiveKinds")
		if fd == nil {
			die("conflictkinds: checkChangeConflictExclusiveKinds not found")
		}
		// for _, chg := range st.Changes() { if chg.Status().Ready() { continue }; switch chg.Kind() {...} }
		var loop *ast.RangeStmt
		for _, s := range fd.Body.List {
			if r, ok := s.(*ast.RangeStmt); ok {
				loop = r
			}
		}
		if loop == nil || len(loop.Body.List) != 2 {
			die("conflictkinds: the loop over st.Changes() no longer has the shape {ready check; switch}")
		}
		rd, ok := loop.Body.List[0].(*ast.IfStmt)
		if !ok || strings.Join(strings.Fields(string(src(fs, b, rd.Cond))), "") != "chg.Status().Ready()" {
			die("conflictkinds: the loop does not start with `if chg.Status().Ready() { continue }`")
		}
		sw, ok := loop.Body.List[1].(*ast.SwitchStmt)
		if !ok || string(src(fs, b, sw.Tag)) != "chg.Kind()" {
			die("conflictkinds: no switch chg.Kind()")
		}
		var always, ignorable, downgrade []string
		haveDefault := false
		blocks := "" // does a non-downgrading refresh/revert change stop a NEW exclusive change?
		for _, c := range sw.Body.List {
			cc := c.(*ast.CaseClause)
			if cc.List == nil {
				if len(cc.Body) != 1 {
					die("conflictkinds: default clause has %d statements", len(cc.Body))
				}
				is, ok := cc.Body[0].(*ast.IfStmt)
				if !ok || strings.Join(strings.Fields(string(src(fs, b, is.Cond))), " ") != `newExclusiveChangeKind != ""` ||
					!ckIsConflictReturn(is.Body.List[len(is.Body.List)-1], fs, b) {
					die("conflictkinds: default clause is not `if newExclusiveChangeKind != \"\" { ...; return &ChangeConflictError{} }`")
				}
				haveDefault = true
				continue
			}
			kinds := ckStrings(cc.List)
			switch {
			case len(cc.Body) == 1 && ckIsConflictReturn(cc.Body[0], fs, b):
				always = append(always, kinds...)
			case len(cc.Body) == 2 && ckIsIgnoreContinue(cc.Body[0], fs, b) && ckIsConflictReturn(cc.Body[1], fs, b):
				ignorable = append(ignorable, kinds...)
			case len(cc.Body) == 3 && ckIsIgnoreContinue(cc.Body[0], fs, b) && ckIsConflictReturn(cc.Body[2], fs, b):
				is, ok := cc.Body[1].(*ast.IfStmt)
				if !ok || is.Init == nil || !strings.Contains(string(src(fs, b, is.Init)), "changeIsSnapdDowngrade(st, chg)") {
					die("conflictkinds: case %v: second statement does not call changeIsSnapdDowngrade", kinds)
				}
				el, ok := is.Else.(*ast.IfStmt)
				if !ok || strings.Join(strings.Fields(string(src(fs, b, el.Cond))), "") != "!downgrading" {
					die("conflictkinds: case %v: no `else if !downgrading` branch", kinds)
				}
				if len(el.Body.List) == 1 {
					if br, ok := el.Body.List[0].(*ast.BranchStmt); ok && br.Tok == token.CONTINUE {
						blocks = "false"
					}
				}
				if blocks == "" && ckMentions(el.Body, "newExclusiveChangeKind") {
					blocks = "true"
				}
				if blocks == "" {
					die("conflictkinds: case %v: the !downgrading branch is neither `continue` nor a newExclusiveChangeKind check", kinds)
				}
				downgrade = append(downgrade, kinds...)
			default:
				die("conflictkinds: case %v has a body of unexpected shape", kinds)
			}
		}
		if !haveDefault || len(always) == 0 || len(ignorable) == 0 || len(downgrade) == 0 {
			die("conflictkinds: missing clause classes (default=%v always=%d ignorable=%d downgrade=%d)", haveDefault, len(always), len(ignorable), len(downgrade))
		}

		// isIrrelevantChange: nil or ready; ignored id; switch with fallthrough cases returning true
		fi := findFunc(f, "isIrrelevantChange")
		if fi == nil {
			die("conflictkinds: isIrrelevantChange not found")
		}
		var irrelevant []string
		nIf := 0
		for _, s := range fi.Body.List {
			switch v := s.(type) {
			case *ast.IfStmt:
				cond := strings.Join(strings.Fields(string(src(fs, b, v.Cond))), " ")
				if cond != "chg == nil || chg.IsReady()" && cond != `ignoreChangeID != "" && chg.ID() == ignoreChangeID` {
					die("conflictkinds: isIrrelevantChange: unexpected condition %q", cond)
				}
				nIf++
			case *ast.SwitchStmt:
				for i, c := range v.Body.List {
					cc := c.(*ast.CaseClause)
					if cc.List == nil {
						die("conflictkinds: isIrrelevantChange: unexpected default clause")
					}
					last := i == len(v.Body.List)-1
					okBody := false
					if len(cc.Body) == 1 {
						if br, ok := cc.Body[0].(*ast.BranchStmt); ok && br.Tok == token.FALLTHROUGH && !last {
							okBody = true
						}
						if rs, ok := cc.Body[0].(*ast.ReturnStmt); ok && len(rs.Results) == 1 && string(src(fs, b, rs.Results[0])) == "true" {
							okBody = true
						}
					}
					if !okBody {
						die("conflictkinds: isIrrelevantChange: case body is neither fallthrough nor return true")
					}
					irrelevant = append(irrelevant, ckStrings(cc.List)...)
				}
			case *ast.ReturnStmt:
				if string(src(fs, b, v.Results[0])) != "false" {
					die("conflictkinds: isIrrelevantChange does not end with return false")
				}
			default:
				die("conflictkinds: isIrrelevantChange: unexpected statement")
			}
		}
		if nIf != 2 || len(irrelevant) == 0 {
			die("conflictkinds: isIrrelevantChange: shape changed (ifs=%d kinds=%d)", nIf, len(irrelevant))
		}

		fmt.Print(header("overlord/snapstate/conflict.go", src(fs, b, fd)))
		fmt.Println("From Coq Require Import List NArith String.\nImport ListNotations.\nRequire Import V.lib.Bytes.\nOpen Scope string_scope.")
		fmt.Print(ckCoqList("excl_always", always))
		fmt.Print(ckCoqList("excl_ignorable", ignorable))
		fmt.Print(ckCoqList("excl_downgrade", downgrade))
		fmt.Print(ckCoqList("irrelevant_kinds", irrelevant))
		fmt.Println("(* does an in-progress change of a kind in excl_downgrade that is NOT a snapd downgrade stop a new exclusive change?")
		fmt.Println("   false: its case ends in `continue` before the default clause is reached *)")
		fmt.Printf("Definition nondowngrade_blocks_new_exclusive : bool := %s.\n", blocks)
	}
}
