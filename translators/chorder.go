package main

import (
	"fmt"
	"go/ast"
	"strings"
)

// chorder: the 256-entry chOrder table of strutil/chrorder.go (C33)
func init() {
	cmds["chorder"] = func() {
		fs, f, b := parseFile("strutil/chrorder.go")
		v := findVar(f, "chOrder")
		cl, ok := v.(*ast.CompositeLit)
		if !ok {
			die("chOrder is no longer a composite literal")
		}
		var items []string
		for _, e := range cl.Elts {
			s, ok := intLit(e)
			if !ok {
				die("chOrder element is not an integer literal")
			}
			items = append(items, "("+s+")")
		}
		if len(items) != 256 {
			die("chOrder has %d entries, expected 256", len(items))
		}
		fmt.Print(header("strutil/chrorder.go", src(fs, b, cl)))
		fmt.Println("From Coq Require Import List ZArith.\nImport ListNotations.\nOpen Scope Z_scope.")
		fmt.Printf("Definition table : list Z := [\n  %s\n].\n", strings.Join(items, "; "))
	}
}
