package main

import (
	"fmt"
	"go/ast"
	"go/token"
	"strings"
)

// commitorder (C06): the ordered list of file-system calls inside osutil/io.go's AtomicFile.commit, AtomicRename,
// AtomicSymlink and AtomicWriteChown, each with the condition that guards it (`!snapdUnsafeIO`, chown requested,
// mtime set, ...), plus a few shape facts: NewAtomicFile opens its temp file O_CREATE|O_EXCL under a name that is the
// target plus a non-empty suffix, snapdUnsafeIO can only be true in a test binary, Commit is commit,
// AtomicWriteFile goes through AtomicWriteChown, and the overlord state backend's Checkpoint calls
// osutil.AtomicWriteFile on its path. Any call that is neither known nor on the ignore list makes the translator fail.
func init() {
	cmds["commitorder"] = func() {
		fs, f, b := parseFile("osutil/io.go")
		txt := func(n ast.Node) string { return string(src(fs, b, n)) }

		type ev struct{ guard, call string }

		guardOf := func(cond string) string {
			switch strings.Join(strings.Fields(cond), " ") {
			case "!snapdUnsafeIO":
				return "GSafeIO"
			case "aw.uid != NoChown || aw.gid != NoChown":
				return "GChown"
			case "!aw.mtime.IsZero()":
				return "GMtime"
			case "oldDir != nil":
				return "GOldDir"
			case "newDir != nil":
				return "GNewDir"
			}
			return "GOther" // error checks and the like: no file-system call may sit under them
		}

		var walk func(fn string, stmts []ast.Stmt, guard string, classify func(c *ast.CallExpr) string, out *[]ev)
		var calls func(fn string, n ast.Node, guard string, classify func(c *ast.CallExpr) string, out *[]ev)
		calls = func(fn string, n ast.Node, guard string, classify func(c *ast.CallExpr) string, out *[]ev) {
			if n == nil {
				return
			}
			ast.Inspect(n, func(x ast.Node) bool {
				switch c := x.(type) {
				case *ast.FuncLit:
					die("%s: function literal in the body: shape not understood", fn)
				case *ast.CallExpr:
					// arguments are evaluated before the call: visit them first
					for _, a := range c.Args {
						calls(fn, a, guard, classify, out)
					}
					k := classify(c)
					if k == "?" {
						die("%s: unknown call %s — extend translators/commitorder.go and the model", fn, txt(c))
					}
					if k != "" {
						if guard == "GOther" {
							die("%s: call %s under a condition the translator does not understand", fn, txt(c))
						}
						*out = append(*out, ev{guard, k})
					}
					// the receiver/function expression may itself contain calls (x.Sys().(...))
					calls(fn, c.Fun, guard, classify, out)
					return false
				}
				return true
			})
		}
		walk = func(fn string, stmts []ast.Stmt, guard string, classify func(c *ast.CallExpr) string, out *[]ev) {
			for _, s := range stmts {
				switch st := s.(type) {
				case *ast.IfStmt:
					if st.Init != nil {
						walk(fn, []ast.Stmt{st.Init}, guard, classify, out)
					}
					calls(fn, st.Cond, guard, classify, out)
					g := guardOf(txt(st.Cond))
					inner := g
					if guard != "GAlways" {
						// nested condition: only error checks / type assertions may nest, they keep the outer guard
						// as long as nothing interesting happens inside (checked through GOther)
						if g == "GOther" {
							inner = "GOther"
						} else {
							die("%s: nested guards %s / %s", fn, guard, g)
						}
					}
					walk(fn, st.Body.List, inner, classify, out)
					if st.Else != nil {
						die("%s: else branch: shape not understood", fn)
					}
				case *ast.DeferStmt:
					// clean-up (dir.Close, aw.Cancel, os.Remove of the temp symlink): not part of the commit order
				case *ast.ForStmt:
					walk(fn, st.Body.List, guard, classify, out)
				case *ast.BlockStmt:
					walk(fn, st.List, guard, classify, out)
				case *ast.SwitchStmt, *ast.TypeSwitchStmt, *ast.SelectStmt, *ast.GoStmt, *ast.RangeStmt, *ast.LabeledStmt, *ast.BranchStmt:
					if _, isBranch := s.(*ast.BranchStmt); isBranch {
						continue // `continue` in AtomicSymlink's retry loop
					}
					die("%s: statement %T: shape not understood", fn, s)
				default:
					calls(fn, s, guard, classify, out)
				}
			}
		}

		render := func(evs []ev) string {
			var items []string
			for _, e := range evs {
				items = append(items, "("+e.guard+", "+e.call+")")
			}
			return "[" + strings.Join(items, "; ") + "]"
		}
		body := func(name string) *ast.FuncDecl {
			fd := findFunc(f, name)
			if fd == nil || fd.Body == nil {
				die("osutil/io.go: func %s is gone", name)
			}
			return fd
		}
		funText := func(c *ast.CallExpr) string { return strings.Join(strings.Fields(txt(c.Fun)), "") }
		argText := func(c *ast.CallExpr) string {
			var a []string
			for _, x := range c.Args {
				a = append(a, strings.Join(strings.Fields(txt(x)), ""))
			}
			return strings.Join(a, ",")
		}

		// ---- AtomicFile.commit
		var commit []ev
		walk("commit", body("commit").Body.List, "GAlways", func(c *ast.CallExpr) string {
			switch funText(c) {
			case "chown":
				if !strings.HasPrefix(argText(c), "aw.File,") {
					return "?"
				}
				return "CChown"
			case "os.Open":
				if argText(c) != "filepath.Dir(aw.target)" {
					return "?"
				}
				return "COpenDir"
			case "aw.Sync":
				return "CFileSync"
			case "aw.Close":
				return "CClose"
			case "os.Chtimes":
				if !strings.HasPrefix(argText(c), "aw.tmpname,") {
					return "?"
				}
				return "CChtimes"
			case "os.Rename":
				if argText(c) != "aw.tmpname,aw.target" {
					return "?"
				}
				return "CRename"
			case "dir.Sync":
				return "CDirSync"
			case "filepath.Dir", "time.Now", "aw.mtime.IsZero", "fmt.Errorf", "errors.New":
				return "" // pure: no file-system effect
			}
			return "?"
		}, &commit)

		// ---- AtomicRename
		var ren []ev
		walk("AtomicRename", body("AtomicRename").Body.List, "GAlways", func(c *ast.CallExpr) string {
			switch funText(c) {
			case "os.Open":
				switch argText(c) {
				case "oldDirPath":
					return "ROpenOldDir"
				case "newDirPath":
					return "ROpenNewDir"
				}
				return "?"
			case "os.Rename":
				if argText(c) != "oldName,newName" {
					return "?"
				}
				return "RRename"
			case "oldDir.Sync":
				return "RSyncOldDir"
			case "newDir.Sync":
				return "RSyncNewDir"
			case "filepath.Clean", "filepath.Dir", "oldDir.Stat", "newDir.Stat", "oldInfo.Sys", "newInfo.Sys":
				return ""
			}
			return "?"
		}, &ren)
		// oldDir/newDir are assigned only inside the !snapdUnsafeIO block (so `oldDir != nil` means safe IO, and
		// `newDir != nil` means safe IO and two distinct directories): check the declaration and the assignments
		rtxt := strings.Join(strings.Fields(txt(body("AtomicRename").Body)), " ")
		for _, want := range []string{"var oldDir, newDir *os.File", "oldDir, err = os.Open(oldDirPath)", "newDir, err = os.Open(newDirPath)",
			"if oldStat.Dev == newStat.Dev && oldStat.Ino == newStat.Ino { newDir = nil }"} {
			if !strings.Contains(rtxt, want) {
				die("AtomicRename: expected `%s`", want)
			}
		}
		if strings.Count(rtxt, "oldDir =")+strings.Count(rtxt, "oldDir, err =") != 1 || strings.Count(rtxt, "newDir =")+strings.Count(rtxt, "newDir, err =") != 2 {
			die("AtomicRename: oldDir/newDir are assigned in places the translator does not know")
		}

		// ---- AtomicSymlink
		var sym []ev
		walk("AtomicSymlink", body("AtomicSymlink").Body.List, "GAlways", func(c *ast.CallExpr) string {
			switch funText(c) {
			case "os.Symlink":
				if argText(c) != "target,tmp" {
					return "?"
				}
				return "SSymlink"
			case "AtomicRename":
				if argText(c) != "tmp,linkPath" {
					return "?"
				}
				return "SAtomicRename"
			case "randutil.RandomString", "os.IsExist", "errors.New":
				return ""
			}
			return "?"
		}, &sym)
		// the os.Symlink error branch sits under `if err := os.Symlink(...); err != nil` — nothing else may

		// ---- AtomicWriteChown
		var aw []ev
		walk("AtomicWriteChown", body("AtomicWriteChown").Body.List, "GAlways", func(c *ast.CallExpr) string {
			switch funText(c) {
			case "NewAtomicFile":
				return "WNew"
			case "io.Copy":
				if argText(c) != "aw,reader" {
					return "?"
				}
				return "WCopy"
			case "aw.Commit":
				return "WCommit"
			}
			return "?"
		}, &aw)

		// ---- shape facts
		one := func(fn string, want string) {
			t := strings.Join(strings.Fields(txt(body(fn).Body)), " ")
			if t != want {
				die("%s: body is `%s`, expected `%s`", fn, t, want)
			}
		}
		one("Commit", "{ return aw.commit() }")
		one("AtomicWriteFile", "{ return AtomicWriteChown(filename, bytes.NewReader(data), perm, flags, NoChown, NoChown) }")
		one("AtomicWrite", "{ return AtomicWriteChown(filename, reader, perm, flags, NoChown, NoChown) }")

		naf := strings.Join(strings.Fields(txt(body("NewAtomicFile").Body)), " ")
		if !strings.Contains(naf, `tmp := filename + "." + randutil.RandomString(12) + "~"`) {
			die("NewAtomicFile: the temp name is no longer target + non-empty suffix")
		}
		if !strings.Contains(naf, "os.OpenFile(tmp, os.O_WRONLY|os.O_CREATE|os.O_TRUNC|os.O_EXCL, perm)") {
			die("NewAtomicFile: the temp file is no longer opened O_CREATE|O_EXCL")
		}
		if !strings.Contains(naf, "target: filename, tmpname: tmp,") {
			die("NewAtomicFile: target/tmpname fields are set differently")
		}
		if strings.Count(naf, "os.OpenFile(") != 1 {
			die("NewAtomicFile: more than one OpenFile")
		}

		uv := findVar(f, "snapdUnsafeIO")
		if uv == nil {
			die("snapdUnsafeIO is gone")
		}
		be, ok := uv.(*ast.BinaryExpr)
		if !ok || be.Op != token.LAND || strings.Join(strings.Fields(txt(be.X)), "") != "IsTestBinary()" {
			die("snapdUnsafeIO is no longer `IsTestBinary() && ...`: %s", txt(uv))
		}
		// nobody else assigns it in non-test files of the package
		for _, d := range f.Decls {
			if fd, ok := d.(*ast.FuncDecl); ok && fd.Body != nil {
				ast.Inspect(fd.Body, func(x ast.Node) bool {
					if as, ok := x.(*ast.AssignStmt); ok {
						for _, l := range as.Lhs {
							if id, ok := l.(*ast.Ident); ok && id.Name == "snapdUnsafeIO" {
								die("snapdUnsafeIO is assigned in %s", fd.Name.Name)
							}
						}
					}
					return true
				})
			}
		}

		fs2, f2, b2 := parseFile("overlord/backend.go")
		cp := findFunc(f2, "Checkpoint")
		if cp == nil || cp.Body == nil {
			die("overlord/backend.go: Checkpoint is gone")
		}
		cpt := strings.Join(strings.Fields(string(src(fs2, b2, cp.Body))), " ")
		if cpt != "{ return osutil.AtomicWriteFile(osb.path, data, 0600, 0) }" {
			die("overlordStateBackend.Checkpoint no longer is a single osutil.AtomicWriteFile(osb.path, data, 0600, 0): %s", cpt)
		}

		var span []byte
		for _, n := range []string{"commit", "Commit", "AtomicRename", "AtomicSymlink", "AtomicWriteChown", "AtomicWriteFile", "AtomicWrite", "NewAtomicFile"} {
			span = append(span, src(fs, b, body(n))...)
		}
		span = append(span, src(fs2, b2, cp)...)
		fmt.Print(header("osutil/io.go (+ overlord/backend.go Checkpoint)", span))
		fmt.Println("From Coq Require Import List.\nImport ListNotations.")
		fmt.Println("(* the condition a call sits under *)")
		fmt.Println("Inductive guard := GAlways | GSafeIO (* !snapdUnsafeIO *) | GChown (* uid or gid requested *) | GMtime (* SetModTime was used *)")
		fmt.Println("  | GOldDir (* oldDir != nil: assigned only under !snapdUnsafeIO *) | GNewDir (* newDir != nil: safe IO and a different directory *).")
		fmt.Println("Inductive call := CChown | COpenDir | CFileSync | CClose | CChtimes | CRename | CDirSync")
		fmt.Println("  | ROpenOldDir | ROpenNewDir | RRename | RSyncOldDir | RSyncNewDir | SSymlink | SAtomicRename | WNew | WCopy | WCommit.")
		fmt.Printf("(* AtomicFile.commit, in source order *)\nDefinition commit_calls : list (guard * call) :=\n  %s.\n", render(commit))
		fmt.Printf("(* AtomicRename *)\nDefinition rename_calls : list (guard * call) :=\n  %s.\n", render(ren))
		fmt.Printf("(* AtomicSymlink (one iteration of the retry loop) *)\nDefinition symlink_calls : list (guard * call) :=\n  %s.\n", render(sym))
		fmt.Printf("(* AtomicWriteChown *)\nDefinition write_calls : list (guard * call) :=\n  %s.\n", render(aw))
		fmt.Println("(* shape facts checked by the translator (it fails when one no longer holds) *)")
		fmt.Println("Definition commit_is_commit : bool := true.                     (* Commit() { return aw.commit() } *)")
		fmt.Println("Definition write_file_is_write_chown : bool := true.            (* AtomicWriteFile/AtomicWrite -> AtomicWriteChown(..., NoChown, NoChown) *)")
		fmt.Println("Definition tmp_is_target_plus_suffix_excl : bool := true.       (* tmp = filename + \".\" + 12 random chars + \"~\", opened O_CREATE|O_EXCL *)")
		fmt.Println("Definition unsafe_io_needs_test_binary : bool := true.          (* snapdUnsafeIO = IsTestBinary() && ..., never assigned elsewhere in io.go *)")
		fmt.Println("Definition checkpoint_is_atomic_write_file : bool := true.      (* overlordStateBackend.Checkpoint = osutil.AtomicWriteFile(osb.path, data, 0600, 0) *)")
	}
}
