package main

import (
	"fmt"
	"go/ast"
	"go/token"
	"sort"
	"strconv"
	"strings"
)

// blockedkinds (C07): the task kinds named by the four predicates registered with TaskRunner.AddBlocked:
//   - overlord/ifacestate/ifacemgr.go Manager: the kinds passed to the local addHandler closure (which records them in
//     taskKinds, the set the predicate consults);
//   - overlord/hookstate/hookmgr.go Manager, overlord/snapstate/snapmgr.go SnapManager.blockedTask,
//     overlord/devicestate/devicemgr.go gadgetUpdateBlocked: the single string literal compared with Task.Kind().
func init() {
	cmds["blockedkinds"] = func() {
		// ---- ifacestate
		const irel = "overlord/ifacestate/ifacemgr.go"
		fset, f, b := parseFile(irel)
		mgr := findFunc(f, "Manager")
		if mgr == nil {
			die("%s: func Manager not found", irel)
		}
		// addHandler := func(kind string, ...) { taskKinds[kind] = true; runner.AddHandler(kind, ...) }
		okClosure := false
		var ifaceKinds []string
		var direct []string
		usesTaskKinds := false
		ast.Inspect(mgr, func(n ast.Node) bool {
			switch v := n.(type) {
			case *ast.AssignStmt:
				if len(v.Lhs) == 1 && len(v.Rhs) == 1 {
					if id, ok := v.Lhs[0].(*ast.Ident); ok && id.Name == "addHandler" {
						if fl, ok := v.Rhs[0].(*ast.FuncLit); ok {
							s := string(src(fset, b, fl.Body))
							if strings.Contains(s, "taskKinds[kind] = true") && strings.Contains(s, "runner.AddHandler(kind,") {
								okClosure = true
							}
						}
					}
				}
			case *ast.CallExpr:
				if id, ok := v.Fun.(*ast.Ident); ok && id.Name == "addHandler" && len(v.Args) > 0 {
					bl, ok := v.Args[0].(*ast.BasicLit)
					if !ok || bl.Kind != token.STRING {
						die("%s: addHandler called with a non-literal kind", irel)
					}
					k, _ := strconv.Unquote(bl.Value)
					ifaceKinds = append(ifaceKinds, k)
				}
				if se, ok := v.Fun.(*ast.SelectorExpr); ok {
					if x, ok := se.X.(*ast.Ident); ok && x.Name == "runner" && se.Sel.Name == "AddHandler" && len(v.Args) > 0 {
						if bl, ok := v.Args[0].(*ast.BasicLit); ok && bl.Kind == token.STRING {
							k, _ := strconv.Unquote(bl.Value)
							direct = append(direct, k)
						}
					}
					if x, ok := se.X.(*ast.Ident); ok && x.Name == "runner" && se.Sel.Name == "AddBlocked" && len(v.Args) == 1 {
						if fl, ok := v.Args[0].(*ast.FuncLit); ok {
							s := string(src(fset, b, fl.Body))
							if strings.Count(s, "taskKinds[") == 2 {
								usesTaskKinds = true
							}
						}
					}
				}
			}
			return true
		})
		if !okClosure || !usesTaskKinds || len(ifaceKinds) == 0 {
			die("%s: the addHandler/taskKinds/AddBlocked shape is gone (closure=%v predicate=%v kinds=%d)", irel, okClosure, usesTaskKinds, len(ifaceKinds))
		}
		sort.Strings(ifaceKinds)

		// ---- the single kind literal compared with .Kind() inside a predicate body
		kindLit := func(rel string, body ast.Node) string {
			set := map[string]bool{}
			ast.Inspect(body, func(n ast.Node) bool {
				be, ok := n.(*ast.BinaryExpr)
				if !ok || (be.Op != token.EQL && be.Op != token.NEQ) {
					return true
				}
				isKind := func(e ast.Expr) bool {
					ce, ok := e.(*ast.CallExpr)
					if !ok {
						return false
					}
					se, ok := ce.Fun.(*ast.SelectorExpr)
					return ok && se.Sel.Name == "Kind"
				}
				lit := func(e ast.Expr) (string, bool) {
					bl, ok := e.(*ast.BasicLit)
					if !ok || bl.Kind != token.STRING {
						return "", false
					}
					s, _ := strconv.Unquote(bl.Value)
					return s, true
				}
				if isKind(be.X) {
					if s, ok := lit(be.Y); ok {
						set[s] = true
					}
				}
				if isKind(be.Y) {
					if s, ok := lit(be.X); ok {
						set[s] = true
					}
				}
				return true
			})
			if len(set) != 1 {
				die("%s: expected exactly one kind literal compared with Kind() in the blocked predicate, found %d", rel, len(set))
			}
			for k := range set {
				return k
			}
			return ""
		}

		const hrel = "overlord/hookstate/hookmgr.go"
		hfs, hf, hb := parseFile(hrel)
		_ = hfs
		_ = hb
		hm := findFunc(hf, "Manager")
		if hm == nil {
			die("%s: func Manager not found", hrel)
		}
		var hookPred *ast.FuncLit
		ast.Inspect(hm, func(n ast.Node) bool {
			if ce, ok := n.(*ast.CallExpr); ok {
				if se, ok := ce.Fun.(*ast.SelectorExpr); ok && se.Sel.Name == "AddBlocked" && len(ce.Args) == 1 {
					if fl, ok := ce.Args[0].(*ast.FuncLit); ok {
						hookPred = fl
					}
				}
			}
			return true
		})
		if hookPred == nil {
			die("%s: Manager no longer registers a blocked predicate literal", hrel)
		}
		hookKind := kindLit(hrel, hookPred.Body)
		if !strings.Contains(string(src(hfs, hb, hookPred.Body)), `"hook-setup"`) {
			die("%s: the hook predicate no longer reads hook-setup", hrel)
		}

		const srel = "overlord/snapstate/snapmgr.go"
		_, sf, _ := parseFile(srel)
		var sp *ast.FuncDecl
		for _, d := range sf.Decls {
			if fd, ok := d.(*ast.FuncDecl); ok && fd.Name.Name == "blockedTask" && fd.Recv != nil {
				sp = fd
			}
		}
		if sp == nil {
			die("%s: SnapManager.blockedTask not found", srel)
		}
		prereqKind := kindLit(srel, sp.Body)

		const drel = "overlord/devicestate/devicemgr.go"
		_, df, _ := parseFile(drel)
		dp := findFunc(df, "gadgetUpdateBlocked")
		if dp == nil {
			die("%s: gadgetUpdateBlocked not found", drel)
		}
		gadgetKind := kindLit(drel, dp.Body)

		fmt.Print(header(irel, src(fset, b, mgr)))
		fmt.Println("From Coq Require Import List NArith String.\nImport ListNotations.\nRequire Import V.lib.Bytes.")
		var items []string
		for _, k := range ifaceKinds {
			items = append(items, fmt.Sprintf("bs %q", k))
		}
		fmt.Printf("(* kinds registered through ifacestate's addHandler closure (serialized) *)\nDefinition iface_kinds : list bytes := [%s].\n", strings.Join(items, "; "))
		items = nil
		sort.Strings(direct)
		for _, k := range direct {
			items = append(items, fmt.Sprintf("bs %q", k))
		}
		fmt.Printf("(* kinds ifacestate registers directly with runner.AddHandler (not serialized) *)\nDefinition iface_unserialized_kinds : list bytes := [%s].\n", strings.Join(items, "; "))
		fmt.Printf("Definition hook_kind : bytes := bs %q.\n", hookKind)
		fmt.Printf("Definition prereq_kind : bytes := bs %q.\n", prereqKind)
		fmt.Printf("Definition gadget_kind : bytes := bs %q.\n", gadgetKind)
	}
}
