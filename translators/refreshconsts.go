package main

import (
	"fmt"
	"go/ast"
	"go/token"
	"strconv"
	"strings"
)

// refreshconsts (C16): from overlord/snapstate/autorefresh.go: maxPostponement, refreshRetryDelay (seconds), the
// default refresh timer string; and shape facts: both timeutil.Next call sites pass maxPostponement as the limit,
// Ensure compares m.lastRefreshSchedule with the current timer string and resets m.nextRefresh on a change, and
// m.lastRefreshSchedule is assigned nowhere but in Ensure (to the current string) and in the "managed" branch.
func init() {
	cmds["refreshconsts"] = func() {
		fs, f, b := parseFile("overlord/snapstate/autorefresh.go")
		txt := func(n ast.Node) string { return strings.Join(strings.Fields(string(src(fs, b, n))), " ") }

		var seconds func(e ast.Expr) int64
		seconds = func(e ast.Expr) int64 {
			switch v := e.(type) {
			case *ast.BasicLit:
				if v.Kind == token.INT {
					n, err := strconv.ParseInt(v.Value, 10, 64)
					if err != nil {
						die("bad int %s", v.Value)
					}
					return n
				}
			case *ast.ParenExpr:
				return seconds(v.X)
			case *ast.BinaryExpr:
				if v.Op == token.MUL {
					return seconds(v.X) * seconds(v.Y)
				}
			case *ast.SelectorExpr:
				switch txt(v) {
				case "time.Hour":
					return 3600
				case "time.Minute":
					return 60
				case "time.Second":
					return 1
				}
			}
			die("cannot evaluate duration expression %s", txt(e))
			return 0
		}
		mp := findVar(f, "maxPostponement")
		if mp == nil {
			die("maxPostponement is gone")
		}
		rd := findVar(f, "refreshRetryDelay")
		if rd == nil {
			die("refreshRetryDelay is gone")
		}
		ds := findVar(f, "defaultRefreshScheduleStr")
		lit, ok := ds.(*ast.BasicLit)
		if !ok || lit.Kind != token.STRING {
			die("defaultRefreshScheduleStr is not a string literal")
		}
		def, err := strconv.Unquote(lit.Value)
		if err != nil || strings.ContainsAny(def, "\"\\") {
			die("defaultRefreshScheduleStr: %v", err)
		}

		// call sites of timeutil.Next
		ncalls := 0
		var ensure *ast.FuncDecl
		assigns := map[string][]string{}
		for _, d := range f.Decls {
			fd, ok := d.(*ast.FuncDecl)
			if !ok || fd.Body == nil {
				continue
			}
			if fd.Name.Name == "Ensure" {
				ensure = fd
			}
			ast.Inspect(fd.Body, func(x ast.Node) bool {
				switch n := x.(type) {
				case *ast.CallExpr:
					if txt(n.Fun) == "timeutil.Next" {
						ncalls++
						if len(n.Args) != 3 || txt(n.Args[0]) != "refreshSchedule" || txt(n.Args[2]) != "maxPostponement" {
							die("timeutil.Next call site %s does not pass (refreshSchedule, _, maxPostponement)", txt(n))
						}
					}
				case *ast.AssignStmt:
					for k, l := range n.Lhs {
						if txt(l) == "m.lastRefreshSchedule" && k < len(n.Rhs) {
							assigns[fd.Name.Name] = append(assigns[fd.Name.Name], txt(n.Rhs[k]))
						}
					}
				case *ast.IncDecStmt:
				}
				return true
			})
		}
		if ncalls != 2 {
			die("expected 2 timeutil.Next call sites in autorefresh.go, found %d", ncalls)
		}
		if ensure == nil {
			die("autoRefresh.Ensure is gone")
		}
		et := txt(ensure.Body)
		if !strings.Contains(et, "if !m.nextRefresh.IsZero() { if m.lastRefreshSchedule != refreshScheduleStr {") ||
			!strings.Contains(et, "m.nextRefresh = time.Time{} } } m.lastRefreshSchedule = refreshScheduleStr") {
			die("Ensure no longer resets nextRefresh when the timer string differs from lastRefreshSchedule")
		}
		if len(assigns) != 2 || len(assigns["Ensure"]) != 1 || assigns["Ensure"][0] != "refreshScheduleStr" ||
			len(assigns["refreshScheduleWithDefaultsFallback"]) != 1 || assigns["refreshScheduleWithDefaultsFallback"][0] != `"managed"` {
			die("m.lastRefreshSchedule is assigned in places the model does not know: %v", assigns)
		}

		fmt.Print(header("overlord/snapstate/autorefresh.go", src(fs, b, ensure)))
		fmt.Println("From Coq Require Import ZArith String.\nOpen Scope Z_scope.")
		fmt.Printf("Definition max_postponement_s : Z := %d.       (* maxPostponement, seconds *)\n", seconds(mp))
		fmt.Printf("Definition refresh_retry_delay_s : Z := %d.    (* refreshRetryDelay, seconds *)\n", seconds(rd))
		fmt.Printf("Definition default_timer : string := \"%s\"%%string.  (* defaultRefreshScheduleStr *)\n", def)
		fmt.Println("(* shape facts checked by the translator (it fails when one no longer holds) *)")
		fmt.Println("Definition next_calls_pass_max_postponement : bool := true.  (* both timeutil.Next(refreshSchedule, _, maxPostponement) *)")
		fmt.Println("Definition ensure_resets_on_timer_change : bool := true.     (* if lastRefreshSchedule != refreshScheduleStr { nextRefresh = zero }; lastRefreshSchedule = refreshScheduleStr *)")
		fmt.Println("Definition last_schedule_assigned_only_there : bool := true.  (* besides the `managed` branch *)")
	}
}
