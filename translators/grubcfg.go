package main

import (
	"fmt"
	"os"
	"path/filepath"
	"regexp"
	"strings"
)

// grubcfg: the if/elif chain on $kernel_status of bootloader/assets/data/grub.cfg as a transition table (C17).
//
// Output (coq/gen/GrubKernelStatus.v):
//   branches : list (N * N * bool * bool * bool)   one entry per branch, in order:
//       (test, new_status, saved, use_try_kernel, sets_fallback)
//       test:        0 = [ "$kernel_status" = "" ], 1 = ... = "try", 2 = ... = "trying", 3 = equality with any other literal,
//                    9 = [ -n "$kernel_status" ]
//       new_status:  0 = "", 1 = "try", 2 = "trying", 3 = any other literal, 8 = the branch does not assign kernel_status
//       saved:       the branch runs `save_env kernel_status` after the assignment
//       use_try_kernel: the branch sets kernel=try-kernel.efi
//       sets_fallback:  the branch sets fallback=1
//   default_kernel_efi : bool      `set kernel=kernel.efi` precedes the chain
//   boot_entry_chainloads_kernel : bool   menu entry 0 chainloads $prefix/$kernel
//   fallback_entry_reboots : bool  menu entry 1 runs `reboot`
func init() {
	cmds["grubcfg"] = func() {
		rel := "bootloader/assets/data/grub.cfg"
		b, err := os.ReadFile(filepath.Join(repo, rel))
		if err != nil {
			die("%v", err)
		}
		lines := strings.Split(string(b), "\n")
		code := func(s string) string {
			switch s {
			case "":
				return "0"
			case "try":
				return "1"
			case "trying":
				return "2"
			}
			return "3"
		}
		reIf := regexp.MustCompile(`^(if|elif) \[ "\$kernel_status" = "([^"]*)" \]; then$`)
		reIfN := regexp.MustCompile(`^(if|elif) \[ -n "\$kernel_status" \]; then$`)
		reSet := regexp.MustCompile(`^set kernel_status="?([^"]*)"?$`)
		type br struct {
			test, ns                string
			saved, useTry, fallback bool
		}
		var brs []br
		defaultKernel := false
		start, end := -1, -1
		in := false
		for i, raw := range lines {
			l := strings.TrimSpace(raw)
			if !in {
				if l == "set kernel=kernel.efi" {
					defaultKernel = true
				}
				if strings.HasPrefix(l, "if ") && strings.Contains(l, "$kernel_status") {
					if !defaultKernel {
						die("grub.cfg: the kernel_status chain is not preceded by `set kernel=kernel.efi`")
					}
					in = true
					start = i
				} else {
					continue
				}
			}
			switch {
			case l == "" || strings.HasPrefix(l, "#") || strings.HasPrefix(l, "echo "):
			case reIf.MatchString(l):
				m := reIf.FindStringSubmatch(l)
				if (m[1] == "if") != (len(brs) == 0) {
					die("grub.cfg:%d: unexpected %q", i+1, l)
				}
				brs = append(brs, br{test: code(m[2]), ns: "8"})
			case reIfN.MatchString(l):
				m := reIfN.FindStringSubmatch(l)
				if (m[1] == "if") != (len(brs) == 0) {
					die("grub.cfg:%d: unexpected %q", i+1, l)
				}
				brs = append(brs, br{test: "9", ns: "8"})
			case reSet.MatchString(l):
				cur := &brs[len(brs)-1]
				cur.ns = code(reSet.FindStringSubmatch(l)[1])
				cur.saved = false
			case l == "save_env kernel_status":
				brs[len(brs)-1].saved = true
			case l == "set fallback=1":
				brs[len(brs)-1].fallback = true
			case l == "set kernel=try-kernel.efi":
				brs[len(brs)-1].useTry = true
			case l == "set kernel=kernel.efi":
				brs[len(brs)-1].useTry = false
			case l == "fi":
				end = i
			default:
				die("grub.cfg:%d: statement %q inside the kernel_status chain is not understood by the translator", i+1, l)
			}
			if end >= 0 {
				break
			}
		}
		if start < 0 || end < 0 || len(brs) == 0 {
			die("grub.cfg: no if/elif chain on $kernel_status found")
		}
		// menu entries after the chain
		rest := strings.Join(lines[end+1:], "\n")
		reEntry := regexp.MustCompile(`(?s)menuentry "[^"]*" \{(.*?)\n\}`)
		ents := reEntry.FindAllStringSubmatch(rest, -1)
		if len(ents) < 1 {
			die("grub.cfg: no menuentry after the kernel_status chain")
		}
		stmts := func(body string) []string {
			var out []string
			for _, l := range strings.Split(body, "\n") {
				l = strings.TrimSpace(l)
				if l == "" || strings.HasPrefix(l, "#") || strings.HasPrefix(l, "echo ") {
					continue
				}
				out = append(out, l)
			}
			return out
		}
		s0 := stmts(ents[0][1])
		chain := len(s0) == 1 && strings.HasPrefix(s0[0], "chainloader $prefix/$kernel ")
		reboots := false
		if len(ents) >= 2 {
			s1 := stmts(ents[1][1])
			reboots = len(s1) == 1 && s1[0] == "reboot"
		}
		span := []byte(strings.Join(lines[start:], "\n"))
		fmt.Print(header(rel, span))
		fmt.Println("From Coq Require Import List NArith Bool.\nImport ListNotations.\nOpen Scope N_scope.")
		var items []string
		for _, x := range brs {
			items = append(items, fmt.Sprintf("(%s, %s, %v, %v, %v)", x.test, x.ns, x.saved, x.useTry, x.fallback))
		}
		fmt.Printf("Definition branches : list (N * N * bool * bool * bool) := [\n  %s\n].\n", strings.Join(items, ";\n  "))
		fmt.Printf("Definition default_kernel_efi : bool := %v.\n", defaultKernel)
		fmt.Printf("Definition boot_entry_chainloads_kernel : bool := %v.\n", chain)
		fmt.Printf("Definition fallback_entry_reboots : bool := %v.\n", reboots)
	}
}
