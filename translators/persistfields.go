package main

import (
	"fmt"
	"go/ast"
	"go/token"
	"sort"
	"strings"
)

// persistfields (C05): for each persisted struct of overlord/state (State, Task, Change, Notice, Warning) print
//   <X>_struct_fields      the fields of the in-memory struct
//   <X>_m_fields           the fields of the struct that is handed to encoding/json (marshalledTask, jsonNotice, ...)
//   <X>_marshal_written    the fields of the latter that MarshalJSON gives a value (composite literal keys, later assignments)
//   <X>_marshal_reads      the receiver fields / flatten* methods MarshalJSON reads
//   <X>_unmarshal_reads    the marshalled fields UnmarshalJSON reads
//   <X>_unmarshal_assigns  the receiver fields UnmarshalJSON assigns (and the unflatten* methods it calls)
// proofs/StatePersistProofs.v states the completeness obligations over these lists.
func init() {
	cmds["persistfields"] = func() {
		type spec struct{ file, typ, mtyp string }
		specs := []spec{
			{"overlord/state/state.go", "State", "marshalledState"},
			{"overlord/state/task.go", "Task", "marshalledTask"},
			{"overlord/state/change.go", "Change", "marshalledChange"},
			{"overlord/state/notices.go", "Notice", "jsonNotice"},
			{"overlord/state/warning.go", "Warning", "jsonWarning"},
		}
		var out strings.Builder
		var spans []byte
		for _, sp := range specs {
			fs, f, b := parseFile(sp.file)
			st := pfStruct(f, sp.typ)
			mt := pfStruct(f, sp.mtyp)
			if st == nil || mt == nil {
				die("%s: struct %s or %s not found", sp.file, sp.typ, sp.mtyp)
			}
			mar := pfMethod(f, sp.typ, "MarshalJSON")
			unm := pfMethod(f, sp.typ, "UnmarshalJSON")
			if mar == nil || unm == nil {
				die("%s: %s.MarshalJSON or UnmarshalJSON not found", sp.file, sp.typ)
			}
			for _, n := range []ast.Node{st, mt, mar, unm} {
				spans = append(spans, src(fs, b, n)...)
			}
			sf := pfFieldNames(st)
			mf := pfFieldNames(mt)
			if len(sf) == 0 || len(mf) == 0 {
				die("%s: empty field list", sp.file)
			}
			mw, mr := pfScan(mar, sp.mtyp, pfRecvName(mar))
			ur, ua := pfScanUnmarshal(unm, sp.mtyp, pfRecvName(unm))
			if len(mw) == 0 || len(ur) == 0 || len(ua) == 0 || len(mr) == 0 {
				die("%s: could not find the %s literal/variable in MarshalJSON/UnmarshalJSON of %s (written %d, reads %d, unmarshal reads %d, assigns %d)",
					sp.file, sp.mtyp, sp.typ, len(mw), len(mr), len(ur), len(ua))
			}
			pfEmit(&out, sp.typ+"_struct_fields", sf)
			pfEmit(&out, sp.typ+"_m_fields", mf)
			pfEmit(&out, sp.typ+"_marshal_written", mw)
			pfEmit(&out, sp.typ+"_marshal_reads", mr)
			pfEmit(&out, sp.typ+"_unmarshal_reads", ur)
			pfEmit(&out, sp.typ+"_unmarshal_assigns", ua)
		}
		fmt.Print(header("overlord/state/{state,task,change,notices,warning}.go", spans))
		fmt.Println("From Coq Require Import String List NArith.\nImport ListNotations.\nRequire Import V.lib.Bytes.")
		fmt.Print(out.String())
	}
}

func pfEmit(out *strings.Builder, name string, items []string) {
	q := make([]string, len(items))
	for i, s := range items {
		q[i] = `bs "` + s + `"`
	}
	fmt.Fprintf(out, "Definition %s : list bytes := [%s].\n", name, strings.Join(q, "; "))
}

func pfStruct(f *ast.File, name string) *ast.StructType {
	for _, d := range f.Decls {
		gd, ok := d.(*ast.GenDecl)
		if !ok || gd.Tok != token.TYPE {
			continue
		}
		for _, s := range gd.Specs {
			ts := s.(*ast.TypeSpec)
			if ts.Name.Name == name {
				if st, ok := ts.Type.(*ast.StructType); ok {
					return st
				}
			}
		}
	}
	return nil
}

func pfFieldNames(st *ast.StructType) []string {
	var out []string
	for _, fl := range st.Fields.List {
		for _, n := range fl.Names {
			out = append(out, n.Name)
		}
	}
	return out
}

func pfMethod(f *ast.File, recv, name string) *ast.FuncDecl {
	for _, d := range f.Decls {
		fd, ok := d.(*ast.FuncDecl)
		if !ok || fd.Name.Name != name || fd.Recv == nil || len(fd.Recv.List) != 1 {
			continue
		}
		t := fd.Recv.List[0].Type
		if se, ok := t.(*ast.StarExpr); ok {
			t = se.X
		}
		if id, ok := t.(*ast.Ident); ok && id.Name == recv {
			return fd
		}
	}
	return nil
}

func pfRecvName(fd *ast.FuncDecl) string {
	if len(fd.Recv.List[0].Names) == 0 {
		die("%s has an unnamed receiver", fd.Name.Name)
	}
	return fd.Recv.List[0].Names[0].Name
}

func pfSorted(m map[string]bool) []string {
	var out []string
	for k := range m {
		out = append(out, k)
	}
	sort.Strings(out)
	return out
}

// variables of the marshalled type: `x := M{...}`, `var x M`
func pfVars(fd *ast.FuncDecl, mtyp string) map[string]bool {
	vars := map[string]bool{}
	ast.Inspect(fd.Body, func(n ast.Node) bool {
		switch v := n.(type) {
		case *ast.AssignStmt:
			for i, r := range v.Rhs {
				if cl, ok := r.(*ast.CompositeLit); ok {
					if id, ok := cl.Type.(*ast.Ident); ok && id.Name == mtyp && i < len(v.Lhs) {
						if l, ok := v.Lhs[i].(*ast.Ident); ok {
							vars[l.Name] = true
						}
					}
				}
			}
		case *ast.ValueSpec:
			if id, ok := v.Type.(*ast.Ident); ok && id.Name == mtyp {
				for _, n := range v.Names {
					vars[n.Name] = true
				}
			}
		}
		return true
	})
	return vars
}

// MarshalJSON: marshalled fields written, receiver selectors read
func pfScan(fd *ast.FuncDecl, mtyp, recv string) (written, reads []string) {
	w, r := map[string]bool{}, map[string]bool{}
	vars := pfVars(fd, mtyp)
	ast.Inspect(fd.Body, func(n ast.Node) bool {
		switch v := n.(type) {
		case *ast.CompositeLit:
			if id, ok := v.Type.(*ast.Ident); ok && id.Name == mtyp {
				for _, e := range v.Elts {
					kv, ok := e.(*ast.KeyValueExpr)
					if !ok {
						die("%s literal without field keys", mtyp)
					}
					w[kv.Key.(*ast.Ident).Name] = true
				}
			}
		case *ast.AssignStmt:
			for _, l := range v.Lhs {
				if se, ok := l.(*ast.SelectorExpr); ok {
					if id, ok := se.X.(*ast.Ident); ok && vars[id.Name] {
						w[se.Sel.Name] = true
					}
				}
			}
		case *ast.SelectorExpr:
			if id, ok := v.X.(*ast.Ident); ok && id.Name == recv {
				r[v.Sel.Name] = true
			}
		}
		return true
	})
	return pfSorted(w), pfSorted(r)
}

// UnmarshalJSON: marshalled fields read, receiver fields assigned (plus unflatten* methods called)
func pfScanUnmarshal(fd *ast.FuncDecl, mtyp, recv string) (reads, assigns []string) {
	r, a := map[string]bool{}, map[string]bool{}
	vars := pfVars(fd, mtyp)
	ast.Inspect(fd.Body, func(n ast.Node) bool {
		switch v := n.(type) {
		case *ast.AssignStmt:
			for _, l := range v.Lhs {
				if se, ok := l.(*ast.SelectorExpr); ok {
					if id, ok := se.X.(*ast.Ident); ok && id.Name == recv {
						a[se.Sel.Name] = true
					}
				}
			}
		case *ast.CallExpr:
			if se, ok := v.Fun.(*ast.SelectorExpr); ok {
				if id, ok := se.X.(*ast.Ident); ok && id.Name == recv && strings.HasPrefix(se.Sel.Name, "unflatten") {
					a[se.Sel.Name] = true
				}
			}
		case *ast.SelectorExpr:
			if id, ok := v.X.(*ast.Ident); ok && vars[id.Name] {
				r[v.Sel.Name] = true
			}
		}
		return true
	})
	return pfSorted(r), pfSorted(a)
}
