package main

import (
	"fmt"
	"go/ast"
	"go/token"
	"math/big"
)

// holdconsts: the duration constants the refresh-hold bound is computed from (C15), and the fact that the two
// production call sites of snapstate.HoldRefresh by gating snaps (the gate-auto-refresh hook's error handler and
// `snapctl refresh --hold`) pass the zero (= default, maximum) duration and the auto-refresh level.

var hcTimeUnits = map[string]int64{
	"Nanosecond": 1, "Microsecond": 1000, "Millisecond": 1000000, "Second": 1000000000,
	"Minute": 60 * 1000000000, "Hour": 3600 * 1000000000,
}

// hcConstExpr evaluates an integer constant expression built from literals, time.<Unit>, * + - << and
// time.Duration(...) conversions.
func hcConstExpr(e ast.Expr) *big.Int {
	switch v := e.(type) {
	case *ast.BasicLit:
		if v.Kind == token.INT {
			n, ok := new(big.Int).SetString(v.Value, 0)
			if ok {
				return n
			}
		}
	case *ast.ParenExpr:
		return hcConstExpr(v.X)
	case *ast.SelectorExpr:
		if id, ok := v.X.(*ast.Ident); ok && id.Name == "time" {
			if u, ok := hcTimeUnits[v.Sel.Name]; ok {
				return big.NewInt(u)
			}
		}
	case *ast.CallExpr:
		if s, ok := v.Fun.(*ast.SelectorExpr); ok && len(v.Args) == 1 {
			if id, ok := s.X.(*ast.Ident); ok && id.Name == "time" && s.Sel.Name == "Duration" {
				return hcConstExpr(v.Args[0])
			}
		}
	case *ast.BinaryExpr:
		a, b := hcConstExpr(v.X), hcConstExpr(v.Y)
		switch v.Op {
		case token.MUL:
			return new(big.Int).Mul(a, b)
		case token.ADD:
			return new(big.Int).Add(a, b)
		case token.SUB:
			return new(big.Int).Sub(a, b)
		case token.SHL:
			return new(big.Int).Lsh(a, uint(b.Int64()))
		}
	}
	die("holdconsts: constant expression of unexpected shape: %T", e)
	return nil
}

// hcFindConst returns the value expression of a package-level `const name = ...`
func hcFindConst(f *ast.File, name string) ast.Expr {
	for _, d := range f.Decls {
		gd, ok := d.(*ast.GenDecl)
		if !ok || gd.Tok != token.CONST {
			continue
		}
		for _, s := range gd.Specs {
			vs := s.(*ast.ValueSpec)
			for i, n := range vs.Names {
				if n.Name == name && i < len(vs.Values) {
					return vs.Values[i]
				}
			}
		}
	}
	return nil
}

// hcZeroDurationCall checks that method recv.fn contains exactly one call snapstate.HoldRefresh(st,
// snapstate.HoldAutoRefresh, <x>, holdDuration, ...) where holdDuration is declared `var holdDuration time.Duration`
// and never assigned.
func hcZeroDurationCall(rel, recv, fn string) {
	_, f, _ := parseFile(rel)
	var fd *ast.FuncDecl
	for _, d := range f.Decls {
		if x, ok := d.(*ast.FuncDecl); ok && x.Name.Name == fn && x.Recv != nil && len(x.Recv.List) == 1 {
			t := x.Recv.List[0].Type
			if st, ok := t.(*ast.StarExpr); ok {
				t = st.X
			}
			if id, ok := t.(*ast.Ident); ok && id.Name == recv {
				fd = x
			}
		}
	}
	if fd == nil {
		die("holdconsts: %s: func %s not found", rel, fn)
	}
	calls, declared, assigned := 0, false, false
	ast.Inspect(fd.Body, func(n ast.Node) bool {
		switch v := n.(type) {
		case *ast.CallExpr:
			if s, ok := v.Fun.(*ast.SelectorExpr); ok && s.Sel.Name == "HoldRefresh" {
				calls++
				if len(v.Args) < 4 {
					die("holdconsts: %s:%s: HoldRefresh call has %d arguments", rel, fn, len(v.Args))
				}
				if l, ok := v.Args[1].(*ast.SelectorExpr); !ok || l.Sel.Name != "HoldAutoRefresh" {
					die("holdconsts: %s:%s: HoldRefresh level argument is not snapstate.HoldAutoRefresh", rel, fn)
				}
				if id, ok := v.Args[3].(*ast.Ident); !ok || id.Name != "holdDuration" {
					die("holdconsts: %s:%s: HoldRefresh duration argument is not the variable holdDuration", rel, fn)
				}
			}
		case *ast.GenDecl:
			if v.Tok == token.VAR {
				for _, s := range v.Specs {
					vs := s.(*ast.ValueSpec)
					for _, n := range vs.Names {
						if n.Name == "holdDuration" {
							if len(vs.Values) != 0 {
								die("holdconsts: %s:%s: holdDuration is initialised", rel, fn)
							}
							if t, ok := vs.Type.(*ast.SelectorExpr); !ok || t.Sel.Name != "Duration" {
								die("holdconsts: %s:%s: holdDuration is not a time.Duration", rel, fn)
							}
							declared = true
						}
					}
				}
			}
		case *ast.AssignStmt:
			for _, l := range v.Lhs {
				if id, ok := l.(*ast.Ident); ok && id.Name == "holdDuration" {
					assigned = true
				}
			}
		case *ast.UnaryExpr:
			if id, ok := v.X.(*ast.Ident); ok && v.Op == token.AND && id.Name == "holdDuration" {
				assigned = true
			}
		case *ast.IncDecStmt:
			if id, ok := v.X.(*ast.Ident); ok && id.Name == "holdDuration" {
				assigned = true
			}
		}
		return true
	})
	if calls != 1 || !declared || assigned {
		die("holdconsts: %s:%s: expected one HoldRefresh call with an unassigned zero `var holdDuration time.Duration` (calls=%d declared=%v assigned=%v)",
			rel, fn, calls, declared, assigned)
	}
}

func init() {
	cmds["holdconsts"] = func() {
		fs, fa, ba := parseFile("overlord/snapstate/autorefresh.go")
		_, fg, _ := parseFile("overlord/snapstate/autorefresh_gating.go")
		get := func(f *ast.File, name string) *big.Int {
			e := hcFindConst(f, name)
			if e == nil {
				die("holdconsts: const %s not found", name)
			}
			return hcConstExpr(e)
		}
		mp := get(fa, "maxPostponement")
		buf := get(fa, "maxPostponementBuffer")
		md := get(fa, "maxDuration")
		mo := get(fg, "maxOtherHoldDuration")
		hcZeroDurationCall("overlord/hookstate/ctlcmd/refresh.go", "refreshCommand", "hold")
		hcZeroDurationCall("overlord/hookstate/hooks.go", "gateAutoRefreshHookHandler", "Error")
		fmt.Print(header("overlord/snapstate/autorefresh.go", src(fs, ba, hcFindConst(fa, "maxPostponement"))))
		fmt.Println("(* durations in nanoseconds, as Go's time.Duration *)")
		fmt.Println("From Coq Require Import ZArith.\nOpen Scope Z_scope.")
		fmt.Printf("Definition max_postponement : Z := %s.\n", mp)
		fmt.Printf("Definition max_postponement_buffer : Z := %s.\n", buf)
		fmt.Printf("Definition max_other_hold_duration : Z := %s.\n", mo)
		fmt.Printf("Definition max_duration : Z := %s.\n", md)
		fmt.Println("(* checked by the translator: overlord/hookstate/ctlcmd/refresh.go:hold and overlord/hookstate/hooks.go:Error each")
		fmt.Println("   contain exactly one call HoldRefresh(st, HoldAutoRefresh, snap, holdDuration, ...) with `var holdDuration time.Duration`")
		fmt.Println("   never assigned, i.e. gating snaps always request the default duration at the auto-refresh level *)")
		fmt.Println("Definition gating_call_sites_pass_zero_duration : bool := true.")
	}
}
