package main

// regexes: regular-expression literals and length limits, parsed with Go's own regexp/syntax parser and printed
// as terms of the Coq AST of coq/lib/Regex.v.
//   namingregexes  (C24): snap/naming/validate.go, cmd/libsnap-confine-private/snap.{c,h}, cmd/snap-update-ns/bootstrap.c
//   desktopregexes (C27): wrappers/desktop.go (isValidDesktopFileLine, one entry per alternative)
//
// Anchors: a pattern is turned into an ANCHORED (whole string) expression. A leading ^ / trailing $ at the top
// level of the pattern is dropped; where it is missing an any-byte star is put in its place (search semantics).
// Anchors anywhere else make the translator fail.

import (
	"fmt"
	"go/ast"
	"go/token"
	"os"
	"path/filepath"
	"regexp"
	"regexp/syntax"
	"strconv"
	"strings"
	"unicode/utf8"
)

func reNode(re *syntax.Regexp) string {
	if re.Flags&syntax.FoldCase != 0 {
		die("regex %q: case folding is not supported", re.String())
	}
	switch re.Op {
	case syntax.OpNoMatch:
		return "Empty"
	case syntax.OpEmptyMatch:
		return "Eps"
	case syntax.OpLiteral:
		var bs []string
		for _, r := range re.Rune {
			var buf [4]byte
			n := utf8.EncodeRune(buf[:], r)
			for _, b := range buf[:n] {
				bs = append(bs, strconv.Itoa(int(b)))
			}
		}
		return "(Lit [" + strings.Join(bs, ";") + "])"
	case syntax.OpCharClass:
		var rs []string
		for i := 0; i+1 < len(re.Rune); i += 2 {
			rs = append(rs, fmt.Sprintf("(%d,%d)", re.Rune[i], re.Rune[i+1]))
		}
		return "(Cls [" + strings.Join(rs, ";") + "])"
	case syntax.OpAnyChar:
		return "AnyByte"
	case syntax.OpAnyCharNotNL:
		return "(Cls [(0,9);(11,255)])"
	case syntax.OpCapture:
		return reNode(re.Sub[0])
	case syntax.OpStar:
		return "(Star " + reNode(re.Sub[0]) + ")"
	case syntax.OpPlus:
		return "(Plus " + reNode(re.Sub[0]) + ")"
	case syntax.OpQuest:
		return "(Opt " + reNode(re.Sub[0]) + ")"
	case syntax.OpRepeat:
		if re.Max < 0 {
			return fmt.Sprintf("(rep_min %d %s)", re.Min, reNode(re.Sub[0]))
		}
		return fmt.Sprintf("(rep %d %d %s)", re.Min, re.Max-re.Min, reNode(re.Sub[0]))
	case syntax.OpConcat:
		return reFold("Cat", re.Sub)
	case syntax.OpAlternate:
		return reFold("Alt", re.Sub)
	}
	die("regex %q: operator %v is not supported here (anchor or boundary inside the pattern?)", re.String(), re.Op)
	return ""
}

func reFold(op string, subs []*syntax.Regexp) string {
	if len(subs) == 0 {
		return "Eps"
	}
	s := reNode(subs[len(subs)-1])
	for i := len(subs) - 2; i >= 0; i-- {
		s = "(" + op + " " + reNode(subs[i]) + " " + s + ")"
	}
	return s
}

// reAnchored parses a pattern and prints the anchored expression.
func reAnchored(pat string, flags syntax.Flags) string {
	re, err := syntax.Parse(pat, flags)
	if err != nil {
		die("cannot parse regex %q: %v", pat, err)
	}
	subs := []*syntax.Regexp{re}
	if re.Op == syntax.OpConcat {
		subs = re.Sub
	}
	begin, end := false, false
	if len(subs) > 0 && subs[0].Op == syntax.OpBeginText {
		begin, subs = true, subs[1:]
	}
	if len(subs) > 0 && subs[len(subs)-1].Op == syntax.OpEndText {
		end, subs = true, subs[:len(subs)-1]
	}
	body := reFold("Cat", subs)
	switch {
	case begin && end:
		return body
	case begin:
		return "(search_r " + body + ")"
	case end:
		return "(search_l " + body + ")"
	}
	return "(search " + body + ")"
}

// strConst evaluates a Go string expression made of literals, + and package-level string constants.
func strConst(f *ast.File, e ast.Expr) string {
	switch v := e.(type) {
	case *ast.BasicLit:
		if v.Kind == token.STRING {
			s, err := strconv.Unquote(v.Value)
			if err != nil {
				die("bad string literal %s", v.Value)
			}
			return s
		}
	case *ast.BinaryExpr:
		if v.Op == token.ADD {
			return strConst(f, v.X) + strConst(f, v.Y)
		}
	case *ast.ParenExpr:
		return strConst(f, v.X)
	case *ast.Ident:
		if d := findVar(f, v.Name); d != nil {
			return strConst(f, d)
		}
	}
	die("expression is not a constant string")
	return ""
}

// mustCompileArg returns the pattern argument of `var name = regexp.MustCompile(<arg>)[.Method]`
func mustCompileArg(f *ast.File, name string) ast.Expr {
	v := findVar(f, name)
	if v == nil {
		die("var %s not found", name)
	}
	if sel, ok := v.(*ast.SelectorExpr); ok { // regexp.MustCompile(...).Match
		v = sel.X
	}
	call, ok := v.(*ast.CallExpr)
	if !ok || len(call.Args) != 1 {
		die("var %s is not regexp.MustCompile(<pattern>)", name)
	}
	if sel, ok := call.Fun.(*ast.SelectorExpr); !ok || sel.Sel.Name != "MustCompile" {
		die("var %s is not regexp.MustCompile(<pattern>)", name)
	}
	return call.Args[0]
}

func readRepo(rel string) string {
	b, err := os.ReadFile(filepath.Join(repo, rel))
	if err != nil {
		die("%v", err)
	}
	return string(b)
}

// cFuncBody returns the text of the body of the C function `name` (brace matching; the sources have no braces in
// string literals in the functions we read except none, which is checked by the balanced count reaching zero).
func cFuncBody(src, rel, name string) string {
	loc := regexp.MustCompile(`(?m)^[A-Za-z_][A-Za-z0-9_ \*]*\b` + regexp.QuoteMeta(name) + `\s*\([^;{]*\)\s*\{`).FindStringIndex(src)
	if loc == nil {
		die("%s: function %s not found", rel, name)
	}
	depth := 0
	for i := loc[1] - 1; i < len(src); i++ {
		switch src[i] {
		case '{':
			depth++
		case '}':
			depth--
			if depth == 0 {
				return src[loc[1]-1 : i+1]
			}
		}
	}
	die("%s: unbalanced braces in %s", rel, name)
	return ""
}

func cDefine(src, rel, name string) string {
	m := regexp.MustCompile(`(?m)^#define\s+` + name + `\s+(.+)$`).FindStringSubmatch(src)
	if m == nil {
		die("%s: #define %s not found", rel, name)
	}
	return strings.TrimSpace(m[1])
}

// cSum evaluates `40`, `(A + 1 + B)` with A, B #defines of the same header
func cSum(src, rel, expr string) int {
	expr = strings.Trim(strings.TrimSpace(expr), "()")
	total := 0
	for _, t := range strings.Split(expr, "+") {
		t = strings.TrimSpace(t)
		if n, err := strconv.Atoi(t); err == nil {
			total += n
		} else if regexp.MustCompile(`^[A-Z_]+$`).MatchString(t) {
			total += cSum(src, rel, cDefine(src, rel, t))
		} else {
			die("%s: cannot evaluate %q", rel, expr)
		}
	}
	return total
}

func must1(src, rel, what, pat string) string {
	m := regexp.MustCompile(pat).FindStringSubmatch(src)
	if m == nil {
		die("%s: %s not found (pattern %s)", rel, what, pat)
	}
	return m[1]
}

const regexPrelude = "From Coq Require Import List NArith.\nImport ListNotations.\nRequire Import V.lib.Bytes V.lib.Regex.\nOpen Scope N_scope.\n"

func init() {
	cmds["namingregexes"] = func() {
		_, f, b := parseFile("snap/naming/validate.go")
		snapC := readRepo("cmd/libsnap-confine-private/snap.c")
		snapH := readRepo("cmd/libsnap-confine-private/snap.h")
		bootC := readRepo("cmd/snap-update-ns/bootstrap.c")
		fmt.Print(header("snap/naming/validate.go + cmd/libsnap-confine-private/snap.[ch] + cmd/snap-update-ns/bootstrap.c",
			append(append(append(b, snapC...), snapH...), bootC...)))
		fmt.Print(regexPrelude)
		for _, v := range [][2]string{{"almostValidName", "almost_valid_name"}, {"validInstanceKey", "valid_instance_key"},
			{"validHook", "valid_hook"}, {"ValidApp", "valid_app"}, {"validPlugSlotIface", "valid_plug_slot_iface"},
			{"ValidAlias", "valid_alias"}, {"ValidSnapID", "valid_snap_id"}, {"ValidProvenance", "valid_provenance"}} {
			pat := strConst(f, mustCompileArg(f, v[0]))
			fmt.Printf("(* %s = %s *)\nDefinition %s : regex := %s.\n", v[0], strings.ReplaceAll(strconv.Quote(pat), "*)", "* )"), v[1], reAnchored(pat, syntax.Perl))
		}
		// len(name) < 2 || len(name) > 40 in ValidateSnap
		fd := findFunc(f, "ValidateSnap")
		if fd == nil {
			die("ValidateSnap not found")
		}
		lo, hi := "", ""
		ast.Inspect(fd, func(n ast.Node) bool {
			if be, ok := n.(*ast.BinaryExpr); ok {
				if c, ok := be.X.(*ast.CallExpr); ok {
					if id, ok := c.Fun.(*ast.Ident); ok && id.Name == "len" {
						if v, ok := intLit(be.Y); ok {
							if be.Op == token.LSS {
								lo = v
							} else if be.Op == token.GTR {
								hi = v
							}
						}
					}
				}
			}
			return true
		})
		if lo == "" || hi == "" {
			die("ValidateSnap: length bounds `len(name) < lo || len(name) > hi` not found")
		}
		fmt.Printf("(* ValidateSnap: len(name) < %s || len(name) > %s *)\nDefinition go_snap_min_len : nat := %s.\nDefinition go_snap_max_len : nat := %s.\n", lo, hi, lo, hi)

		// validQuotaGroupName must be almostValidName itself, and ValidateQuotaGroup's bounds
		if id, ok := findVar(f, "validQuotaGroupName").(*ast.Ident); !ok || id.Name != "almostValidName" {
			die("validQuotaGroupName is no longer almostValidName")
		}
		qd := findFunc(f, "ValidateQuotaGroup")
		if qd == nil {
			die("ValidateQuotaGroup not found")
		}
		qlo, qhi := "", ""
		ast.Inspect(qd, func(n ast.Node) bool {
			if be, ok := n.(*ast.BinaryExpr); ok {
				if c, ok := be.X.(*ast.CallExpr); ok {
					if id, ok := c.Fun.(*ast.Ident); ok && id.Name == "len" {
						if v, ok := intLit(be.Y); ok {
							if be.Op == token.LSS {
								qlo = v
							} else if be.Op == token.GTR {
								qhi = v
							}
						}
					}
				}
			}
			return true
		})
		if qlo == "" || qhi == "" {
			die("ValidateQuotaGroup: length bounds not found")
		}
		fmt.Printf("Definition go_quota_min_len : nat := %s.\nDefinition go_quota_max_len : nat := %s.\n", qlo, qhi)

		// snap-confine
		hb := cFuncBody(snapC, "snap.c", "sc_is_hook_security_tag")
		hlit := must1(hb, "snap.c", "whitelist_re literal of sc_is_hook_security_tag", `whitelist_re\s*=\s*"((?:[^"\\]|\\.)*)"`)
		hpat, herr := strconv.Unquote(`"` + hlit + `"`)
		if herr != nil {
			die("snap.c: cannot unquote the hook tag regex: %v", herr)
		}
		fmt.Printf("(* sc_is_hook_security_tag: %s *)\nDefinition sc_hook_tag_re : regex := %s.\n", strings.ReplaceAll(strconv.Quote(hpat), "*)", "* )"), reAnchored(hpat, syntax.OneLine))
		body := cFuncBody(snapC, "snap.c", "sc_security_tag_validate")
		lit := must1(body, "snap.c", "whitelist_re literal", `whitelist_re\s*=\s*"((?:[^"\\]|\\.)*)"`)
		pat, err := strconv.Unquote(`"` + lit + `"`)
		if err != nil {
			die("snap.c: cannot unquote the tag regex: %v", err)
		}
		fmt.Printf("(* sc_security_tag_validate: %s *)\nDefinition sc_tag_re : regex := %s.\n", strings.ReplaceAll(strconv.Quote(pat), "*)", "* )"), reAnchored(pat, syntax.OneLine))
		for _, d := range [][2]string{{"SNAP_NAME_LEN", "sc_snap_name_len"}, {"SNAP_INSTANCE_KEY_LEN", "sc_instance_key_len"},
			{"SNAP_INSTANCE_LEN", "sc_instance_len"}, {"SNAP_SECURITY_TAG_MAX_LEN", "sc_security_tag_max_len"}} {
			fmt.Printf("Definition %s : nat := %d. (* snap.h %s *)\n", d[1], cSum(snapH, "snap.h", cDefine(snapH, "snap.h", d[0])), d[0])
		}
		// the limits used inside the snap.c validators must be these macros
		vb := cFuncBody(snapC, "snap.c", "validate_as_snap_or_component_name")
		must1(vb, "snap.c", "n > SNAP_NAME_LEN", `n\s*>\s*(SNAP_NAME_LEN)\b`)
		fmt.Printf("Definition sc_name_min : nat := %s. (* snap.c validate_as_snap_or_component_name: n < _ *)\n", must1(vb, "snap.c", "n < 2", `\bn\s*<\s*(\d+)\b`))
		must1(cFuncBody(snapC, "snap.c", "sc_instance_key_validate"), "snap.c", "i > SNAP_INSTANCE_KEY_LEN", `i\s*>\s*(SNAP_INSTANCE_KEY_LEN)\b`)
		must1(cFuncBody(snapC, "snap.c", "sc_instance_name_validate"), "snap.c", "strlen(instance_name) > SNAP_INSTANCE_LEN", `strlen\(instance_name\)\s*>\s*(SNAP_INSTANCE_LEN)\b`)
		cb := cFuncBody(snapC, "snap.c", "sc_snap_component_validate")
		must1(cb, "snap.c", "snap_name_len > SNAP_NAME_LEN", `snap_name_len\s*>\s*(SNAP_NAME_LEN)\b`)
		must1(cb, "snap.c", "component_name_len > SNAP_NAME_LEN", `component_name_len\s*>\s*(SNAP_NAME_LEN)\b`)

		// snap-update-ns
		sb := cFuncBody(bootC, "bootstrap.c", "validate_snap_name")
		fmt.Printf("Definition sun_name_min : nat := %s. (* bootstrap.c validate_snap_name: n < _ *)\n", must1(sb, "bootstrap.c", "n < 2", `\bn\s*<\s*(\d+)\b`))
		fmt.Printf("Definition sun_name_max : nat := %s. (* bootstrap.c validate_snap_name: n > _ *)\n", must1(sb, "bootstrap.c", "n > 40", `\bn\s*>\s*(\d+)\b`))
		kb := cFuncBody(bootC, "bootstrap.c", "instance_key_validate")
		fmt.Printf("Definition sun_key_max : nat := %s. (* bootstrap.c instance_key_validate: i > _ *)\n", must1(kb, "bootstrap.c", "i > 10", `\bi\s*>\s*(\d+)\b`))
		ib := cFuncBody(bootC, "bootstrap.c", "validate_instance_name")
		fmt.Printf("Definition sun_instance_buf : nat := %s. (* bootstrap.c validate_instance_name: char s[_] *)\n", must1(ib, "bootstrap.c", "char s[53]", `char\s+s\[(\d+)\]`))
		must1(ib, "bootstrap.c", "strncpy(s, instance_name, sizeof(s) - 1)", `strncpy\(s,\s*instance_name,\s*(sizeof\(s\)\s*-\s*1)\)`)
	}

	cmds["desktopregexes"] = func() {
		_, f, b := parseFile("wrappers/desktop.go")
		arg := mustCompileArg(f, "isValidDesktopFileLine")
		// strings.Join([]string{...}, "|")
		call, ok := arg.(*ast.CallExpr)
		if !ok || len(call.Args) != 2 {
			die("isValidDesktopFileLine is no longer regexp.MustCompile(strings.Join([]string{...}, \"|\"))")
		}
		if sel, ok := call.Fun.(*ast.SelectorExpr); !ok || sel.Sel.Name != "Join" {
			die("isValidDesktopFileLine is no longer built with strings.Join")
		}
		if strConst(f, call.Args[1]) != "|" {
			die("isValidDesktopFileLine: separator is not |")
		}
		cl, ok := call.Args[0].(*ast.CompositeLit)
		if !ok {
			die("isValidDesktopFileLine: first argument of strings.Join is not a literal slice")
		}
		fmt.Print(header("wrappers/desktop.go", b))
		fmt.Print(regexPrelude)
		fmt.Println("(* isValidDesktopFileLine: one anchored expression per alternative, in source order *)")
		fmt.Println("Definition valid_line_alts : list regex := [")
		for i, e := range cl.Elts {
			pat := strConst(f, e)
			// each alternative must be a full alternative of the joined pattern: no top-level | inside
			re, err := syntax.Parse(pat, syntax.Perl)
			if err != nil {
				die("cannot parse %q: %v", pat, err)
			}
			if re.Op == syntax.OpAlternate {
				die("alternative %q contains a top-level |", pat)
			}
			sep := ";"
			if i == len(cl.Elts)-1 {
				sep = ""
			}
			fmt.Printf("  (* %s *)\n  %s%s\n", strings.ReplaceAll(strconv.Quote(pat), "*)", "* )"), reAnchored(pat, syntax.Perl), sep)
		}
		fmt.Println("].")
	}
}
