package main

import (
	"bytes"
	"fmt"
	"go/ast"
	"go/parser"
	"go/token"
	"io/fs"
	"os"
	"path/filepath"
	"sort"
	"strconv"
	"strings"
)

// noticetypes (C08): from overlord/state/notices.go the notice types NoticeType.Valid accepts (resolved to their
// string values) and maxNoticeKeyLength; from every non-test .go file of the repository that mentions
// AddNoticeOptions, the places that set its Time field (the C08 theorems assume there is none).
func init() {
	cmds["noticetypes"] = func() {
		const rel = "overlord/state/notices.go"
		fset, f, b := parseFile(rel)
		consts := map[string]string{}
		maxKey := ""
		for _, d := range f.Decls {
			gd, ok := d.(*ast.GenDecl)
			if !ok || gd.Tok != token.CONST {
				continue
			}
			for _, s := range gd.Specs {
				vs := s.(*ast.ValueSpec)
				for i, n := range vs.Names {
					if i >= len(vs.Values) {
						continue
					}
					if bl, ok := vs.Values[i].(*ast.BasicLit); ok {
						if bl.Kind == token.STRING {
							if v, err := strconv.Unquote(bl.Value); err == nil {
								consts[n.Name] = v
							}
						}
						if bl.Kind == token.INT && n.Name == "maxNoticeKeyLength" {
							maxKey = bl.Value
						}
					}
				}
			}
		}
		if maxKey == "" {
			die("maxNoticeKeyLength is no longer an integer constant in %s", rel)
		}
		var valid *ast.FuncDecl
		for _, d := range f.Decls {
			if fd, ok := d.(*ast.FuncDecl); ok && fd.Name.Name == "Valid" && fd.Recv != nil {
				valid = fd
			}
		}
		if valid == nil {
			die("NoticeType.Valid not found")
		}
		var types []string
		nswitch := 0
		ast.Inspect(valid, func(n ast.Node) bool {
			cc, ok := n.(*ast.CaseClause)
			if !ok {
				return true
			}
			nswitch++
			for _, e := range cc.List {
				id, ok := e.(*ast.Ident)
				if !ok {
					die("NoticeType.Valid: case expression is not an identifier")
				}
				v, ok := consts[id.Name]
				if !ok {
					die("NoticeType.Valid: %s is not a string constant of the file", id.Name)
				}
				types = append(types, v)
			}
			return true
		})
		if nswitch != 1 || len(types) == 0 {
			die("NoticeType.Valid no longer is a single-case switch")
		}

		// call sites that set AddNoticeOptions.Time
		var sites []string
		filepath.WalkDir(repo, func(p string, d fs.DirEntry, err error) error {
			if err != nil {
				return nil
			}
			if d.IsDir() {
				switch d.Name() {
				case ".git", "vendor", "c-vendor", "tests", "zzverif":
					return filepath.SkipDir
				}
				return nil
			}
			if !strings.HasSuffix(p, ".go") || strings.HasSuffix(p, "_test.go") {
				return nil
			}
			data, err := os.ReadFile(p)
			if err != nil || !bytes.Contains(data, []byte("AddNoticeOptions")) {
				return nil
			}
			fs2 := token.NewFileSet()
			af, err := parser.ParseFile(fs2, p, data, 0)
			if err != nil {
				die("%v", err)
			}
			relp, _ := filepath.Rel(repo, p)
			ast.Inspect(af, func(n ast.Node) bool {
				switch v := n.(type) {
				case *ast.CompositeLit:
					name := ""
					switch t := v.Type.(type) {
					case *ast.Ident:
						name = t.Name
					case *ast.SelectorExpr:
						name = t.Sel.Name
					}
					if name != "AddNoticeOptions" {
						return true
					}
					for _, e := range v.Elts {
						kv, ok := e.(*ast.KeyValueExpr)
						if !ok {
							sites = append(sites, fmt.Sprintf("%s:%d positional literal", relp, fs2.Position(e.Pos()).Line))
							continue
						}
						if id, ok := kv.Key.(*ast.Ident); ok && id.Name == "Time" {
							sites = append(sites, fmt.Sprintf("%s:%d", relp, fs2.Position(kv.Pos()).Line))
						}
					}
				case *ast.AssignStmt:
					for _, l := range v.Lhs {
						if se, ok := l.(*ast.SelectorExpr); ok && se.Sel.Name == "Time" {
							sites = append(sites, fmt.Sprintf("%s:%d assignment", relp, fs2.Position(l.Pos()).Line))
						}
					}
				}
				return true
			})
			return nil
		})
		sort.Strings(sites)

		// persistence of the notice fields of State (overlord/state/state.go)
		const srel = "overlord/state/state.go"
		sfs, sf, sb := parseFile(srel)
		// body text without white space, with the receiver renamed to `s` and (UnmarshalJSON) the local variable of type
		// marshalledState renamed to `unmarshalled`, so that renaming either is not mistaken for a dropped field
		body := func(name string) string {
			for _, d := range sf.Decls {
				fd, ok := d.(*ast.FuncDecl)
				if !ok || fd.Name.Name != name || fd.Recv == nil || fd.Body == nil {
					continue
				}
				se, ok := fd.Recv.List[0].Type.(*ast.StarExpr)
				if !ok {
					continue
				}
				if id, ok := se.X.(*ast.Ident); !ok || id.Name != "State" {
					continue
				}
				ren := map[string]string{}
				if len(fd.Recv.List[0].Names) == 1 {
					ren[fd.Recv.List[0].Names[0].Name] = "s"
				}
				ast.Inspect(fd.Body, func(n ast.Node) bool {
					if vs, ok := n.(*ast.ValueSpec); ok && len(vs.Names) == 1 {
						if id, ok := vs.Type.(*ast.Ident); ok && id.Name == "marshalledState" {
							ren[vs.Names[0].Name] = "unmarshalled"
						}
					}
					return true
				})
				type edit struct {
					pos, end int
					to       string
				}
				var edits []edit
				base := sfs.Position(fd.Body.Pos()).Offset
				ast.Inspect(fd.Body, func(n ast.Node) bool {
					if id, ok := n.(*ast.Ident); ok && id.Obj != nil {
						if to, ok := ren[id.Name]; ok && to != id.Name {
							edits = append(edits, edit{sfs.Position(id.Pos()).Offset - base, sfs.Position(id.End()).Offset - base, to})
						}
					}
					return true
				})
				txt := string(src(sfs, sb, fd.Body))
				sort.Slice(edits, func(i, j int) bool { return edits[i].pos > edits[j].pos })
				for _, e := range edits {
					txt = txt[:e.pos] + e.to + txt[e.end:]
				}
				return strings.Join(strings.Fields(txt), "")
			}
			die("%s: (*State).%s not found", srel, name)
			return ""
		}
		mj, uj := body("MarshalJSON"), body("UnmarshalJSON")
		if !strings.Contains(mj, "json.Marshal(marshalledState{") || !strings.Contains(uj, "json.Unmarshal(data,&unmarshalled)") {
			die("%s: State.MarshalJSON / UnmarshalJSON no longer go through marshalledState", srel)
		}
		flag := func(txt, pat string) string {
			if strings.Contains(txt, pat) {
				return "true"
			}
			return "false"
		}

		fmt.Print(header(rel, src(fset, b, valid)))
		fmt.Println("From Coq Require Import List NArith String.\nImport ListNotations.\nRequire Import V.lib.Bytes.")
		var items []string
		for _, t := range types {
			items = append(items, fmt.Sprintf("bs %q", t))
		}
		fmt.Printf("Definition valid_types : list bytes := [%s].\n", strings.Join(items, "; "))
		fmt.Printf("Definition max_key_length : nat := %s.\n", maxKey)
		items = nil
		for _, s := range sites {
			items = append(items, fmt.Sprintf("bs %q", s))
		}
		fmt.Printf("(* State.MarshalJSON writes / State.UnmarshalJSON restores: the notices, lastNoticeId, lastNoticeTimestamp *)\n")
		fmt.Printf("Definition persist_notices : bool := %s.\n", flag(mj, "Notices:s.flattenNotices(nil),"))
		fmt.Printf("Definition persist_last_id : bool := %s.\n", flag(mj, "LastNoticeId:s.lastNoticeId,"))
		fmt.Printf("Definition persist_last_ts : bool := %s.\n", flag(mj, "LastNoticeTimestamp:s.lastNoticeTimestamp,"))
		fmt.Printf("Definition restore_notices : bool := %s.\n", flag(uj, "s.unflattenNotices(unmarshalled.Notices)"))
		fmt.Printf("Definition restore_last_id : bool := %s.\n", flag(uj, "s.lastNoticeId=unmarshalled.LastNoticeId"))
		fmt.Printf("Definition restore_last_ts : bool := %s.\n", flag(uj, "s.lastNoticeTimestamp=unmarshalled.LastNoticeTimestamp"))
		fmt.Printf("(* places outside tests that set AddNoticeOptions.Time *)\nDefinition explicit_time_sites : list bytes := [%s].\n", strings.Join(items, "; "))
	}
}
