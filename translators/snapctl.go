package main

import (
	"fmt"
	"go/ast"
	"go/token"
	"os"
	"path/filepath"
	"reflect"
	"sort"
	"strconv"
	"strings"
)

// snapctl: the permission table of overlord/hookstate/ctlcmd (C25).
//
// Prints nonRootAllowed (ctlcmd.go) and the names of the commands registered with addCommand("name", ...) in the
// non-test files of the package. Also checks the assumption the model of the option parser rests on: no command
// option declares the short name `h` or the long name `help` (those belong to go-flags' built-in help group).
func init() {
	cmds["snapctl"] = func() {
		dir := filepath.Join(repo, "overlord/hookstate/ctlcmd")
		ents, err := os.ReadDir(dir)
		if err != nil {
			die("%v", err)
		}
		var names []string
		var allowed []string
		var span []byte
		coqBytes := func(s string) string {
			for i := 0; i < len(s); i++ {
				if s[i] < 0x20 || s[i] > 0x7e || s[i] == '"' {
					die("string %q cannot be printed as a Coq literal", s)
				}
			}
			return `(bs "` + s + `")`
		}
		for _, e := range ents {
			fn := e.Name()
			if !strings.HasSuffix(fn, ".go") || strings.HasSuffix(fn, "_test.go") {
				continue
			}
			fs, f, b := parseFile(filepath.Join("overlord/hookstate/ctlcmd", fn))
			if fn == "ctlcmd.go" {
				v := findVar(f, "nonRootAllowed")
				cl, ok := v.(*ast.CompositeLit)
				if !ok {
					die("nonRootAllowed is no longer a composite literal")
				}
				span = append(span, src(fs, b, cl)...)
				for _, x := range cl.Elts {
					bl, ok := x.(*ast.BasicLit)
					if !ok || bl.Kind != token.STRING {
						die("nonRootAllowed element is not a string literal")
					}
					s, _ := strconv.Unquote(bl.Value)
					allowed = append(allowed, s)
				}
				if findFunc(f, "isAllowedToRun") == nil || findFunc(f, "Run") == nil {
					die("ctlcmd.go no longer has isAllowedToRun / Run")
				}
			}
			ast.Inspect(f, func(n ast.Node) bool {
				switch v := n.(type) {
				case *ast.CallExpr:
					if id, ok := v.Fun.(*ast.Ident); ok && id.Name == "addCommand" {
						if len(v.Args) < 1 {
							die("%s: addCommand without arguments", fn)
						}
						bl, ok := v.Args[0].(*ast.BasicLit)
						if !ok || bl.Kind != token.STRING {
							die("%s: addCommand name is not a string literal: %s", fn, src(fs, b, v.Args[0]))
						}
						s, _ := strconv.Unquote(bl.Value)
						names = append(names, s)
					}
				case *ast.Field:
					if v.Tag != nil {
						t, err := strconv.Unquote(v.Tag.Value)
						if err == nil {
							st := reflect.StructTag(t)
							if st.Get("short") == "h" || st.Get("long") == "help" {
								die("%s: an option declares short:h or long:help: %s", fn, t)
							}
						}
					}
				}
				return true
			})
		}
		if len(allowed) == 0 || len(names) == 0 {
			die("nothing found")
		}
		sort.Strings(names)
		for i := 1; i < len(names); i++ {
			if names[i] == names[i-1] {
				die("command %s registered twice", names[i])
			}
		}
		span = append(span, []byte(strings.Join(names, ","))...)
		q := func(l []string) string {
			var it []string
			for _, s := range l {
				it = append(it, coqBytes(s))
			}
			return "[" + strings.Join(it, "; ") + "]"
		}
		fmt.Print(header("overlord/hookstate/ctlcmd/*.go (nonRootAllowed, addCommand names)", span))
		fmt.Println("From Coq Require Import List NArith String.\nImport ListNotations.\nRequire Import V.lib.Bytes.")
		fmt.Printf("(* nonRootAllowed, in source order *)\nDefinition non_root_allowed : list bytes := %s.\n", q(allowed))
		fmt.Printf("(* names registered with addCommand, sorted *)\nDefinition registered_commands : list bytes := %s.\n", q(names))
	}
}
