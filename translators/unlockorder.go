package main

import (
	"fmt"
	"go/ast"
	"strings"
)

// unlockorder (C04): the order of the lock-relevant steps in State.Unlock (overlord/state/state.go), in source order:
//   "defer-unlock"  a deferred s.unlock() / s.mu.Unlock()
//   "unlock"        a non-deferred s.unlock() / s.mu.Unlock()
//   "marshal"       s.checkpointData()
//   "checkpoint"    s.backend.Checkpoint(...)
// proofs/RestartProofs.v requires that the checkpoint is written while the state lock is still held (no non-deferred
// unlock before the last checkpoint call, a deferred one present) and that the data is marshalled before it is written.
func init() {
	cmds["unlockorder"] = func() {
		fs, f, b := parseFile("overlord/state/state.go")
		fd := pfMethod(f, "State", "Unlock")
		if fd == nil || fd.Body == nil {
			die("overlord/state/state.go: method State.Unlock not found")
		}
		recv := pfRecvName(fd)
		var steps []string
		isRecvSel := func(e ast.Expr, path ...string) bool { // recv.path[0].path[1]...
			for i := len(path) - 1; i >= 0; i-- {
				se, ok := e.(*ast.SelectorExpr)
				if !ok || se.Sel.Name != path[i] {
					return false
				}
				e = se.X
			}
			id, ok := e.(*ast.Ident)
			return ok && id.Name == recv
		}
		classify := func(call *ast.CallExpr) string {
			switch {
			case isRecvSel(call.Fun, "unlock"), isRecvSel(call.Fun, "mu", "Unlock"):
				return "unlock"
			case isRecvSel(call.Fun, "checkpointData"):
				return "marshal"
			case isRecvSel(call.Fun, "backend", "Checkpoint"):
				return "checkpoint"
			}
			return ""
		}
		deferred := map[*ast.CallExpr]bool{}
		ast.Inspect(fd.Body, func(n ast.Node) bool {
			switch v := n.(type) {
			case *ast.DeferStmt:
				deferred[v.Call] = true
			case *ast.GoStmt:
				die("State.Unlock starts a goroutine: the checkpoint may be written outside the lock")
			case *ast.CallExpr:
				if k := classify(v); k != "" {
					if deferred[v] {
						if k == "unlock" {
							k = "defer-unlock"
						} else {
							die("State.Unlock defers %s", k)
						}
					}
					steps = append(steps, k)
				}
			}
			return true
		})
		has := func(k string) bool {
			for _, s := range steps {
				if s == k {
					return true
				}
			}
			return false
		}
		if !has("checkpoint") || !has("marshal") {
			die("State.Unlock no longer calls s.checkpointData() and s.backend.Checkpoint(...) directly: steps %v", steps)
		}
		q := make([]string, len(steps))
		for i, s := range steps {
			q[i] = `bs "` + s + `"`
		}
		fmt.Print(header("overlord/state/state.go", src(fs, b, fd)))
		fmt.Println("From Coq Require Import String List NArith.\nImport ListNotations.\nRequire Import V.lib.Bytes.")
		fmt.Printf("Definition unlock_steps : list bytes := [%s].\n", strings.Join(q, "; "))
	}
}
