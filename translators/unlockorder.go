package main

import (
	"fmt"
	"go/ast"
	"go/parser"
	"go/token"
	"os"
	"path/filepath"
	"sort"
	"strings"
)

// unlockorder (C04): the order of the lock-relevant steps in State.Unlock (overlord/state/state.go), in source order:
//   "defer-unlock"  a deferred s.unlock() / s.mu.Unlock()
//   "unlock"        a non-deferred s.unlock() / s.mu.Unlock()
//   "marshal"       s.checkpointData()
//   "checkpoint"    s.backend.Checkpoint(...)
// proofs/RestartProofs.v requires that the checkpoint is written while the state lock is still held (no non-deferred
// unlock before the last checkpoint call, a deferred one present) and that the data is marshalled before it is written.
func init() {
	cmds["unlockorder"] = func() {
		fs, f, b := parseFile("overlord/state/state.go")
		fd := pfMethod(f, "State", "Unlock")
		if fd == nil || fd.Body == nil {
			die("overlord/state/state.go: method State.Unlock not found")
		}
		recv := pfRecvName(fd)
		var steps []string
		isRecvSel := func(e ast.Expr, path ...string) bool { // recv.path[0].path[1]...
			for i := len(path) - 1; i >= 0; i-- {
				se, ok := e.(*ast.SelectorExpr)
				if !ok || se.Sel.Name != path[i] {
					return false
				}
				e = se.X
			}
			id, ok := e.(*ast.Ident)
			return ok && id.Name == recv
		}
		classify := func(call *ast.CallExpr) string {
			switch {
			case isRecvSel(call.Fun, "unlock"), isRecvSel(call.Fun, "mu", "Unlock"):
				return "unlock"
			case isRecvSel(call.Fun, "checkpointData"):
				return "marshal"
			case isRecvSel(call.Fun, "backend", "Checkpoint"):
				return "checkpoint"
			}
			return ""
		}
		deferred := map[*ast.CallExpr]bool{}
		ast.Inspect(fd.Body, func(n ast.Node) bool {
			switch v := n.(type) {
			case *ast.DeferStmt:
				deferred[v.Call] = true
			case *ast.GoStmt:
				die("State.Unlock starts a goroutine: the checkpoint may be written outside the lock")
			case *ast.CallExpr:
				if k := classify(v); k != "" {
					if deferred[v] {
						if k == "unlock" {
							k = "defer-unlock"
						} else {
							die("State.Unlock defers %s", k)
						}
					}
					steps = append(steps, k)
				}
			}
			return true
		})
		has := func(k string) bool {
			for _, s := range steps {
				if s == k {
					return true
				}
			}
			return false
		}
		if !has("checkpoint") || !has("marshal") {
			die("State.Unlock no longer calls s.checkpointData() and s.backend.Checkpoint(...) directly: steps %v", steps)
		}
		q := make([]string, len(steps))
		for i, s := range steps {
			q[i] = `bs "` + s + `"`
		}
		fmt.Print(header("overlord/state/state.go", src(fs, b, fd)))
		fmt.Println("From Coq Require Import String List NArith.\nImport ListNotations.\nRequire Import V.lib.Bytes.")
		fmt.Printf("Definition unlock_steps : list bytes := [%s].\n", strings.Join(q, "; "))

		// State.Unlocker: the closure it returns must release the lock through s.Unlock() (the checkpointing path) and hand
		// back s.Lock; steps in source order: "Unlock" (s.Unlock()), "unlock" (s.unlock() or s.mu.Unlock()), "Lock" (s.Lock
		// called or returned as a value)
		ud := pfMethod(f, "State", "Unlocker")
		if ud == nil || ud.Body == nil {
			die("overlord/state/state.go: method State.Unlocker not found")
		}
		urecv := pfRecvName(ud)
		var usteps []string
		ast.Inspect(ud.Body, func(n ast.Node) bool {
			if _, ok := n.(*ast.GoStmt); ok {
				die("State.Unlocker starts a goroutine")
			}
			se, ok := n.(*ast.SelectorExpr)
			if !ok {
				return true
			}
			if id, ok := se.X.(*ast.Ident); ok && id.Name == urecv {
				switch se.Sel.Name {
				case "Unlock", "unlock", "Lock":
					usteps = append(usteps, se.Sel.Name)
				}
			}
			if inner, ok := se.X.(*ast.SelectorExpr); ok && se.Sel.Name == "Unlock" && inner.Sel.Name == "mu" {
				usteps = append(usteps, "unlock")
			}
			return true
		})
		if len(usteps) == 0 {
			die("State.Unlocker no longer mentions s.Unlock / s.Lock")
		}
		uq := make([]string, len(usteps))
		for i, s := range usteps {
			uq[i] = `bs "` + s + `"`
		}
		fmt.Printf("Definition unlocker_steps : list bytes := [%s].\n", strings.Join(uq, "; "))

		// every function of overlord/state (non-test files) that calls the non-checkpointing x.unlock(), and every one that
		// calls x.mu.Unlock() on a State
		dir := filepath.Join(repo, "overlord/state")
		ents, err := os.ReadDir(dir)
		if err != nil {
			die("%v", err)
		}
		var lower, raw []string
		for _, e := range ents {
			if e.IsDir() || !strings.HasSuffix(e.Name(), ".go") || strings.HasSuffix(e.Name(), "_test.go") {
				continue
			}
			fset := token.NewFileSet()
			pf, err := parser.ParseFile(fset, filepath.Join(dir, e.Name()), nil, 0)
			if err != nil {
				die("%v", err)
			}
			for _, d := range pf.Decls {
				fn, ok := d.(*ast.FuncDecl)
				if !ok || fn.Body == nil {
					continue
				}
				name := fn.Name.Name
				recvT := ""
				if fn.Recv != nil && len(fn.Recv.List) == 1 {
					t := fn.Recv.List[0].Type
					if st, ok := t.(*ast.StarExpr); ok {
						t = st.X
					}
					if id, ok := t.(*ast.Ident); ok {
						recvT = id.Name
						name = id.Name + "." + name
					}
				}
				ast.Inspect(fn.Body, func(n ast.Node) bool {
					call, ok := n.(*ast.CallExpr)
					if !ok {
						return true
					}
					se, ok := call.Fun.(*ast.SelectorExpr)
					if !ok {
						return true
					}
					if se.Sel.Name == "unlock" {
						lower = append(lower, name)
					}
					if inner, ok := se.X.(*ast.SelectorExpr); ok && se.Sel.Name == "Unlock" && inner.Sel.Name == "mu" && recvT == "State" {
						raw = append(raw, name)
					}
					return true
				})
			}
		}
		sort.Strings(lower)
		sort.Strings(raw)
		emit := func(name string, l []string) {
			q := make([]string, len(l))
			for i, s := range l {
				q[i] = `bs "` + s + `"`
			}
			fmt.Printf("Definition %s : list bytes := [%s].\n", name, strings.Join(q, "; "))
		}
		emit("lowercase_unlock_callers", lower)
		emit("state_mu_unlock_callers", raw)
	}
}
