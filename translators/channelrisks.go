package main

import (
	"fmt"
	"go/ast"
	"go/token"
	"strconv"
	"strings"
)

// channelrisks: the channelRisks literal of snap/channel/channel.go (C34), plus the two string literals Clean
// hard-codes ("latest", "stable") found by shape so that a change of either is noticed.
func init() {
	cmds["channelrisks"] = func() {
		fs, f, b := parseFile("snap/channel/channel.go")
		v := findVar(f, "channelRisks")
		cl, ok := v.(*ast.CompositeLit)
		if !ok {
			die("channelRisks is no longer a composite literal")
		}
		coqBytes := func(s string) string {
			items := make([]string, len(s))
			for i := 0; i < len(s); i++ {
				items[i] = strconv.Itoa(int(s[i]))
			}
			return "[" + strings.Join(items, ";") + "]%N"
		}
		var items []string
		for _, e := range cl.Elts {
			bl, ok := e.(*ast.BasicLit)
			if !ok || bl.Kind != token.STRING {
				die("channelRisks element is not a string literal")
			}
			s, err := strconv.Unquote(bl.Value)
			if err != nil {
				die("channelRisks element: %v", err)
			}
			items = append(items, "(* "+strings.ReplaceAll(s, "*", "?")+" *) "+coqBytes(s))
		}
		if len(items) == 0 {
			die("channelRisks is empty")
		}
		// string literals compared / assigned in Channel.Clean: `track == "latest"` and `risk = "stable"`
		var clean *ast.FuncDecl
		for _, d := range f.Decls {
			if fd, ok := d.(*ast.FuncDecl); ok && fd.Name.Name == "Clean" && fd.Recv != nil {
				clean = fd
			}
		}
		if clean == nil {
			die("method Clean not found")
		}
		var defTrack, defRisk string
		ast.Inspect(clean.Body, func(n ast.Node) bool {
			switch x := n.(type) {
			case *ast.BinaryExpr:
				if id, ok := x.X.(*ast.Ident); ok && id.Name == "track" && x.Op == token.EQL {
					if bl, ok := x.Y.(*ast.BasicLit); ok && bl.Kind == token.STRING {
						if s, _ := strconv.Unquote(bl.Value); s != "" {
							defTrack = s
						}
					}
				}
			case *ast.AssignStmt:
				if len(x.Lhs) == 1 && len(x.Rhs) == 1 {
					if id, ok := x.Lhs[0].(*ast.Ident); ok && id.Name == "risk" && x.Tok == token.ASSIGN {
						if bl, ok := x.Rhs[0].(*ast.BasicLit); ok && bl.Kind == token.STRING {
							defRisk, _ = strconv.Unquote(bl.Value)
						}
					}
				}
			}
			return true
		})
		if defTrack == "" || defRisk == "" {
			die("Channel.Clean no longer has the shape `if track == \"<default>\"` / `risk = \"<default>\"`")
		}
		fmt.Print(header("snap/channel/channel.go", append(append([]byte{}, src(fs, b, cl)...), src(fs, b, clean)...)))
		fmt.Println("From Coq Require Import List NArith.\nImport ListNotations.\nOpen Scope N_scope.")
		fmt.Printf("Definition risks : list (list N) := [\n  %s\n].\n", strings.Join(items, ";\n  "))
		fmt.Printf("(* the track Clean drops: %s *)\nDefinition default_track : list N := %s.\n", defTrack, coqBytes(defTrack))
		fmt.Printf("(* the risk Clean fills in: %s *)\nDefinition default_risk : list N := %s.\n", defRisk, coqBytes(defRisk))
	}
}
