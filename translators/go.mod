module veriftr

go 1.18
