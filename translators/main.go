// Translators: regenerate coq/gen/*.v from /repo's current source. Each subcommand prints one .v file on
// stdout and exits non-zero (loudly) when the source no longer has the shape it expects.
package main

import (
	"crypto/sha256"
	"fmt"
	"go/ast"
	"go/parser"
	"go/token"
	"os"
	"path/filepath"
	"strings"
)

var repo = func() string {
	if v := os.Getenv("VERIF_REPO"); v != "" {
		return v
	}
	return "/repo"
}()

func die(f string, a ...interface{}) {
	fmt.Fprintf(os.Stderr, "translator: "+f+"\n", a...)
	os.Exit(2)
}

func parseFile(rel string) (*token.FileSet, *ast.File, []byte) {
	p := filepath.Join(repo, rel)
	src, err := os.ReadFile(p)
	if err != nil {
		die("%v", err)
	}
	fs := token.NewFileSet()
	f, err := parser.ParseFile(fs, p, src, parser.ParseComments)
	if err != nil {
		die("%v", err)
	}
	return fs, f, src
}

func header(rel string, span []byte) string {
	return fmt.Sprintf("(* GENERATED from %s by /verif/translators — do not edit. sha256(span)=%x *)\n", rel, sha256.Sum256(span))
}

// findVar returns the value expression of a package-level `var name = ...`
func findVar(f *ast.File, name string) ast.Expr {
	for _, d := range f.Decls {
		gd, ok := d.(*ast.GenDecl)
		if !ok {
			continue
		}
		for _, s := range gd.Specs {
			vs, ok := s.(*ast.ValueSpec)
			if !ok {
				continue
			}
			for i, n := range vs.Names {
				if n.Name == name && i < len(vs.Values) {
					return vs.Values[i]
				}
			}
		}
	}
	return nil
}

func findFunc(f *ast.File, name string) *ast.FuncDecl {
	for _, d := range f.Decls {
		if fd, ok := d.(*ast.FuncDecl); ok && fd.Name.Name == name {
			return fd
		}
	}
	return nil
}

func intLit(e ast.Expr) (string, bool) {
	switch v := e.(type) {
	case *ast.BasicLit:
		if v.Kind == token.INT {
			return v.Value, true
		}
	case *ast.UnaryExpr:
		if v.Op == token.SUB {
			if s, ok := intLit(v.X); ok {
				return "-" + s, true
			}
		}
	case *ast.ParenExpr:
		return intLit(v.X)
	}
	return "", false
}

func src(fs *token.FileSet, b []byte, n ast.Node) []byte {
	return b[fs.Position(n.Pos()).Offset:fs.Position(n.End()).Offset]
}

var cmds = map[string]func(){}

func main() {
	if len(os.Args) < 2 || cmds[os.Args[1]] == nil {
		var names []string
		for k := range cmds {
			names = append(names, k)
		}
		die("usage: tr <%s>", strings.Join(names, "|"))
	}
	cmds[os.Args[1]]()
}
