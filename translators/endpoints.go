package main

import (
	"fmt"
	"go/ast"
	"go/token"
	"os"
	"path/filepath"
	"sort"
	"strconv"
	"strings"
)

// endpoints: the REST endpoint table of the daemon (C26).
//
// Reads the `api` list of daemon/api.go and every `name = &Command{...}` literal in the non-test daemon/*.go
// files and prints, in the order of `api`, one record per endpoint: path, which of GET/PUT/POST are set, and the
// access checker expressions of ReadAccess / WriteAccess (checker type, Polkit action resolved to its string
// constant, interface names). Fails loudly on anything it does not understand: an unknown Command field (e.g. a
// new verb), an unknown checker type or checker field, a non-literal value, an `api` entry without literal, or
// an assignment to one of the access/verb fields anywhere outside the literals.
func init() {
	cmds["endpoints"] = func() {
		dir := filepath.Join(repo, "daemon")
		ents, err := os.ReadDir(dir)
		if err != nil {
			die("%v", err)
		}
		var files []string
		for _, e := range ents {
			n := e.Name()
			if strings.HasSuffix(n, ".go") && !strings.HasSuffix(n, "_test.go") {
				files = append(files, n)
			}
		}
		sort.Strings(files)

		consts := map[string]string{} // string constants of the package (polkit action ids)
		type lit struct {
			file string
			cl   *ast.CompositeLit
		}
		lits := map[string]lit{}
		var apiNames []string
		var span []byte
		accessFields := map[string]bool{"GET": true, "PUT": true, "POST": true, "ReadAccess": true, "WriteAccess": true}

		for _, fn := range files {
			fs, f, b := parseFile(filepath.Join("daemon", fn))
			if f.Name.Name != "daemon" {
				continue
			}
			// a build constraint on a file that declares a Command could silently hide or duplicate an endpoint
			skip := false
			for _, cg := range f.Comments {
				if cg.Pos() > f.Package {
					break
				}
				for _, c := range cg.List {
					if strings.HasPrefix(c.Text, "//go:build") || strings.HasPrefix(c.Text, "// +build") {
						skip = true
					}
				}
			}
			for _, d := range f.Decls {
				gd, ok := d.(*ast.GenDecl)
				if !ok {
					continue
				}
				for _, s := range gd.Specs {
					vs, ok := s.(*ast.ValueSpec)
					if !ok {
						continue
					}
					for i, n := range vs.Names {
						if i >= len(vs.Values) {
							continue
						}
						v := vs.Values[i]
						if gd.Tok == token.CONST {
							if bl, ok := v.(*ast.BasicLit); ok && bl.Kind == token.STRING {
								s, err := strconv.Unquote(bl.Value)
								if err == nil {
									consts[n.Name] = s
								}
							}
							continue
						}
						if n.Name == "api" && fn == "api.go" {
							cl, ok := v.(*ast.CompositeLit)
							if !ok {
								die("api is no longer a composite literal")
							}
							span = append(span, src(fs, b, cl)...)
							for _, e := range cl.Elts {
								id, ok := e.(*ast.Ident)
								if !ok {
									die("api element is not an identifier: %s", src(fs, b, e))
								}
								apiNames = append(apiNames, id.Name)
							}
							continue
						}
						ue, ok := v.(*ast.UnaryExpr)
						if !ok || ue.Op != token.AND {
							continue
						}
						cl, ok := ue.X.(*ast.CompositeLit)
						if !ok {
							continue
						}
						if id, ok := cl.Type.(*ast.Ident); !ok || id.Name != "Command" {
							continue
						}
						if skip {
							die("%s declares Command %s under a build constraint the translator does not know", fn, n.Name)
						}
						if _, dup := lits[n.Name]; dup {
							die("Command %s declared twice", n.Name)
						}
						lits[n.Name] = lit{fn, cl}
					}
				}
			}
			// no assignment to verb/access fields outside the literals
			ast.Inspect(f, func(n ast.Node) bool {
				as, ok := n.(*ast.AssignStmt)
				if !ok {
					return true
				}
				for _, l := range as.Lhs {
					if se, ok := l.(*ast.SelectorExpr); ok && accessFields[se.Sel.Name] {
						die("%s: assignment to a Command verb/access field outside a literal: %s", fn, src(fs, b, as))
					}
				}
				return true
			})
		}
		if len(apiNames) == 0 {
			die("no api list found in daemon/api.go")
		}

		coqBytes := func(s string) string {
			for i := 0; i < len(s); i++ {
				if s[i] < 0x20 || s[i] > 0x7e || s[i] == '"' {
					die("string %q cannot be printed as a Coq literal", s)
				}
			}
			return `(bs "` + s + `")`
		}
		strVal := func(e ast.Expr) string {
			switch v := e.(type) {
			case *ast.BasicLit:
				if v.Kind == token.STRING {
					s, err := strconv.Unquote(v.Value)
					if err == nil {
						return s
					}
				}
			case *ast.Ident:
				if s, ok := consts[v.Name]; ok {
					return s
				}
			}
			die("cannot resolve string expression %T", e)
			return ""
		}
		strList := func(e ast.Expr) []string {
			cl, ok := e.(*ast.CompositeLit)
			if !ok {
				die("Interfaces is not a literal")
			}
			var out []string
			for _, x := range cl.Elts {
				out = append(out, strVal(x))
			}
			return out
		}
		access := func(name string, e ast.Expr) string {
			cl, ok := e.(*ast.CompositeLit)
			if !ok {
				die("%s: access checker is not a composite literal", name)
			}
			id, ok := cl.Type.(*ast.Ident)
			if !ok {
				die("%s: access checker type is not an identifier", name)
			}
			fields := map[string]ast.Expr{}
			for _, x := range cl.Elts {
				kv, ok := x.(*ast.KeyValueExpr)
				if !ok {
					die("%s: positional field in %s literal", name, id.Name)
				}
				fields[kv.Key.(*ast.Ident).Name] = kv.Value
			}
			only := func(allowed ...string) {
				for k := range fields {
					okk := false
					for _, a := range allowed {
						if a == k {
							okk = true
						}
					}
					if !okk {
						die("%s: unknown field %s in %s literal", name, k, id.Name)
					}
				}
			}
			polkit := func() string {
				if v, ok := fields["Polkit"]; ok {
					return coqBytes(strVal(v))
				}
				return "[]"
			}
			ifaces := func() string {
				v, ok := fields["Interfaces"]
				if !ok {
					return "[]"
				}
				var items []string
				for _, s := range strList(v) {
					items = append(items, coqBytes(s))
				}
				return "[" + strings.Join(items, "; ") + "]"
			}
			switch id.Name {
			case "openAccess":
				only()
				return "AOpen"
			case "rootAccess":
				only()
				return "ARoot"
			case "snapAccess":
				only()
				return "ASnap"
			case "authenticatedAccess":
				only("Polkit")
				return "(AAuth " + polkit() + ")"
			case "interfaceOpenAccess":
				only("Interfaces")
				return "(AIfaceOpen " + ifaces() + ")"
			case "interfaceAuthenticatedAccess":
				only("Interfaces", "Polkit")
				return "(AIfaceAuth " + ifaces() + " " + polkit() + ")"
			}
			die("%s: unknown access checker type %s", name, id.Name)
			return ""
		}

		var rows []string
		seen := map[string]bool{}
		for _, name := range apiNames {
			l, ok := lits[name]
			if !ok {
				die("api entry %s has no &Command{...} literal", name)
			}
			if seen[name] {
				die("api lists %s twice", name)
			}
			seen[name] = true
			path, prefix := "", false
			verbs := map[string]bool{}
			read, write := "ANil", "ANil"
			for _, x := range l.cl.Elts {
				kv, ok := x.(*ast.KeyValueExpr)
				if !ok {
					die("%s: positional field in Command literal", name)
				}
				k := kv.Key.(*ast.Ident).Name
				switch k {
				case "Path":
					path = strVal(kv.Value)
				case "PathPrefix":
					path, prefix = strVal(kv.Value), true
				case "GET", "PUT", "POST":
					if id, ok := kv.Value.(*ast.Ident); ok && id.Name == "nil" {
						continue
					}
					verbs[k] = true
				case "ReadAccess":
					read = access(name, kv.Value)
				case "WriteAccess":
					write = access(name, kv.Value)
				default:
					die("%s: unknown Command field %s (the model of Command.ServeHTTP does not know it)", name, k)
				}
			}
			if path == "" {
				die("%s: no Path/PathPrefix", name)
			}
			b := func(x bool) string {
				if x {
					return "true"
				}
				return "false"
			}
			rows = append(rows, fmt.Sprintf("  mkEp %s %s %s %s %s %s %s (* %s, %s *)", coqBytes(path), b(prefix),
				b(verbs["GET"]), b(verbs["PUT"]), b(verbs["POST"]), read, write, name, l.file))
			span = append(span, []byte(rows[len(rows)-1])...)
		}
		var unlisted []string
		for n := range lits {
			if !seen[n] {
				unlisted = append(unlisted, n)
			}
		}
		sort.Strings(unlisted)

		fmt.Print(header("daemon/api.go + daemon/*.go Command literals", span))
		fmt.Println(`From Coq Require Import List NArith String.
Import ListNotations.
Require Import V.lib.Bytes.
Open Scope N_scope.

(* the access checker expression of a Command literal (daemon/access.go types); ANil = field not set *)
Inductive access : Type :=
| ANil
| AOpen
| AAuth (polkit : bytes)
| ARoot
| ASnap
| AIfaceOpen (ifaces : list bytes)
| AIfaceAuth (ifaces : list bytes) (polkit : bytes).

(* path, is-prefix, GET set, PUT set, POST set, ReadAccess, WriteAccess *)
Record endpoint : Type := mkEp {
  ep_path : bytes; ep_prefix : bool;
  ep_get : bool; ep_put : bool; ep_post : bool;
  ep_read : access; ep_write : access }.
`)
		fmt.Printf("(* Command literals that are not registered in `api`: %s *)\n", strings.Join(unlisted, " "))
		fmt.Printf("Definition api : list endpoint := [\n%s\n].\n", strings.Join(rows, ";\n"))

		// noticeReadInterfaces (daemon/api_notices.go): notice type -> interfaces that let a snap read it over
		// snapd-snap.socket; the keys are state.XxxNotice constants, resolved from overlord/state/notices.go
		{
			_, sf, _ := parseFile("overlord/state/notices.go")
			ntypes := map[string]string{}
			for _, d := range sf.Decls {
				gd, ok := d.(*ast.GenDecl)
				if !ok || gd.Tok != token.CONST {
					continue
				}
				for _, sp := range gd.Specs {
					vs := sp.(*ast.ValueSpec)
					if id, ok := vs.Type.(*ast.Ident); !ok || id.Name != "NoticeType" {
						continue
					}
					for i, n := range vs.Names {
						if i < len(vs.Values) {
							if bl, ok := vs.Values[i].(*ast.BasicLit); ok && bl.Kind == token.STRING {
								v, _ := strconv.Unquote(bl.Value)
								ntypes[n.Name] = v
							}
						}
					}
				}
			}
			_, nf, _ := parseFile("daemon/api_notices.go")
			v := findVar(nf, "noticeReadInterfaces")
			cl, ok := v.(*ast.CompositeLit)
			if !ok {
				die("noticeReadInterfaces is no longer a composite literal")
			}
			for _, fn := range []string{"noticeTypesViewableBySnap", "sanitizeNoticeTypesFilter"} {
				if findFunc(nf, fn) == nil {
					die("daemon/api_notices.go no longer has %s", fn)
				}
			}
			var nrows []string
			for _, x := range cl.Elts {
				kv, ok := x.(*ast.KeyValueExpr)
				if !ok {
					die("noticeReadInterfaces: element is not key: value")
				}
				se, ok := kv.Key.(*ast.SelectorExpr)
				if !ok {
					die("noticeReadInterfaces: key is not state.<Const>")
				}
				tv, ok := ntypes[se.Sel.Name]
				if !ok {
					die("noticeReadInterfaces: unknown notice type constant %s", se.Sel.Name)
				}
				var items []string
				for _, sv := range strList(kv.Value) {
					items = append(items, coqBytes(sv))
				}
				nrows = append(nrows, fmt.Sprintf("  (%s, [%s])", coqBytes(tv), strings.Join(items, "; ")))
			}
			sort.Strings(nrows)
			var all []string
			for _, tv := range ntypes {
				all = append(all, coqBytes(tv))
			}
			sort.Strings(all)
			fmt.Printf("\n(* noticeReadInterfaces of daemon/api_notices.go, sorted by notice type *)\nDefinition notice_read_interfaces : list (bytes * list bytes) := [\n%s\n].\n", strings.Join(nrows, ";\n"))
			fmt.Printf("(* every NoticeType constant of overlord/state/notices.go *)\nDefinition notice_types : list bytes := [%s].\n", strings.Join(all, "; "))
		}
	}
}
