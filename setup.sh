#!/bin/sh
# Build the framework from files on disk only (offline). Regenerates coq/gen from /repo and builds every .vo.
set -e
cd "$(dirname "$0")"
export GOFLAGS=-mod=mod GOPROXY=off GOSUMDB=off GOTOOLCHAIN=local
timeout 3000 python3 -c "
import sys; sys.path.insert(0,'.')
from vlib import core
import importlib, glob, os
for f in sorted(glob.glob('checks/c[0-9]*.py')):
    spec = importlib.import_module('checks.'+os.path.basename(f)[:-3]).SPEC
    for g in spec.get('gens', []):
        ok, log = core.run_gen(g['name'], g['cmd'])
        if not ok: print('gen failed', g['name'], log); sys.exit(1)
core.coq_project()
"
cd coq && timeout 3400 make -j16 >/dev/null 2>../.setup-make.log || { tail -50 ../.setup-make.log; exit 1; }
echo setup ok
