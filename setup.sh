#!/bin/sh
# Build the framework from files on disk only (offline). Regenerates coq/gen from /repo and builds the .vo closure of
# every claimed property (checks/cNN.py without a `disabled` reason).
set -e
cd "$(dirname "$0")"
export GOFLAGS=-mod=mod GOPROXY=off GOSUMDB=off GOTOOLCHAIN=local
TARGETS=$(timeout 3000 python3 -c "
import sys; sys.path.insert(0,'.')
from vlib import core
import importlib, glob, os
targets = []
for f in sorted(glob.glob('checks/c[0-9]*.py')):
    spec = importlib.import_module('checks.'+os.path.basename(f)[:-3]).SPEC
    if spec.get('disabled'):
        continue
    for g in spec.get('gens', []):
        ok, log = core.run_gen(g['name'], g['cmd'])
        if not ok: sys.stderr.write('gen failed %s %s\n' % (g['name'], log)); sys.exit(1)
    targets += spec.get('coq_targets', ['props/%s.vo' % spec['prop']]) + spec.get('model_targets', [])
core.coq_project()
print(' '.join(sorted(set(targets))))
")
cd coq && timeout 3400 make -j16 $TARGETS >/dev/null 2>../.setup-make.log || { tail -50 ../.setup-make.log; exit 1; }
echo setup ok
